//! Engine plumbing shared by every check: tiers, counters, violations, evidence,
//! known findings, parallel distribution of independent configurations.

use serde_json::{json, Map, Value};
use std::sync::atomic::{AtomicBool, AtomicUsize, Ordering};
use std::time::{Duration, Instant};

#[derive(Clone, Copy, PartialEq, Eq, Debug)]
pub enum Tier {
    Quick,
    Thorough,
}

impl Tier {
    pub fn name(&self) -> &'static str {
        match self {
            Tier::Quick => "quick",
            Tier::Thorough => "thorough",
        }
    }
    pub fn pick<T>(&self, quick: T, thorough: T) -> T {
        match self {
            Tier::Quick => quick,
            Tier::Thorough => thorough,
        }
    }
}

#[derive(Clone)]
pub struct Ctx {
    pub tier: Tier,
    pub seed: u64,
    pub threads: usize,
    pub start: Instant,
    /// wall-clock cap for the whole check (a cap is reported, never a verdict)
    pub wall_cap: Duration,
}

/// resident set size of this process in GiB (0 if /proc is unavailable)
pub fn rss_gib() -> f64 {
    if let Ok(s) = std::fs::read_to_string("/proc/self/statm") {
        if let Some(pages) = s.split_whitespace().nth(1).and_then(|x| x.parse::<f64>().ok()) {
            return pages * 4096.0 / (1024.0 * 1024.0 * 1024.0);
        }
    }
    0.0
}

/// memory cap of the whole check in GiB (a cap is reported, never a verdict)
pub fn rss_cap_gib() -> f64 {
    std::env::var("VERIF_RSS_CAP_GIB").ok().and_then(|s| s.parse().ok()).unwrap_or(36.0)
}

/// ablation switch for measuring what a regime adds: `VERIF_DISABLE=aba,unobserved` turns the named
/// regimes off (never set by the registered commands)
pub fn disabled(name: &str) -> bool {
    std::env::var("VERIF_DISABLE").map(|v| v.split(',').any(|x| x.trim() == name)).unwrap_or(false)
}

impl Ctx {
    pub fn over_time(&self) -> bool {
        self.start.elapsed() > self.wall_cap
    }
    /// true when the process is above its memory cap: long sweeps stop and report the cap
    pub fn over_mem(&self) -> bool {
        rss_gib() > rss_cap_gib()
    }
    /// rotation of a list by the seed: the *set* is unchanged, only the visiting order
    pub fn rotate<T>(&self, v: &mut Vec<T>) {
        if !v.is_empty() {
            let k = (self.seed as usize) % v.len();
            v.rotate_left(k);
        }
    }
}

/// One violation of the property: a stable key (used to match KNOWN_FINDINGS),
/// a human description and a replayable case.
#[derive(Clone, Debug)]
pub struct Violation {
    pub key: String,
    pub what: String,
    pub replay: Value,
}

/// maximum number of violations kept in full per run (the count is still exact)
pub const MAX_KEPT_VIOLATIONS: usize = 8;

#[derive(Default, Clone, Debug)]
pub struct Report {
    /// distinct canonical states (explicit-state regimes) or distinct inputs/configurations reached
    pub states: u64,
    /// operations executed on the real code and checked against the reference
    pub transitions: u64,
    /// histories / inputs executed on the real code in lock step with the reference model
    pub traces: u64,
    /// individual oracle comparisons
    pub evaluations: u64,
    /// distinct non-trivial cases by `rule`
    pub distinct_nontrivial: u64,
    pub rule: String,
    pub samples: Vec<Value>,
    pub exhaustive: bool,
    pub bounds: Map<String, Value>,
    pub extra: Map<String, Value>,
    pub violations: Vec<Violation>,
    pub n_violations: u64,
    pub assumptions: Vec<String>,
    pub caps_hit: Vec<String>,
    /// anti-vacuity floors: (name, measured, floor)
    pub floors: Vec<(String, u64, u64)>,
    pub max_depth: u64,
}

impl Report {
    pub fn new(rule: &str) -> Report {
        Report {
            rule: rule.to_string(),
            exhaustive: true,
            ..Default::default()
        }
    }

    pub fn violation(&mut self, key: impl Into<String>, what: impl Into<String>, replay: Value) {
        self.n_violations += 1;
        let key = key.into();
        if self.violations.len() < MAX_KEPT_VIOLATIONS
            || (self.violations.len() < 4 * MAX_KEPT_VIOLATIONS
                && !self.violations.iter().any(|v| v.key == key))
        {
            self.violations.push(Violation {
                key,
                what: what.into(),
                replay,
            });
        }
    }

    pub fn sample(&mut self, v: Value) {
        if self.samples.len() < 6 {
            self.samples.push(v);
        }
    }

    pub fn floor(&mut self, name: &str, measured: u64, floor: u64) {
        self.floors.push((name.to_string(), measured, floor));
    }

    pub fn bound(&mut self, name: &str, v: Value) {
        self.bounds.insert(name.to_string(), v);
    }

    pub fn add_extra(&mut self, name: &str, n: u64) {
        let e = self.extra.entry(name.to_string()).or_insert(json!(0));
        *e = json!(e.as_u64().unwrap_or(0) + n);
    }

    pub fn set_extra(&mut self, name: &str, v: Value) {
        self.extra.insert(name.to_string(), v);
    }

    pub fn cap(&mut self, what: impl Into<String>) {
        self.exhaustive = false;
        let w = what.into();
        if !self.caps_hit.contains(&w) {
            self.caps_hit.push(w);
        }
    }

    /// merge a partial report of a worker / sub-regime into this one
    pub fn merge(&mut self, o: Report) {
        self.states += o.states;
        self.transitions += o.transitions;
        self.traces += o.traces;
        self.evaluations += o.evaluations;
        self.distinct_nontrivial += o.distinct_nontrivial;
        self.max_depth = self.max_depth.max(o.max_depth);
        if self.rule.is_empty() {
            self.rule = o.rule;
        } else if !o.rule.is_empty() && !self.rule.contains(&o.rule) {
            self.rule.push_str(" | ");
            self.rule.push_str(&o.rule);
        }
        for s in o.samples {
            self.sample(s);
        }
        self.exhaustive &= o.exhaustive;
        for (k, v) in o.bounds {
            self.bounds.entry(k).or_insert(v);
        }
        for (k, v) in o.extra {
            match (self.extra.get(&k).and_then(|x| x.as_u64()), v.as_u64()) {
                (Some(a), Some(b)) => {
                    self.extra.insert(k, json!(a + b));
                }
                _ => {
                    self.extra.entry(k).or_insert(v);
                }
            }
        }
        self.n_violations += o.n_violations;
        for v in o.violations {
            if self.violations.len() < MAX_KEPT_VIOLATIONS
                || (self.violations.len() < 4 * MAX_KEPT_VIOLATIONS
                    && !self.violations.iter().any(|x| x.key == v.key))
            {
                self.violations.push(v);
            }
        }
        for a in o.assumptions {
            if !self.assumptions.contains(&a) {
                self.assumptions.push(a);
            }
        }
        for c in o.caps_hit {
            if !self.caps_hit.contains(&c) {
                self.caps_hit.push(c);
            }
        }
        for (n, m, f) in o.floors {
            if let Some(e) = self.floors.iter_mut().find(|e| e.0 == n) {
                e.1 += m;
                e.2 = e.2.max(f);
            } else {
                self.floors.push((n, m, f));
            }
        }
    }
}


impl Report {
    /// lossless JSON form, used to hand a partial report from a worker process to its parent
    pub fn to_json(&self) -> Value {
        json!({
            "states": self.states, "transitions": self.transitions, "traces": self.traces,
            "evaluations": self.evaluations, "distinct_nontrivial": self.distinct_nontrivial,
            "rule": self.rule, "samples": self.samples, "exhaustive": self.exhaustive,
            "bounds": self.bounds, "extra": self.extra,
            "violations": self.violations.iter().map(|v| json!({"key": v.key, "what": v.what, "replay": v.replay})).collect::<Vec<_>>(),
            "n_violations": self.n_violations, "assumptions": self.assumptions, "caps_hit": self.caps_hit,
            "floors": self.floors.iter().map(|(n, m, f)| json!([n, m, f])).collect::<Vec<_>>(),
            "max_depth": self.max_depth,
        })
    }

    pub fn from_json(v: &Value) -> Option<Report> {
        let strs = |x: &Value| -> Vec<String> { x.as_array().map(|a| a.iter().filter_map(|s| s.as_str().map(|s| s.to_string())).collect()).unwrap_or_default() };
        Some(Report {
            states: v["states"].as_u64()?,
            transitions: v["transitions"].as_u64()?,
            traces: v["traces"].as_u64()?,
            evaluations: v["evaluations"].as_u64()?,
            distinct_nontrivial: v["distinct_nontrivial"].as_u64()?,
            rule: v["rule"].as_str()?.to_string(),
            samples: v["samples"].as_array()?.clone(),
            exhaustive: v["exhaustive"].as_bool()?,
            bounds: v["bounds"].as_object()?.clone(),
            extra: v["extra"].as_object()?.clone(),
            violations: v["violations"].as_array()?.iter().filter_map(|x| Some(Violation { key: x["key"].as_str()?.to_string(), what: x["what"].as_str()?.to_string(), replay: x["replay"].clone() })).collect(),
            n_violations: v["n_violations"].as_u64()?,
            assumptions: strs(&v["assumptions"]),
            caps_hit: strs(&v["caps_hit"]),
            floors: v["floors"].as_array()?.iter().filter_map(|x| Some((x[0].as_str()?.to_string(), x[1].as_u64()?, x[2].as_u64()?))).collect(),
            max_depth: v["max_depth"].as_u64()?,
        })
    }
}

/// directory for scratch files of worker processes (inside the harness's build directory)
pub fn work_dir() -> std::path::PathBuf {
    let root = std::env::var("VERIF_ROOT").map(std::path::PathBuf::from).unwrap_or_else(|_| std::env::current_dir().unwrap());
    let d = root.join("mc").join("target").join("work");
    let _ = std::fs::create_dir_all(&d);
    d
}

/// run `mc __worker <kind> <input file>` as a child process and read the report it prints;
/// Err = the worker did not deliver a report (crash, kill): a machinery failure, never a verdict
pub fn run_worker(kind: &str, input: &Value, ctx: &Ctx, tag: &str, rss_cap_gib: f64) -> Result<Report, String> {
    run_worker_sig(kind, input, ctx, tag, rss_cap_gib).map_err(|e| e.1)
}

/// as `run_worker`; the error carries the signal that ended the worker, if one did (SIGABRT after a stack
/// overflow or a panic inside a panic, SIGSEGV): the caller decides whether the configuration it handed to
/// the worker makes that a finding about the library (the same harness code ran the other configurations)
pub fn run_worker_sig(kind: &str, input: &Value, ctx: &Ctx, tag: &str, rss_cap_gib: f64) -> Result<Report, (Option<i32>, String)> {
    use std::os::unix::process::ExitStatusExt;
    let exe = std::env::current_exe().map_err(|e| (None, e.to_string()))?;
    let path = work_dir().join(format!("{}-{}-{}.json", std::process::id(), kind, tag));
    std::fs::write(&path, serde_json::to_vec(input).map_err(|e| (None, e.to_string()))?).map_err(|e| (None, e.to_string()))?;
    let remaining = ctx.wall_cap.checked_sub(ctx.start.elapsed()).map(|d| d.as_secs()).unwrap_or(0).max(1);
    // output goes to files (a pipe would block a worker that prints more than the pipe holds while the parent
    // polls); the worker is killed when it outlives the remaining wall-clock budget by 20 seconds: its own cap is
    // only polled between operations, and an operation of the library that never returns must not hold the check
    let (po, pe) = (path.with_extension("out"), path.with_extension("err"));
    let files = (std::fs::File::create(&po), std::fs::File::create(&pe));
    let (fo, fe) = match files {
        (Ok(a), Ok(b)) => (a, b),
        _ => return Err((None, "cannot create worker output files".into())),
    };
    let child = std::process::Command::new(exe)
        .arg("__worker")
        .arg(kind)
        .arg(&path)
        .env("VERIF_TIER", ctx.tier.name())
        .env("VERIF_SEED", format!("{}", ctx.seed as i64))
        .env("VERIF_THREADS", "1")
        .env("VERIF_WALL_CAP_S", format!("{}", remaining))
        .env("VERIF_RSS_CAP_GIB", format!("{}", rss_cap_gib))
        .stdout(fo)
        .stderr(fe)
        .spawn()
        .map_err(|e| (None, format!("cannot start worker: {}", e)));
    let mut child = match child {
        Ok(c) => c,
        Err(e) => {
            let _ = std::fs::remove_file(&path);
            return Err(e);
        }
    };
    let deadline = std::time::Instant::now() + std::time::Duration::from_secs(remaining + 20);
    let status = loop {
        match child.try_wait() {
            Ok(Some(st)) => break Ok(st),
            Ok(None) => {
                if std::time::Instant::now() > deadline {
                    let _ = child.kill();
                    let _ = child.wait();
                    break Err(format!("worker {} {} was stopped {} s after its start: it outlived the remaining wall-clock budget (an operation that does not return, or a configuration too large for the budget)", kind, tag, remaining + 20));
                }
                std::thread::sleep(std::time::Duration::from_millis(20));
            }
            Err(e) => break Err(format!("waiting for worker {} {}: {}", kind, tag, e)),
        }
    };
    let stdout = std::fs::read(&po).unwrap_or_default();
    let stderr = std::fs::read(&pe).unwrap_or_default();
    for f in [&path, &po, &pe] {
        let _ = std::fs::remove_file(f);
    }
    let status = match status {
        Ok(s) => s,
        Err(e) => return Err((Some(-1), e)),
    };
    struct Out {
        status: std::process::ExitStatus,
        stdout: Vec<u8>,
        stderr: Vec<u8>,
    }
    let out = Out { status, stdout, stderr };
    if !out.status.success() {
        return Err((out.status.signal(), format!("worker {} {} ended with {:?}: {}", kind, tag, out.status, String::from_utf8_lossy(&out.stderr).chars().rev().take(300).collect::<String>().chars().rev().collect::<String>())));
    }
    let v: Value = serde_json::from_slice(&out.stdout).map_err(|e| (None, format!("worker {} {} printed no report: {}", kind, tag, e)))?;
    Report::from_json(&v).ok_or_else(|| (None, format!("worker {} {} printed an incomplete report", kind, tag)))
}

/// Run `f` over `items` on `threads` workers (each item is an independent configuration whose
/// builders live and die inside `f`); partial reports are merged in item order.
pub fn par_run<I: Send + Sync, F>(ctx: &Ctx, items: &[I], f: F) -> Report
where
    F: Fn(usize, &I) -> Report + Send + Sync,
{
    let next = AtomicUsize::new(0);
    let stop = AtomicBool::new(false);
    let n = items.len();
    let mut results: Vec<Option<Report>> = (0..n).map(|_| None).collect();
    let results_ptr = std::sync::Mutex::new(&mut results);
    let capped = AtomicBool::new(false);
    let running = AtomicUsize::new(0);
    std::thread::scope(|s| {
        for _ in 0..ctx.threads.max(1).min(n.max(1)) {
            s.spawn(|| loop {
                let i = next.fetch_add(1, Ordering::SeqCst);
                if i >= n || stop.load(Ordering::SeqCst) {
                    break;
                }
                if ctx.over_time() {
                    capped.store(true, Ordering::SeqCst);
                    break;
                }
                // memory throttle: while the process is above 60% of its cap and other items
                // are in flight, wait for them to finish and free their builders
                while rss_gib() > 0.6 * rss_cap_gib() && running.load(Ordering::SeqCst) > 0 && !ctx.over_time() {
                    std::thread::sleep(std::time::Duration::from_millis(200));
                }
                running.fetch_add(1, Ordering::SeqCst);
                let r = match std::panic::catch_unwind(std::panic::AssertUnwindSafe(|| f(i, &items[i])))
                {
                    Ok(r) => r,
                    Err(e) => {
                        let msg = panic_msg(&e);
                        let mut r = Report::default();
                        r.exhaustive = true;
                        r.extra.insert("engine_panic".into(), json!(msg));
                        r
                    }
                };
                running.fetch_sub(1, Ordering::SeqCst);
                // hand freed builder memory back to the system so that the RSS reading below the
                // throttle reflects live data (glibc keeps freed arenas otherwise)
                if rss_gib() > 0.25 * rss_cap_gib() {
                    trim_heap();
                }
                results_ptr.lock().unwrap()[i] = Some(r);
            });
        }
    });
    let mut out = Report::default();
    out.exhaustive = true;
    let mut done = 0u64;
    for r in results.into_iter().flatten() {
        done += 1;
        out.merge(r);
    }
    if capped.load(Ordering::SeqCst) || (done as usize) < n {
        out.cap(format!(
            "wall-clock cap: {} of {} configurations completed",
            done, n
        ));
    }
    out
}

extern "C" {
    fn malloc_trim(pad: usize) -> i32;
}

/// return freed heap pages to the operating system (glibc)
pub fn trim_heap() {
    unsafe {
        malloc_trim(0);
    }
}

pub fn panic_msg(e: &Box<dyn std::any::Any + Send>) -> String {
    if let Some(s) = e.downcast_ref::<&str>() {
        s.to_string()
    } else if let Some(s) = e.downcast_ref::<String>() {
        s.clone()
    } else {
        "panic (non-string payload)".to_string()
    }
}

/// run a closure that touches rsdd, turning a panic into an `Err(message)`
pub fn guarded<T>(f: impl FnOnce() -> T) -> Result<T, String> {
    std::panic::catch_unwind(std::panic::AssertUnwindSafe(f)).map_err(|e| panic_msg(&e))
}

/// a tiny deterministic digest (FNV-1a) used for the determinism self-test
pub fn fnv(data: &[u8]) -> u64 {
    let mut h: u64 = 0xcbf29ce484222325;
    for b in data {
        h ^= *b as u64;
        h = h.wrapping_mul(0x100000001b3);
    }
    h
}

/// all permutations of 0..n in lexicographic order
pub fn permutations(n: usize) -> Vec<Vec<usize>> {
    fn rec(cur: &mut Vec<usize>, used: &mut Vec<bool>, n: usize, out: &mut Vec<Vec<usize>>) {
        if cur.len() == n {
            out.push(cur.clone());
            return;
        }
        for i in 0..n {
            if !used[i] {
                used[i] = true;
                cur.push(i);
                rec(cur, used, n, out);
                cur.pop();
                used[i] = false;
            }
        }
    }
    let mut out = Vec::new();
    rec(&mut Vec::new(), &mut vec![false; n], n, &mut out);
    out
}

/// table of materialised operands indexed by truth table: dense for small function spaces,
/// sparse (hash map) when only a pool of a large space is materialised
pub enum FStore<P: Copy> {
    Dense(Vec<P>),
    Sparse(std::collections::HashMap<usize, P>, P),
}

impl<P: Copy> FStore<P> {
    pub fn new(total: usize, default: P, sparse: bool) -> FStore<P> {
        if sparse {
            FStore::Sparse(std::collections::HashMap::new(), default)
        } else {
            FStore::Dense(vec![default; total])
        }
    }
    pub fn empty(default: P) -> FStore<P> {
        FStore::Sparse(std::collections::HashMap::new(), default)
    }
}

impl<P: Copy> std::ops::Index<usize> for FStore<P> {
    type Output = P;
    fn index(&self, i: usize) -> &P {
        match self {
            FStore::Dense(v) => &v[i],
            FStore::Sparse(m, d) => m.get(&i).unwrap_or(d),
        }
    }
}

impl<P: Copy> std::ops::IndexMut<usize> for FStore<P> {
    fn index_mut(&mut self, i: usize) -> &mut P {
        match self {
            FStore::Dense(v) => &mut v[i],
            FStore::Sparse(m, d) => {
                let dd = *d;
                m.entry(i).or_insert(dd)
            }
        }
    }
}
