use rsdd_mc::core::*;
use rsdd_mc::props;
use serde_json::{json, Value};
use std::path::PathBuf;
use std::time::{Duration, Instant};

fn root() -> PathBuf {
    match std::env::var("VERIF_ROOT") {
        Ok(p) => PathBuf::from(p),
        Err(_) => std::env::current_dir().unwrap(),
    }
}

struct Known {
    known: Vec<(String, String, String)>, // (property, key, text)
}

fn load_known() -> Known {
    let mut k = Known { known: vec![] };
    if let Ok(s) = std::fs::read_to_string(root().join("KNOWN_FINDINGS.txt")) {
        for line in s.lines() {
            let line = line.trim();
            if let Some(rest) = line.strip_prefix("known:") {
                let mut prop = String::new();
                let mut key = String::new();
                for tok in rest.split_whitespace() {
                    if let Some(p) = tok.strip_prefix("property=") {
                        prop = p.to_string();
                    } else if let Some(p) = tok.strip_prefix("key=") {
                        key = p.to_string();
                    }
                }
                k.known.push((prop, key, rest.trim().to_string()));
            }
        }
    }
    k
}

/// `mc __worker <kind> <input.json>`: run one batch of configurations in this (single-threaded)
/// process and print the merged report as JSON; the parent merges it. Used for regimes whose
/// builders leak memory in rsdd (SDD decision nodes own heap vectors that the bump arena never
/// drops), so that the memory goes back to the system when the batch ends.
fn worker(args: &[String]) {
    std::panic::set_hook(Box::new(|_| {}));
    let tier = match std::env::var("VERIF_TIER").ok().as_deref() {
        Some("thorough") => Tier::Thorough,
        _ => Tier::Quick,
    };
    let seed: u64 = std::env::var("VERIF_SEED").ok().and_then(|s| s.parse::<i64>().ok()).map(|v| v as u64).unwrap_or(0);
    let wall_cap = std::env::var("VERIF_WALL_CAP_S").ok().and_then(|s| s.parse::<u64>().ok()).unwrap_or(3600);
    let ctx = Ctx { tier, seed, threads: 1, start: Instant::now(), wall_cap: Duration::from_secs(wall_cap) };
    let kind = args.get(1).cloned().unwrap_or_default();
    let input: Value = match args.get(2).and_then(|p| std::fs::read_to_string(p).ok()).and_then(|t| serde_json::from_str(&t).ok()) {
        Some(v) => v,
        None => {
            eprintln!("worker: cannot read input");
            std::process::exit(2);
        }
    };
    let rep = match kind.as_str() {
        "sdd" => guarded(|| props::sddsweep::worker_batch(&ctx, &input)),
        "sddmid" => guarded(|| props::sddmid::worker(&ctx, &input)),
        _ => Err(format!("unknown worker kind {}", kind)),
    };
    match rep {
        Ok(r) => println!("{}", r.to_json()),
        Err(m) => {
            eprintln!("worker engine panicked: {}", m);
            std::process::exit(2);
        }
    }
}

fn main() {
    let args: Vec<String> = std::env::args().skip(1).collect();
    if args.is_empty() {
        eprintln!("usage: mc <Cxx> [quick|thorough] [--replay <file>]");
        std::process::exit(2);
    }
    if args[0] == "__worker" {
        worker(&args);
        return;
    }
    let id = args[0].clone();
    let mut tier = match std::env::var("VERIF_TIER").ok().as_deref() {
        Some("thorough") => Tier::Thorough,
        _ => Tier::Quick,
    };
    let mut replay: Option<String> = None;
    let mut i = 1;
    while i < args.len() {
        match args[i].as_str() {
            "quick" => tier = Tier::Quick,
            "thorough" => tier = Tier::Thorough,
            "--replay" => {
                i += 1;
                replay = args.get(i).cloned();
            }
            other => {
                eprintln!("unknown argument {}", other);
                std::process::exit(2);
            }
        }
        i += 1;
    }
    let seed: u64 = std::env::var("VERIF_SEED")
        .ok()
        .and_then(|s| s.parse::<i64>().ok())
        .map(|v| v as u64)
        .unwrap_or(0);
    let threads: usize = std::env::var("VERIF_THREADS")
        .ok()
        .and_then(|s| s.parse().ok())
        .unwrap_or_else(|| std::thread::available_parallelism().map(|n| n.get()).unwrap_or(8));
    let wall_cap = std::env::var("VERIF_WALL_CAP_S")
        .ok()
        .and_then(|s| s.parse::<u64>().ok())
        .unwrap_or(match tier {
            Tier::Quick => 240,
            Tier::Thorough => 3600,
        });
    let ctx = Ctx {
        tier,
        seed,
        threads,
        start: Instant::now(),
        wall_cap: Duration::from_secs(wall_cap),
    };
    let reg = props::registry();
    let prop = match reg.iter().find(|p| p.id == id) {
        Some(p) => p,
        None => {
            eprintln!("no check for property {}", id);
            std::process::exit(2);
        }
    };
    // silence the default panic printer: panics inside rsdd are caught and become verdicts
    std::panic::set_hook(Box::new(|_| {}));

    if let Some(path) = replay {
        let text = std::fs::read_to_string(&path).unwrap_or_else(|e| {
            eprintln!("cannot read replay {}: {}", path, e);
            std::process::exit(2)
        });
        let v: Value = serde_json::from_str(&text).unwrap_or_else(|e| {
            eprintln!("bad replay file: {}", e);
            std::process::exit(2)
        });
        let case = v.get("case").cloned().unwrap_or(v.clone());
        let rep = match guarded(|| (prop.replay)(&ctx, &case)) {
            Ok(r) => r,
            Err(m) => {
                eprintln!("MACHINERY: replay engine panicked: {}", m);
                std::process::exit(2);
            }
        };
        if rep.n_violations > 0 {
            for v in rep.violations.iter() {
                println!("REPLAY reproduced: {} :: {}", v.key, v.what);
            }
            println!("VIOLATION property={} replay={}", id, path);
            std::process::exit(1);
        }
        println!("REPLAY property={} case does not violate the property on this tree", id);
        std::process::exit(0);
    }

    // watchdog: the wall-clock cap is polled between configurations, so a configuration that never returns
    // (an operation of the library that loops, or a reader of the harness that is too slow on what the library
    // produced) would hold the check for ever. Four times the cap after the start the run is given up as a
    // machinery failure (exit 2: no verdict, never a violation).
    {
        let limit = Duration::from_secs(wall_cap.saturating_mul(4).max(120));
        let id2 = id.clone();
        std::thread::spawn(move || {
            std::thread::sleep(limit);
            eprintln!("MACHINERY: watchdog: {} still running after four times its wall-clock cap ({} s); giving up without a verdict", id2, limit.as_secs());
            std::process::exit(2);
        });
    }
    let res = guarded(|| (prop.run)(&ctx));
    let wall = ctx.start.elapsed().as_secs_f64();
    let rep = match res {
        Ok(r) => r,
        Err(m) => {
            eprintln!("MACHINERY: engine panicked outside a guarded transition: {}", m);
            std::process::exit(2);
        }
    };
    if let Some(m) = rep.extra.get("engine_panic") {
        eprintln!("MACHINERY: worker panicked outside a guarded transition: {}", m);
        std::process::exit(2);
    }

    // classify violations
    let known = load_known();
    let mut unlisted: Vec<&Violation> = Vec::new();
    let mut listed: Vec<(&Violation, &String)> = Vec::new();
    for v in rep.violations.iter() {
        match known
            .known
            .iter()
            .find(|(p, k, _)| *p == id && !k.is_empty() && v.key == *k)
        {
            Some((_, _, text)) => listed.push((v, text)),
            None => unlisted.push(v),
        }
    }
    // simplest counterexample first: shortest replay description
    unlisted.sort_by_key(|v| v.replay.to_string().len());
    // replay artefacts
    let mut replay_paths: Vec<String> = Vec::new();
    if !unlisted.is_empty() {
        let dir = root().join("replays").join(&id);
        let _ = std::fs::create_dir_all(&dir);
        for (i, v) in unlisted.iter().enumerate() {
            let p = dir.join(format!("{}-{}-{}.json", tier.name(), seed, i));
            let body = json!({"property": id, "key": v.key, "what": v.what, "case": v.replay});
            let _ = std::fs::write(&p, serde_json::to_string_pretty(&body).unwrap());
            replay_paths.push(p.to_string_lossy().to_string());
        }
    }

    // evidence
    let mut coverage = serde_json::Map::new();
    coverage.insert("states".into(), json!(rep.states.max(1)));
    coverage.insert("transitions".into(), json!(rep.transitions.max(1)));
    coverage.insert("traces_validated_against_impl".into(), json!(rep.traces));
    coverage.insert("evaluations".into(), json!(rep.evaluations.max(1)));
    coverage.insert("distinct_nontrivial".into(), json!(rep.distinct_nontrivial));
    coverage.insert("rule".into(), json!(rep.rule));
    let mut samples = rep.samples.clone();
    if samples.is_empty() {
        samples.push(json!("(no sample recorded)"));
    }
    coverage.insert("samples".into(), json!(samples));
    coverage.insert("exhaustive".into(), json!(rep.exhaustive));
    coverage.insert("max_depth".into(), json!(rep.max_depth));
    coverage.insert("bounds".into(), Value::Object(rep.bounds.clone()));
    coverage.insert("caps_hit".into(), json!(rep.caps_hit));
    coverage.insert(
        "anti_vacuity_floors".into(),
        json!(rep
            .floors
            .iter()
            .map(|(n, m, f)| json!({"name": n, "measured": m, "floor": f}))
            .collect::<Vec<_>>()),
    );
    for (k, v) in rep.extra.iter() {
        coverage.insert(k.clone(), v.clone());
    }
    coverage.insert(
        "known_findings_matched".into(),
        json!(listed.iter().map(|(v, _)| v.key.clone()).collect::<Vec<_>>()),
    );
    coverage.insert(
        "violation_keys".into(),
        json!(unlisted.iter().map(|v| v.key.clone()).collect::<Vec<_>>()),
    );
    coverage.insert("threads".into(), json!(threads));
    let evidence = json!({
        "property_id": id,
        "tier": tier.name(),
        "seed": seed as i64,
        "level": "model_checking",
        "coverage": Value::Object(coverage),
        "assumptions": rep.assumptions,
        "wall_s": wall,
        "violations": rep.n_violations as i64,
    });
    // VERIF_EVIDENCE_DIR: used by the seed scripts so that runs against a deliberately broken tree never
    // overwrite the evidence of the registered checks
    let evdir = match std::env::var("VERIF_EVIDENCE_DIR") {
        Ok(p) if !p.is_empty() => PathBuf::from(p),
        _ => root().join("evidence"),
    };
    let _ = std::fs::create_dir_all(&evdir);
    let evpath = evdir.join(format!("{}.json", id));
    if let Err(e) = std::fs::write(&evpath, serde_json::to_string_pretty(&evidence).unwrap()) {
        eprintln!("MACHINERY: cannot write evidence: {}", e);
        std::process::exit(2);
    }

    println!(
        "{} {} seed={} states={} transitions={} traces={} evaluations={} distinct_nontrivial={} exhaustive={} max_depth={} violations={} wall={:.1}s",
        id, tier.name(), seed, rep.states, rep.transitions, rep.traces, rep.evaluations,
        rep.distinct_nontrivial, rep.exhaustive, rep.max_depth, rep.n_violations, wall
    );
    for c in rep.caps_hit.iter() {
        println!("CAP: {}", c);
    }
    for (v, text) in listed.iter() {
        println!("KNOWN-FINDING: {} [{}]", text, v.what);
    }
    if !unlisted.is_empty() {
        for (v, p) in unlisted.iter().zip(replay_paths.iter()) {
            println!("  violation {} :: {}", v.key, v.what);
            println!("VIOLATION property={} replay={}", id, p);
        }
        std::process::exit(1);
    }
    // a run whose kept violations are all listed but which counted more may hide unlisted ones
    if rep.n_violations as usize > rep.violations.len() && listed.len() < rep.violations.len() {
        std::process::exit(1);
    }
    // anti-vacuity floors: machinery failure, not a verdict
    let mut vac = false;
    for (n, m, f) in rep.floors.iter() {
        if m < f {
            eprintln!("MACHINERY: anti-vacuity floor not met: {} measured {} < floor {}", n, m, f);
            vac = true;
        }
    }
    if vac {
        // a run that was cut short by a wall-clock / memory cap (already reported as CAP lines and
        // exhaustive = false) may not have reached the phase that feeds a floor: that is the cap's
        // doing, not a vacuous harness, and is not turned into a failure of the check
        if !rep.caps_hit.is_empty() {
            eprintln!("NOTE: floors above not met in a capped run (see CAP lines); not treated as a machinery failure");
            std::process::exit(0);
        }
        std::process::exit(2);
    }
    std::process::exit(0);
}
