//! Enumerators of the finite input spaces (clauses, CNFs, vtrees, expressions, weights).

use rsdd::repr::{Cnf, Literal, VTree, VarLabel};
use serde_json::{json, Value};

pub type Lit = (usize, bool);
pub type Clause = Vec<Lit>;

/// all 4^n clause types over n variables: per variable absent / positive / negative / both
/// (both = tautological clause, positive literal first). Index 0 is the empty clause.
pub fn clause_types(n: usize) -> Vec<Clause> {
    let mut out = Vec::new();
    for code in 0..(4usize.pow(n as u32)) {
        let mut c = Vec::new();
        let mut k = code;
        for v in 0..n {
            match k % 4 {
                0 => (),
                1 => c.push((v, true)),
                2 => c.push((v, false)),
                _ => {
                    c.push((v, true));
                    c.push((v, false));
                }
            }
            k /= 4;
        }
        out.push(c);
    }
    out
}

/// all multisets of size <= maxk over `m` items, as sorted index lists (sizes ascending)
pub fn multisets(m: usize, maxk: usize) -> Vec<Vec<usize>> {
    let mut out = vec![vec![]];
    let mut level: Vec<Vec<usize>> = vec![vec![]];
    for _ in 0..maxk {
        let mut next = Vec::new();
        for ms in level.iter() {
            let start = ms.last().cloned().unwrap_or(0);
            for i in start..m {
                let mut x = ms.clone();
                x.push(i);
                next.push(x);
            }
        }
        out.extend(next.iter().cloned());
        level = next;
    }
    out
}

/// all sequences of length <= maxk over `m` items (lengths ascending)
pub fn sequences(m: usize, maxk: usize) -> Vec<Vec<usize>> {
    let mut out = vec![vec![]];
    let mut level: Vec<Vec<usize>> = vec![vec![]];
    for _ in 0..maxk {
        let mut next = Vec::new();
        for s in level.iter() {
            for i in 0..m {
                let mut x = s.clone();
                x.push(i);
                next.push(x);
            }
        }
        out.extend(next.iter().cloned());
        level = next;
    }
    out
}

pub fn to_lit(l: Lit) -> Literal {
    Literal::new(VarLabel::new(l.0 as u64), l.1)
}

pub fn to_cnf(clauses: &[Clause]) -> Cnf {
    let v: Vec<Vec<Literal>> = clauses
        .iter()
        .map(|c| c.iter().map(|&l| to_lit(l)).collect())
        .collect();
    Cnf::new(&v)
}

pub fn cnf_json(clauses: &[Clause]) -> Value {
    json!(clauses
        .iter()
        .map(|c| c
            .iter()
            .map(|&(v, p)| if p { v as i64 + 1 } else { -(v as i64 + 1) })
            .collect::<Vec<i64>>())
        .collect::<Vec<_>>())
}

pub fn cnf_from_json(v: &Value) -> Vec<Clause> {
    v.as_array()
        .map(|cs| {
            cs.iter()
                .map(|c| {
                    c.as_array()
                        .map(|ls| {
                            ls.iter()
                                .filter_map(|l| l.as_i64())
                                .map(|l| ((l.unsigned_abs() - 1) as usize, l > 0))
                                .collect()
                        })
                        .unwrap_or_default()
                })
                .collect()
        })
        .unwrap_or_default()
}

/// number of variables a clause list mentions (max index + 1)
pub fn num_vars(clauses: &[Clause]) -> usize {
    clauses
        .iter()
        .flat_map(|c| c.iter().map(|l| l.0 + 1))
        .max()
        .unwrap_or(0)
}

// ---------------------------------------------------------------------------------------------
// vtrees

/// shape + labelling of a vtree, independent of rsdd's type
#[derive(Clone, Debug, PartialEq, Eq, Hash)]
pub enum VT {
    Leaf(usize),
    Node(Box<VT>, Box<VT>),
}

impl VT {
    pub fn leaves(&self) -> Vec<usize> {
        match self {
            VT::Leaf(v) => vec![*v],
            VT::Node(l, r) => {
                let mut a = l.leaves();
                a.extend(r.leaves());
                a
            }
        }
    }
    pub fn leaf_mask(&self) -> u32 {
        self.leaves().iter().fold(0, |m, v| m | (1 << v))
    }
    pub fn to_rsdd(&self) -> VTree {
        match self {
            VT::Leaf(v) => VTree::new_leaf(VarLabel::new(*v as u64)),
            VT::Node(l, r) => VTree::new_node(Box::new(l.to_rsdd()), Box::new(r.to_rsdd())),
        }
    }
    pub fn from_rsdd(t: &VTree) -> VT {
        if t.is_leaf() {
            VT::Leaf(t.extract_leaf().value_usize())
        } else {
            VT::Node(Box::new(VT::from_rsdd(t.left())), Box::new(VT::from_rsdd(t.right())))
        }
    }
    pub fn show(&self) -> String {
        match self {
            VT::Leaf(v) => format!("{}", v),
            VT::Node(l, r) => format!("({} {})", l.show(), r.show()),
        }
    }
    pub fn parse(s: &str) -> Option<VT> {
        fn p(b: &[u8], i: &mut usize) -> Option<VT> {
            while *i < b.len() && b[*i] == b' ' {
                *i += 1;
            }
            if *i >= b.len() {
                return None;
            }
            if b[*i] == b'(' {
                *i += 1;
                let l = p(b, i)?;
                let r = p(b, i)?;
                while *i < b.len() && b[*i] == b' ' {
                    *i += 1;
                }
                if *i < b.len() && b[*i] == b')' {
                    *i += 1;
                }
                Some(VT::Node(Box::new(l), Box::new(r)))
            } else {
                let st = *i;
                while *i < b.len() && b[*i].is_ascii_digit() {
                    *i += 1;
                }
                std::str::from_utf8(&b[st..*i]).ok()?.parse().ok().map(VT::Leaf)
            }
        }
        p(s.as_bytes(), &mut 0)
    }
    /// number of nodes (internal + leaves)
    pub fn size(&self) -> usize {
        match self {
            VT::Leaf(_) => 1,
            VT::Node(l, r) => 1 + l.size() + r.size(),
        }
    }
}

/// all vtrees whose leaves (in left-to-right order) are exactly `order`
pub fn vtrees_over(order: &[usize]) -> Vec<VT> {
    if order.len() == 1 {
        return vec![VT::Leaf(order[0])];
    }
    let mut out = Vec::new();
    for split in 1..order.len() {
        let ls = vtrees_over(&order[..split]);
        let rs = vtrees_over(&order[split..]);
        for l in ls.iter() {
            for r in rs.iter() {
                out.push(VT::Node(Box::new(l.clone()), Box::new(r.clone())));
            }
        }
    }
    out
}

/// all vtrees with leaves labelled 0..n (every shape x every labelling): 1, 2, 12, 120, 1680
pub fn all_vtrees(n: usize) -> Vec<VT> {
    let mut out = Vec::new();
    for p in crate::core::permutations(n) {
        out.extend(vtrees_over(&p));
    }
    out
}

// ---------------------------------------------------------------------------------------------
// logical expressions (no constants), independent of rsdd's types

#[derive(Clone, Debug, PartialEq, Eq, Hash)]
pub enum Ex {
    Var(usize),
    Not(Box<Ex>),
    And(Box<Ex>, Box<Ex>),
    Or(Box<Ex>, Box<Ex>),
    Iff(Box<Ex>, Box<Ex>),
    Xor(Box<Ex>, Box<Ex>),
    Ite(Box<Ex>, Box<Ex>, Box<Ex>),
}

pub const NAMES: [&str; 6] = ["A", "B", "C", "D", "E", "F"];

impl Ex {
    /// variables occurring (as a bit mask over the name alphabet)
    pub fn var_mask(&self) -> u32 {
        match self {
            Ex::Var(v) => 1 << v,
            Ex::Not(a) => a.var_mask(),
            Ex::And(a, b) | Ex::Or(a, b) | Ex::Iff(a, b) | Ex::Xor(a, b) => a.var_mask() | b.var_mask(),
            Ex::Ite(a, b, c) => a.var_mask() | b.var_mask() | c.var_mask(),
        }
    }
    /// occurring name indices in lexicographic order = the documented variable numbering
    pub fn vars(&self) -> Vec<usize> {
        let m = self.var_mask();
        (0..32).filter(|v| (m >> v) & 1 == 1).collect()
    }
    /// truth table over the occurring variables, numbered lexicographically by name
    pub fn tt(&self) -> (crate::tt::TT, usize) {
        let vars = self.vars();
        let n = vars.len();
        let mut idx = vec![usize::MAX; 32];
        for (i, v) in vars.iter().enumerate() {
            idx[*v] = i;
        }
        (self.tt_with(&idx, n), n)
    }
    pub fn tt_with(&self, idx: &[usize], n: usize) -> crate::tt::TT {
        use crate::tt;
        match self {
            Ex::Var(v) => tt::var(idx[*v], n),
            Ex::Not(a) => tt::not(a.tt_with(idx, n), n),
            Ex::And(a, b) => a.tt_with(idx, n) & b.tt_with(idx, n),
            Ex::Or(a, b) => a.tt_with(idx, n) | b.tt_with(idx, n),
            Ex::Iff(a, b) => tt::iff(a.tt_with(idx, n), b.tt_with(idx, n), n),
            Ex::Xor(a, b) => a.tt_with(idx, n) ^ b.tt_with(idx, n),
            Ex::Ite(a, b, c) => tt::ite(a.tt_with(idx, n), b.tt_with(idx, n), c.tt_with(idx, n), n),
        }
    }
    /// s-expression text as accepted by serde_sexpr for LogicalSExpr
    pub fn sexpr(&self) -> String {
        match self {
            Ex::Var(v) => format!("(Var {})", NAMES[*v]),
            Ex::Not(a) => format!("(Not {})", a.sexpr()),
            Ex::And(a, b) => format!("(And {} {})", a.sexpr(), b.sexpr()),
            Ex::Or(a, b) => format!("(Or {} {})", a.sexpr(), b.sexpr()),
            Ex::Iff(a, b) => format!("(Iff {} {})", a.sexpr(), b.sexpr()),
            Ex::Xor(a, b) => format!("(Xor {} {})", a.sexpr(), b.sexpr()),
            Ex::Ite(a, b, c) => format!("(Ite {} {} {})", a.sexpr(), b.sexpr(), c.sexpr()),
        }
    }
    /// the s-expression text with variable v written as `names[v]`
    pub fn sexpr_named(&self, names: &[&str]) -> String {
        match self {
            Ex::Var(v) => format!("(Var {})", names[*v]),
            Ex::Not(a) => format!("(Not {})", a.sexpr_named(names)),
            Ex::And(a, b) => format!("(And {} {})", a.sexpr_named(names), b.sexpr_named(names)),
            Ex::Or(a, b) => format!("(Or {} {})", a.sexpr_named(names), b.sexpr_named(names)),
            Ex::Iff(a, b) => format!("(Iff {} {})", a.sexpr_named(names), b.sexpr_named(names)),
            Ex::Xor(a, b) => format!("(Xor {} {})", a.sexpr_named(names), b.sexpr_named(names)),
            Ex::Ite(a, b, c) => format!("(Ite {} {} {})", a.sexpr_named(names), b.sexpr_named(names), c.sexpr_named(names)),
        }
    }
    /// rsdd's LogicalExpr with the given variable indices (built node by node, incl. `Not`)
    pub fn to_logical(&self, idx: &[usize]) -> rsdd::repr::LogicalExpr {
        use rsdd::repr::LogicalExpr as L;
        match self {
            Ex::Var(v) => L::Literal(idx[*v], true),
            Ex::Not(a) => match a.as_ref() {
                Ex::Var(v) => L::Literal(idx[*v], false),
                _ => L::Not(Box::new(a.to_logical(idx))),
            },
            Ex::And(a, b) => L::And(Box::new(a.to_logical(idx)), Box::new(b.to_logical(idx))),
            Ex::Or(a, b) => L::Or(Box::new(a.to_logical(idx)), Box::new(b.to_logical(idx))),
            Ex::Iff(a, b) => L::Iff(Box::new(a.to_logical(idx)), Box::new(b.to_logical(idx))),
            Ex::Xor(a, b) => L::Xor(Box::new(a.to_logical(idx)), Box::new(b.to_logical(idx))),
            Ex::Ite(a, b, c) => L::Ite {
                guard: Box::new(a.to_logical(idx)),
                thn: Box::new(b.to_logical(idx)),
                els: Box::new(c.to_logical(idx)),
            },
        }
    }
    /// the same tree without folding `Not(Var)` into a negative literal: every `Not` of the text
    /// stays a `Not` node (stacked negations of a variable included)
    pub fn to_logical_plain(&self, idx: &[usize]) -> rsdd::repr::LogicalExpr {
        use rsdd::repr::LogicalExpr as L;
        match self {
            Ex::Var(v) => L::Literal(idx[*v], true),
            Ex::Not(a) => L::Not(Box::new(a.to_logical_plain(idx))),
            Ex::And(a, b) => L::And(Box::new(a.to_logical_plain(idx)), Box::new(b.to_logical_plain(idx))),
            Ex::Or(a, b) => L::Or(Box::new(a.to_logical_plain(idx)), Box::new(b.to_logical_plain(idx))),
            Ex::Iff(a, b) => L::Iff(Box::new(a.to_logical_plain(idx)), Box::new(b.to_logical_plain(idx))),
            Ex::Xor(a, b) => L::Xor(Box::new(a.to_logical_plain(idx)), Box::new(b.to_logical_plain(idx))),
            Ex::Ite(a, b, c) => L::Ite {
                guard: Box::new(a.to_logical_plain(idx)),
                thn: Box::new(b.to_logical_plain(idx)),
                els: Box::new(c.to_logical_plain(idx)),
            },
        }
    }
    pub fn has_negated_var(&self) -> bool {
        match self {
            Ex::Var(_) => false,
            Ex::Not(a) => matches!(a.as_ref(), Ex::Var(_)) || a.has_negated_var(),
            Ex::And(a, b) | Ex::Or(a, b) | Ex::Iff(a, b) | Ex::Xor(a, b) => a.has_negated_var() || b.has_negated_var(),
            Ex::Ite(a, b, c) => a.has_negated_var() || b.has_negated_var() || c.has_negated_var(),
        }
    }
    pub fn parse(s: &str) -> Option<Ex> {
        fn toks(s: &str) -> Vec<String> {
            s.replace('(', " ( ").replace(')', " ) ").split_whitespace().map(|x| x.to_string()).collect()
        }
        fn p(t: &[String], i: &mut usize) -> Option<Ex> {
            if t.get(*i)? != "(" {
                return None;
            }
            *i += 1;
            let head = t.get(*i)?.clone();
            *i += 1;
            let r = match head.as_str() {
                "Var" => {
                    let name = t.get(*i)?;
                    *i += 1;
                    Ex::Var(NAMES.iter().position(|n| n == name)?)
                }
                "Not" => Ex::Not(Box::new(p(t, i)?)),
                "Ite" => {
                    let a = p(t, i)?;
                    let b = p(t, i)?;
                    let c = p(t, i)?;
                    Ex::Ite(Box::new(a), Box::new(b), Box::new(c))
                }
                h => {
                    let a = p(t, i)?;
                    let b = p(t, i)?;
                    match h {
                        "And" => Ex::And(Box::new(a), Box::new(b)),
                        "Or" => Ex::Or(Box::new(a), Box::new(b)),
                        "Iff" => Ex::Iff(Box::new(a), Box::new(b)),
                        "Xor" => Ex::Xor(Box::new(a), Box::new(b)),
                        _ => return None,
                    }
                }
            };
            if t.get(*i)? != ")" {
                return None;
            }
            *i += 1;
            Some(r)
        }
        p(&toks(s), &mut 0)
    }
}

/// all expression trees with exactly `size` connectives over `nvars` names
pub fn exprs_of_size(size: usize, nvars: usize, memo: &mut Vec<Vec<Ex>>) -> Vec<Ex> {
    if let Some(v) = memo.get(size) {
        if !v.is_empty() {
            return v.clone();
        }
    }
    let out: Vec<Ex> = if size == 0 {
        (0..nvars).map(Ex::Var).collect()
    } else {
        let mut out = Vec::new();
        for a in exprs_of_size(size - 1, nvars, memo) {
            out.push(Ex::Not(Box::new(a)));
        }
        for sa in 0..size {
            let sb = size - 1 - sa;
            let la = exprs_of_size(sa, nvars, memo);
            let lb = exprs_of_size(sb, nvars, memo);
            for a in la.iter() {
                for b in lb.iter() {
                    out.push(Ex::And(Box::new(a.clone()), Box::new(b.clone())));
                    out.push(Ex::Or(Box::new(a.clone()), Box::new(b.clone())));
                    out.push(Ex::Iff(Box::new(a.clone()), Box::new(b.clone())));
                    out.push(Ex::Xor(Box::new(a.clone()), Box::new(b.clone())));
                }
            }
        }
        for sa in 0..size {
            for sb in 0..(size - sa) {
                let sc = size - 1 - sa - sb;
                let la = exprs_of_size(sa, nvars, memo);
                let lb = exprs_of_size(sb, nvars, memo);
                let lc = exprs_of_size(sc, nvars, memo);
                for a in la.iter() {
                    for b in lb.iter() {
                        for c in lc.iter() {
                            out.push(Ex::Ite(Box::new(a.clone()), Box::new(b.clone()), Box::new(c.clone())));
                        }
                    }
                }
            }
        }
        out
    };
    while memo.len() <= size {
        memo.push(Vec::new());
    }
    memo[size] = out.clone();
    out
}

/// all expressions with at most `max` connectives, smallest first
pub fn exprs_up_to(max: usize, nvars: usize) -> Vec<Ex> {
    let mut memo = Vec::new();
    let mut out = Vec::new();
    for s in 0..=max {
        out.extend(exprs_of_size(s, nvars, &mut memo));
    }
    out
}

/// in-order numbering of a vtree with per-node variable masks (left side / right side)
pub struct VtShape {
    pub nodes: Vec<VT>,
    pub left_mask: Vec<u32>,
    pub right_mask: Vec<u32>,
    pub is_leaf: Vec<bool>,
    /// label of the left child if that child is a leaf
    pub left_leaf: Vec<Option<usize>>,
}

impl VtShape {
    pub fn new(t: &VT) -> VtShape {
        fn rec(t: &VT, s: &mut VtShape) {
            match t {
                VT::Leaf(_) => {
                    s.nodes.push(t.clone());
                    s.left_mask.push(0);
                    s.right_mask.push(0);
                    s.is_leaf.push(true);
                    s.left_leaf.push(None);
                }
                VT::Node(l, r) => {
                    rec(l, s);
                    s.nodes.push(t.clone());
                    s.left_mask.push(l.leaf_mask());
                    s.right_mask.push(r.leaf_mask());
                    s.is_leaf.push(false);
                    s.left_leaf.push(match l.as_ref() {
                        VT::Leaf(v) => Some(*v),
                        _ => None,
                    });
                    rec(r, s);
                }
            }
        }
        let mut s = VtShape { nodes: vec![], left_mask: vec![], right_mask: vec![], is_leaf: vec![], left_leaf: vec![] };
        rec(t, &mut s);
        s
    }
}

/// long inputs over 3 variables: one clause with k = 1..maxk literals and lists of k unit
/// clauses, where the elements at positions i (and j >= i) are the only ones on x1 (negated x2)
/// and all others repeat x0: losing or duplicating any single element changes the models
pub fn long_lists(maxk: usize) -> Vec<Vec<Clause>> {
    let mut lists: Vec<Vec<Clause>> = Vec::new();
    for k in 1..=maxk {
        for i in 0..k {
            for j in i..k {
                let lit = |p: usize| -> Lit {
                    if p == i {
                        (1, true)
                    } else if p == j {
                        (2, false)
                    } else {
                        (0, true)
                    }
                };
                lists.push(vec![(0..k).map(lit).collect()]);
                lists.push((0..k).map(|p| vec![lit(p)]).collect());
            }
        }
    }
    lists
}

/// lists of exactly k unit clauses (k in `ks`) over 3 variables in which the clause at position
/// i is the only one on x1 and the last clause the only one on (negated) x2, all others x0:
/// losing any block of clauses that contains position i or the last one changes the models
pub fn long_unit_lists(ks: &[usize]) -> Vec<Vec<Clause>> {
    let mut out = Vec::new();
    for &k in ks {
        for i in 0..k.saturating_sub(1) {
            out.push((0..k).map(|p| if p == i { vec![(1usize, true)] } else if p == k - 1 { vec![(2usize, false)] } else { vec![(0usize, true)] }).collect());
        }
    }
    out
}
