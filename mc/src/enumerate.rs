//! Enumerators of the finite input spaces (clauses, CNFs, vtrees, expressions, weights).

use rsdd::repr::{Cnf, Literal, VTree, VarLabel};
use serde_json::{json, Value};

pub type Lit = (usize, bool);
pub type Clause = Vec<Lit>;

/// all 4^n clause types over n variables: per variable absent / positive / negative / both
/// (both = tautological clause, positive literal first). Index 0 is the empty clause.
pub fn clause_types(n: usize) -> Vec<Clause> {
    let mut out = Vec::new();
    for code in 0..(4usize.pow(n as u32)) {
        let mut c = Vec::new();
        let mut k = code;
        for v in 0..n {
            match k % 4 {
                0 => (),
                1 => c.push((v, true)),
                2 => c.push((v, false)),
                _ => {
                    c.push((v, true));
                    c.push((v, false));
                }
            }
            k /= 4;
        }
        out.push(c);
    }
    out
}

/// all multisets of size <= maxk over `m` items, as sorted index lists (sizes ascending)
pub fn multisets(m: usize, maxk: usize) -> Vec<Vec<usize>> {
    let mut out = vec![vec![]];
    let mut level: Vec<Vec<usize>> = vec![vec![]];
    for _ in 0..maxk {
        let mut next = Vec::new();
        for ms in level.iter() {
            let start = ms.last().cloned().unwrap_or(0);
            for i in start..m {
                let mut x = ms.clone();
                x.push(i);
                next.push(x);
            }
        }
        out.extend(next.iter().cloned());
        level = next;
    }
    out
}

/// all sequences of length <= maxk over `m` items (lengths ascending)
pub fn sequences(m: usize, maxk: usize) -> Vec<Vec<usize>> {
    let mut out = vec![vec![]];
    let mut level: Vec<Vec<usize>> = vec![vec![]];
    for _ in 0..maxk {
        let mut next = Vec::new();
        for s in level.iter() {
            for i in 0..m {
                let mut x = s.clone();
                x.push(i);
                next.push(x);
            }
        }
        out.extend(next.iter().cloned());
        level = next;
    }
    out
}

pub fn to_lit(l: Lit) -> Literal {
    Literal::new(VarLabel::new(l.0 as u64), l.1)
}

pub fn to_cnf(clauses: &[Clause]) -> Cnf {
    let v: Vec<Vec<Literal>> = clauses
        .iter()
        .map(|c| c.iter().map(|&l| to_lit(l)).collect())
        .collect();
    Cnf::new(&v)
}

pub fn cnf_json(clauses: &[Clause]) -> Value {
    json!(clauses
        .iter()
        .map(|c| c
            .iter()
            .map(|&(v, p)| if p { v as i64 + 1 } else { -(v as i64 + 1) })
            .collect::<Vec<i64>>())
        .collect::<Vec<_>>())
}

pub fn cnf_from_json(v: &Value) -> Vec<Clause> {
    v.as_array()
        .map(|cs| {
            cs.iter()
                .map(|c| {
                    c.as_array()
                        .map(|ls| {
                            ls.iter()
                                .filter_map(|l| l.as_i64())
                                .map(|l| ((l.unsigned_abs() - 1) as usize, l > 0))
                                .collect()
                        })
                        .unwrap_or_default()
                })
                .collect()
        })
        .unwrap_or_default()
}

/// number of variables a clause list mentions (max index + 1)
pub fn num_vars(clauses: &[Clause]) -> usize {
    clauses
        .iter()
        .flat_map(|c| c.iter().map(|l| l.0 + 1))
        .max()
        .unwrap_or(0)
}

// ---------------------------------------------------------------------------------------------
// vtrees

/// shape + labelling of a vtree, independent of rsdd's type
#[derive(Clone, Debug, PartialEq, Eq, Hash)]
pub enum VT {
    Leaf(usize),
    Node(Box<VT>, Box<VT>),
}

impl VT {
    pub fn leaves(&self) -> Vec<usize> {
        match self {
            VT::Leaf(v) => vec![*v],
            VT::Node(l, r) => {
                let mut a = l.leaves();
                a.extend(r.leaves());
                a
            }
        }
    }
    pub fn leaf_mask(&self) -> u32 {
        self.leaves().iter().fold(0, |m, v| m | (1 << v))
    }
    pub fn to_rsdd(&self) -> VTree {
        match self {
            VT::Leaf(v) => VTree::new_leaf(VarLabel::new(*v as u64)),
            VT::Node(l, r) => VTree::new_node(Box::new(l.to_rsdd()), Box::new(r.to_rsdd())),
        }
    }
    pub fn from_rsdd(t: &VTree) -> VT {
        if t.is_leaf() {
            VT::Leaf(t.extract_leaf().value_usize())
        } else {
            VT::Node(Box::new(VT::from_rsdd(t.left())), Box::new(VT::from_rsdd(t.right())))
        }
    }
    pub fn show(&self) -> String {
        match self {
            VT::Leaf(v) => format!("{}", v),
            VT::Node(l, r) => format!("({} {})", l.show(), r.show()),
        }
    }
    pub fn parse(s: &str) -> Option<VT> {
        fn p(b: &[u8], i: &mut usize) -> Option<VT> {
            while *i < b.len() && b[*i] == b' ' {
                *i += 1;
            }
            if *i >= b.len() {
                return None;
            }
            if b[*i] == b'(' {
                *i += 1;
                let l = p(b, i)?;
                let r = p(b, i)?;
                while *i < b.len() && b[*i] == b' ' {
                    *i += 1;
                }
                if *i < b.len() && b[*i] == b')' {
                    *i += 1;
                }
                Some(VT::Node(Box::new(l), Box::new(r)))
            } else {
                let st = *i;
                while *i < b.len() && b[*i].is_ascii_digit() {
                    *i += 1;
                }
                std::str::from_utf8(&b[st..*i]).ok()?.parse().ok().map(VT::Leaf)
            }
        }
        p(s.as_bytes(), &mut 0)
    }
    /// number of nodes (internal + leaves)
    pub fn size(&self) -> usize {
        match self {
            VT::Leaf(_) => 1,
            VT::Node(l, r) => 1 + l.size() + r.size(),
        }
    }
}

/// all vtrees whose leaves (in left-to-right order) are exactly `order`
pub fn vtrees_over(order: &[usize]) -> Vec<VT> {
    if order.len() == 1 {
        return vec![VT::Leaf(order[0])];
    }
    let mut out = Vec::new();
    for split in 1..order.len() {
        let ls = vtrees_over(&order[..split]);
        let rs = vtrees_over(&order[split..]);
        for l in ls.iter() {
            for r in rs.iter() {
                out.push(VT::Node(Box::new(l.clone()), Box::new(r.clone())));
            }
        }
    }
    out
}

/// all vtrees with leaves labelled 0..n (every shape x every labelling): 1, 2, 12, 120, 1680
pub fn all_vtrees(n: usize) -> Vec<VT> {
    let mut out = Vec::new();
    for p in crate::core::permutations(n) {
        out.extend(vtrees_over(&p));
    }
    out
}
