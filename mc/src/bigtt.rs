//! Truth tables over up to 12 variables (bit vectors of 2^n bits in 64-bit words) for the mid-scale
//! regimes: the same reference algebra as `tt.rs`, written independently of rsdd, for sizes at
//! which the all-functions sweeps are out of reach (6 to 12 variables, labels beyond machine-word
//! boundaries, diagrams with hundreds of nodes, caches past their first evictions and growths).

use std::collections::HashMap;

#[derive(Clone, PartialEq, Eq, Hash, Debug)]
pub struct Big {
    pub n: usize,
    pub w: Vec<u64>,
}

const PAT: [u64; 6] = [
    0xaaaa_aaaa_aaaa_aaaa,
    0xcccc_cccc_cccc_cccc,
    0xf0f0_f0f0_f0f0_f0f0,
    0xff00_ff00_ff00_ff00,
    0xffff_0000_ffff_0000,
    0xffff_ffff_0000_0000,
];

fn words(n: usize) -> usize {
    if n <= 6 { 1 } else { 1 << (n - 6) }
}

fn wmask(n: usize) -> u64 {
    if n >= 6 { !0 } else { (1u64 << (1 << n)) - 1 }
}

impl Big {
    pub fn konst(n: usize, b: bool) -> Big {
        Big { n, w: vec![if b { wmask(n) } else { 0 }; words(n)] }
    }
    pub fn var(n: usize, v: usize) -> Big {
        assert!(v < n);
        let mut w = vec![0u64; words(n)];
        for (i, x) in w.iter_mut().enumerate() {
            *x = if v < 6 { PAT[v] & wmask(n) } else if (i >> (v - 6)) & 1 == 1 { !0 } else { 0 };
        }
        Big { n, w }
    }
    pub fn lit(n: usize, v: usize, pol: bool) -> Big {
        let x = Big::var(n, v);
        if pol { x } else { x.not() }
    }
    pub fn not(&self) -> Big {
        let m = wmask(self.n);
        Big { n: self.n, w: self.w.iter().map(|x| !x & m).collect() }
    }
    fn zip(&self, o: &Big, f: impl Fn(u64, u64) -> u64) -> Big {
        assert_eq!(self.n, o.n);
        let m = wmask(self.n);
        Big { n: self.n, w: self.w.iter().zip(o.w.iter()).map(|(a, b)| f(*a, *b) & m).collect() }
    }
    pub fn and(&self, o: &Big) -> Big {
        self.zip(o, |a, b| a & b)
    }
    pub fn or(&self, o: &Big) -> Big {
        self.zip(o, |a, b| a | b)
    }
    pub fn xor(&self, o: &Big) -> Big {
        self.zip(o, |a, b| a ^ b)
    }
    pub fn iff(&self, o: &Big) -> Big {
        self.zip(o, |a, b| !(a ^ b))
    }
    pub fn ite(&self, g: &Big, h: &Big) -> Big {
        self.and(g).or(&self.not().and(h))
    }
    pub fn eval(&self, a: usize) -> bool {
        (self.w[a >> 6] >> (a & 63)) & 1 == 1
    }
    pub fn is_false(&self) -> bool {
        self.w.iter().all(|x| *x == 0)
    }
    pub fn is_true(&self) -> bool {
        let m = wmask(self.n);
        self.w.iter().all(|x| *x == m)
    }
    pub fn is_const(&self) -> bool {
        self.is_false() || self.is_true()
    }
    pub fn count(&self) -> u64 {
        self.w.iter().map(|x| x.count_ones() as u64).sum()
    }
    /// f with variable v fixed to b (still a function of n variables, independent of v)
    pub fn cofactor(&self, v: usize, b: bool) -> Big {
        assert!(v < self.n);
        let m = wmask(self.n);
        let mut out = Big::konst(self.n, false);
        if v < 6 {
            let sh = 1u32 << v;
            for (o, x) in out.w.iter_mut().zip(self.w.iter()) {
                *o = if b {
                    let hi = x & PAT[v];
                    (hi | (hi >> sh)) & m
                } else {
                    let lo = x & !PAT[v];
                    (lo | (lo << sh)) & m
                };
            }
        } else {
            let stride = 1usize << (v - 6);
            for i in 0..out.w.len() {
                out.w[i] = self.w[if b { i | stride } else { i & !stride }];
            }
        }
        out
    }
    /// bit v set = the function depends on variable v
    pub fn support_mask(&self) -> u32 {
        let mut s = 0;
        for v in 0..self.n {
            if self.depends_on(v) {
                s |= 1 << v;
            }
        }
        s
    }
    pub fn exists(&self, v: usize) -> Big {
        self.cofactor(v, true).or(&self.cofactor(v, false))
    }
    pub fn forall(&self, v: usize) -> Big {
        self.cofactor(v, true).and(&self.cofactor(v, false))
    }
    /// the documented meaning of compose(f, v, g): exists v. (v <=> g) and f
    pub fn compose_def(&self, v: usize, g: &Big) -> Big {
        Big::var(self.n, v).iff(g).and(self).exists(v)
    }
    pub fn depends_on(&self, v: usize) -> bool {
        self.cofactor(v, true) != self.cofactor(v, false)
    }
    /// the same function over m >= n variables
    pub fn extend(&self, m: usize) -> Big {
        assert!(m >= self.n);
        let mut out = Big::konst(m, false);
        let lowmask = (1usize << self.n) - 1;
        for a in 0..(1usize << m) {
            if self.eval(a & lowmask) {
                out.w[a >> 6] |= 1 << (a & 63);
            }
        }
        out
    }
    pub fn digest(&self) -> u64 {
        let mut h: u64 = 0xcbf29ce484222325 ^ self.n as u64;
        for x in &self.w {
            h = (h ^ x).wrapping_mul(0x100000001b3);
            h ^= h >> 29;
        }
        h
    }
    pub fn show(&self) -> String {
        let mut s = format!("tt{}:", self.n);
        for x in self.w.iter().rev() {
            s.push_str(&format!("{:x}.", x));
        }
        s
    }
}

/// the algebra the operand families are written against: instantiated by the reference (`BigAlg`)
/// and by each builder under test
pub trait Alg {
    type F: Clone;
    fn n(&self) -> usize;
    fn konst(&self, b: bool) -> Self::F;
    fn lit(&self, v: usize, pol: bool) -> Self::F;
    fn not(&self, f: &Self::F) -> Self::F;
    fn and(&self, f: &Self::F, g: &Self::F) -> Self::F;
    fn or(&self, f: &Self::F, g: &Self::F) -> Self::F;
    fn xor(&self, f: &Self::F, g: &Self::F) -> Self::F;
    fn ite(&self, f: &Self::F, g: &Self::F, h: &Self::F) -> Self::F;
}

pub struct BigAlg(pub usize);

impl Alg for BigAlg {
    type F = Big;
    fn n(&self) -> usize {
        self.0
    }
    fn konst(&self, b: bool) -> Big {
        Big::konst(self.0, b)
    }
    fn lit(&self, v: usize, pol: bool) -> Big {
        Big::lit(self.0, v, pol)
    }
    fn not(&self, f: &Big) -> Big {
        f.not()
    }
    fn and(&self, f: &Big, g: &Big) -> Big {
        f.and(g)
    }
    fn or(&self, f: &Big, g: &Big) -> Big {
        f.or(g)
    }
    fn xor(&self, f: &Big, g: &Big) -> Big {
        f.xor(g)
    }
    fn ite(&self, f: &Big, g: &Big, h: &Big) -> Big {
        f.ite(g, h)
    }
}

/// Rule-defined operand families over n >= 6 variables (names are stable and appear in replays).
/// `level` 0 = core (used for all-pairs), 1 = extended (used for unary operations and as ite operands).
pub fn families<A: Alg>(a: &A) -> Vec<(String, u8, A::F)> {
    let n = a.n();
    let mut out: Vec<(String, u8, A::F)> = Vec::new();
    out.push(("true".into(), 0, a.konst(true)));
    out.push(("false".into(), 0, a.konst(false)));
    for v in 0..n {
        out.push((format!("x{}", v), 0, a.lit(v, true)));
        out.push((format!("!x{}", v), 0, a.lit(v, false)));
    }
    // two-literal cubes and clauses over neighbouring, distant and wrap-around pairs
    let mut pairs: Vec<(usize, usize)> = Vec::new();
    for i in 0..n {
        pairs.push((i, (i + 1) % n));
    }
    for i in 0..n / 2 {
        pairs.push((i, i + n / 2));
    }
    for (k, &(i, j)) in pairs.iter().enumerate() {
        for pp in 0..4 {
            let (li, lj) = (a.lit(i, pp & 1 == 0), a.lit(j, pp & 2 == 0));
            let core = if (k + pp) % 3 == 0 { 0 } else { 1 };
            out.push((format!("cube({}{},{}{})", if pp & 1 == 0 { "" } else { "!" }, i, if pp & 2 == 0 { "" } else { "!" }, j), core, a.and(&li, &lj)));
            out.push((format!("clause({}{},{}{})", if pp & 1 == 0 { "" } else { "!" }, i, if pp & 2 == 0 { "" } else { "!" }, j), core, a.or(&li, &lj)));
        }
    }
    // prefix and suffix parities
    let mut p = a.lit(0, true);
    for k in 1..n {
        p = a.xor(&p, &a.lit(k, true));
        out.push((format!("parity(0..={})", k), if k >= n - 2 || k == 2 { 0 } else { 1 }, p.clone()));
    }
    let mut p = a.lit(n - 1, false);
    for k in (0..n - 1).rev() {
        p = a.xor(&p, &a.lit(k, true));
        out.push((format!("nparity({}..)", k), if k <= 1 { 0 } else { 1 }, p.clone()));
    }
    // long cubes and clauses with two polarity patterns
    for len in 4..=n {
        for pat in 0..2usize {
            let pol = |i: usize| if pat == 0 { i % 2 == 0 } else { i % 3 != 0 };
            let mut cube = a.konst(true);
            let mut clause = a.konst(false);
            for i in 0..len {
                let v = (i * 3 + pat) % n; // creation order differs from label order
                cube = a.and(&cube, &a.lit(v, pol(i)));
                clause = a.or(&a.lit(v, !pol(i)), &clause);
            }
            let core = if len == 5 || len == n { 0 } else { 1 };
            out.push((format!("longcube(len {}, pattern {})", len, pat), core, cube));
            out.push((format!("longclause(len {}, pattern {})", len, pat), core, clause));
        }
    }
    // thresholds: at least k of n, exactly k of n (dynamic programming through ite)
    {
        // t[j][k] over variables j.. : at least k
        let mut at_least: Vec<A::F> = (0..=n + 1).map(|k| a.konst(k == 0)).collect();
        let mut exactly: Vec<A::F> = (0..=n + 1).map(|k| a.konst(k == 0)).collect();
        for j in (0..n).rev() {
            let x = a.lit(j, true);
            let mut nl = at_least.clone();
            let mut ne = exactly.clone();
            for k in 1..=n {
                nl[k] = a.ite(&x, &at_least[k - 1], &at_least[k]);
                ne[k] = a.ite(&x, &exactly[k - 1], &exactly[k]);
            }
            ne[0] = a.and(&a.lit(j, false), &exactly[0]);
            at_least = nl;
            exactly = ne;
        }
        for k in 2..n {
            out.push((format!("atleast({} of {})", k, n), if k == n / 2 || k == 2 { 0 } else { 1 }, at_least[k].clone()));
        }
        for k in 0..=n {
            out.push((format!("exactly({} of {})", k, n), if k == 1 || k == n / 2 { 0 } else { 1 }, exactly[k].clone()));
        }
    }
    // comparator and adder carry over the two halves
    {
        let h = n / 2;
        let mut eq = a.konst(true);
        let mut lt = a.konst(false);
        let mut carry = a.konst(false);
        for i in 0..h {
            let (x, y) = (a.lit(i, true), a.lit(h + i, true));
            let same = a.not(&a.xor(&x, &y));
            // bit i is more significant than bits < i
            lt = a.ite(&same, &lt, &y);
            eq = a.and(&eq, &same);
            let xy = a.and(&x, &y);
            let x_or_y = a.or(&x, &y);
            carry = a.or(&xy, &a.and(&x_or_y, &carry));
        }
        out.push(("halves_equal".into(), 0, eq));
        out.push(("low_half_less".into(), 0, lt));
        out.push(("adder_carry".into(), 0, carry));
    }
    // multiplexers: two selectors, four data inputs
    for (name, s0, s1, d) in [("mux(sel 0,1)", 0usize, 1usize, [2usize, 3, 4, 5]), ("mux(sel n-1,n-2)", n - 1, n - 2, [0, 1, 2, 3])] {
        let (a0, a1) = (a.lit(s0, true), a.lit(s1, true));
        let lo = a.ite(&a0, &a.lit(d[1], true), &a.lit(d[0], true));
        let hi = a.ite(&a0, &a.lit(d[3], true), &a.lit(d[2], false));
        out.push((name.to_string(), 0, a.ite(&a1, &hi, &lo)));
    }
    // chain of implications, at most one
    {
        let mut chain = a.konst(true);
        for i in 0..n - 1 {
            chain = a.and(&chain, &a.or(&a.lit(i, false), &a.lit(i + 1, true)));
        }
        out.push(("implication_chain".into(), 0, chain));
        let mut amo = a.konst(true);
        for i in 0..n {
            for j in i + 1..n {
                amo = a.and(&a.or(&a.lit(i, false), &a.lit(j, false)), &amo);
            }
        }
        out.push(("at_most_one".into(), 0, amo));
    }
    out
}

/// BDD reader over mapped labels: `idx(label)` gives the table variable of a label
pub fn bdd_big(p: rsdd::repr::BddPtr, n: usize, idx: &dyn Fn(usize) -> Option<usize>) -> Result<Big, String> {
    use rsdd::repr::BddPtr;
    fn rec(p: BddPtr, n: usize, idx: &dyn Fn(usize) -> Option<usize>, memo: &mut HashMap<usize, Big>) -> Result<Big, String> {
        match p {
            BddPtr::PtrTrue => Ok(Big::konst(n, true)),
            BddPtr::PtrFalse => Ok(Big::konst(n, false)),
            BddPtr::Reg(node) | BddPtr::Compl(node) => {
                let addr = node as *const _ as usize;
                let reg = if let Some(t) = memo.get(&addr) {
                    t.clone()
                } else {
                    let l = node.var.value_usize();
                    let v = idx(l).ok_or_else(|| format!("node on label {} which is no variable of this run", l))?;
                    let x = Big::var(n, v);
                    let t = x.ite(&rec(node.high, n, idx, memo)?, &rec(node.low, n, idx, memo)?);
                    memo.insert(addr, t.clone());
                    t
                };
                Ok(if matches!(p, BddPtr::Compl(_)) { reg.not() } else { reg })
            }
        }
    }
    let mut memo = HashMap::new();
    rec(p, n, idx, &mut memo)
}

/// SDD reader (same conventions as `walk::sdd_tt_mapped`)
pub fn sdd_big(p: rsdd::repr::SddPtr, n: usize, idx: &dyn Fn(usize) -> Option<usize>) -> Result<Big, String> {
    use rsdd::repr::SddPtr;
    fn rec(p: SddPtr, n: usize, idx: &dyn Fn(usize) -> Option<usize>, memo: &mut HashMap<(u8, usize), Big>) -> Result<Big, String> {
        match p {
            SddPtr::PtrTrue => Ok(Big::konst(n, true)),
            SddPtr::PtrFalse => Ok(Big::konst(n, false)),
            SddPtr::Var(l, pol) => {
                let v = idx(l.value_usize()).ok_or_else(|| format!("literal on label {} which is no variable of this run", l.value()))?;
                Ok(Big::lit(n, v, pol))
            }
            SddPtr::BDD(b) | SddPtr::ComplBDD(b) => {
                let key = (0u8, b as *const _ as usize);
                let reg = if let Some(t) = memo.get(&key) {
                    t.clone()
                } else {
                    let v = idx(b.label().value_usize()).ok_or_else(|| format!("binary node on label {} which is no variable of this run", b.label().value()))?;
                    let t = Big::var(n, v).ite(&rec(b.high(), n, idx, memo)?, &rec(b.low(), n, idx, memo)?);
                    memo.insert(key, t.clone());
                    t
                };
                Ok(if matches!(p, SddPtr::ComplBDD(_)) { reg.not() } else { reg })
            }
            SddPtr::Reg(o) | SddPtr::Compl(o) => {
                let key = (1u8, o as *const _ as usize);
                let reg = if let Some(t) = memo.get(&key) {
                    t.clone()
                } else {
                    let mut t = Big::konst(n, false);
                    for a in o.iter() {
                        t = t.or(&rec(a.prime, n, idx, memo)?.and(&rec(a.sub, n, idx, memo)?));
                    }
                    memo.insert(key, t.clone());
                    t
                };
                Ok(if matches!(p, SddPtr::Compl(_)) { reg.not() } else { reg })
            }
        }
    }
    let mut memo = HashMap::new();
    rec(p, n, idx, &mut memo)
}

#[cfg(test)]
mod tests {
    use super::*;
    #[test]
    fn agrees_with_small_tt() {
        // the big tables restricted to 6 variables agree with the u64 algebra of tt.rs
        use crate::tt;
        let n = 6;
        let fs: Vec<(Big, u64)> = (0..n).map(|v| (Big::var(n, v), tt::var(v, n))).collect();
        for (a, x) in &fs {
            for (b, y) in &fs {
                assert_eq!(a.and(b).w[0], x & y);
                assert_eq!(a.xor(&b.not()).w[0], tt::iff(*x, *y, n));
                for v in 0..n {
                    let f = a.or(b);
                    assert_eq!(f.cofactor(v, true).w[0], tt::cofactor(x | y, v, true, n));
                    assert_eq!(f.exists(v).w[0], tt::exists(x | y, v, n));
                }
            }
        }
        let f = Big::var(8, 7).and(&Big::var(8, 0));
        assert_eq!(f.count(), 64);
        assert!(f.eval(0b1000_0001) && !f.eval(0b1000_0000));
        assert_eq!(f.cofactor(7, true), Big::var(8, 0));
        assert_eq!(Big::var(5, 2).extend(8), Big::var(8, 2));
        // word-level cofactor against the bit-by-bit definition, 3..9 variables
        for n in 3..=9usize {
            let fams = families(&BigAlg(n.max(6)));
            for (_, _, g) in fams.iter().take(80) {
                let g = if n >= 6 { g.clone() } else { Big::var(n, 0).xor(&Big::var(n, n - 1)) };
                for v in 0..g.n {
                    for b in [false, true] {
                        let c = g.cofactor(v, b);
                        for a in 0..(1usize << g.n) {
                            let src = if b { a | (1 << v) } else { a & !(1 << v) };
                            assert_eq!(c.eval(a), g.eval(src));
                        }
                    }
                }
            }
        }
    }
}
