//! The harness's own reader of the JSON serialisations: plain node tables with complement flags.
//! Nothing here calls rsdd.

use crate::enumerate::VT;
use crate::tt::{self, TT};
use serde_json::Value;

/// truth table of root `root_idx` of a serialised BDD ({"nodes":[{topvar,low,high}],"roots":[ptr]})
pub fn bdd_json_tt(v: &Value, root_idx: usize, n: usize) -> Result<TT, String> {
    let nodes = v["nodes"].as_array().ok_or("no nodes array")?;
    let roots = v["roots"].as_array().ok_or("no roots array")?;
    let root = roots.get(root_idx).ok_or("no such root")?;
    fn ptr(p: &Value, nodes: &[Value], n: usize, depth: usize) -> Result<TT, String> {
        if depth > 64 {
            return Err("cyclic node table".into());
        }
        if p.as_str() == Some("True") {
            return Ok(tt::mask(n));
        }
        if p.as_str() == Some("False") {
            return Ok(0);
        }
        let q = p.get("Ptr").ok_or(format!("bad pointer {}", p))?;
        let idx = q["index"].as_u64().ok_or("no index")? as usize;
        let compl = q["compl"].as_bool().ok_or("no compl flag")?;
        let nd = nodes.get(idx).ok_or(format!("index {} out of range", idx))?;
        let var = nd["topvar"].as_u64().ok_or("no topvar")? as usize;
        if var >= n {
            return Err(format!("topvar {} out of range", var));
        }
        let lo = ptr(&nd["low"], nodes, n, depth + 1)?;
        let hi = ptr(&nd["high"], nodes, n, depth + 1)?;
        let x = tt::var(var, n);
        let t = (x & hi) | (!x & lo & tt::mask(n));
        Ok(if compl { tt::not(t, n) } else { t })
    }
    ptr(root, nodes, n, 0)
}

/// truth table of a serialised SDD ({"nodes":[[{prime,sub}..]],"roots":[ptr]})
pub fn sdd_json_tt(v: &Value, root_idx: usize, n: usize) -> Result<TT, String> {
    let nodes = v["nodes"].as_array().ok_or("no nodes array")?;
    let roots = v["roots"].as_array().ok_or("no roots array")?;
    let root = roots.get(root_idx).ok_or("no such root")?;
    fn ptr(p: &Value, nodes: &[Value], n: usize, depth: usize) -> Result<TT, String> {
        if depth > 64 {
            return Err("cyclic node table".into());
        }
        if p.as_str() == Some("True") {
            return Ok(tt::mask(n));
        }
        if p.as_str() == Some("False") {
            return Ok(0);
        }
        if let Some(l) = p.get("Literal") {
            let label = l["label"].as_u64().ok_or("no label")? as usize;
            let pol = l["polarity"].as_bool().ok_or("no polarity")?;
            if label >= n {
                return Err(format!("label {} out of range", label));
            }
            return Ok(tt::lit(label, pol, n));
        }
        let q = p.get("Ptr").ok_or(format!("bad pointer {}", p))?;
        let idx = q["index"].as_u64().ok_or("no index")? as usize;
        let compl = q["compl"].as_bool().ok_or("no compl flag")?;
        let nd = nodes.get(idx).ok_or(format!("index {} out of range", idx))?;
        let ands = nd.as_array().or_else(|| nd.get("nodes").and_then(|x| x.as_array())).ok_or(format!("node {} is not a list of elements: {}", idx, nd))?;
        let mut t = 0;
        for a in ands {
            t |= ptr(&a["prime"], nodes, n, depth + 1)? & ptr(&a["sub"], nodes, n, depth + 1)?;
        }
        Ok(if compl { tt::not(t, n) } else { t })
    }
    ptr(root, nodes, n, 0)
}

/// a serialised vtree read back as a shape
pub fn vtree_json(v: &Value) -> Result<VT, String> {
    // accepted encodings: {"Leaf": n} / {"Node": {"left": .., "right": ..}} or a root wrapper
    let v = v.get("root").unwrap_or(v);
    if let Some(l) = v.get("Leaf") {
        return Ok(VT::Leaf(l.as_u64().ok_or(format!("bad leaf {}", l))? as usize));
    }
    if let Some(nd) = v.get("Node") {
        let (l, r) = (nd.get("left").ok_or("no left")?, nd.get("right").ok_or("no right")?);
        return Ok(VT::Node(Box::new(vtree_json(l)?), Box::new(vtree_json(r)?)));
    }
    Err(format!("unrecognised vtree encoding {}", v))
}
