//! Reference model of Boolean functions: truth tables as `u64` bitsets over n <= 6 variables.
//! Bit `a` of the table is the value of the function on the assignment whose bit `i` is the value
//! of variable `i`. Nothing in this file calls rsdd.

pub type TT = u64;

#[inline]
pub fn mask(n: usize) -> TT {
    debug_assert!(n <= 6);
    if n == 6 {
        u64::MAX
    } else {
        (1u64 << (1usize << n)) - 1
    }
}

/// table of the positive literal of variable `v` over `n` variables
#[inline]
pub fn var(v: usize, n: usize) -> TT {
    const PAT: [u64; 6] = [
        0xAAAA_AAAA_AAAA_AAAA,
        0xCCCC_CCCC_CCCC_CCCC,
        0xF0F0_F0F0_F0F0_F0F0,
        0xFF00_FF00_FF00_FF00,
        0xFFFF_0000_FFFF_0000,
        0xFFFF_FFFF_0000_0000,
    ];
    PAT[v] & mask(n)
}

#[inline]
pub fn lit(v: usize, pol: bool, n: usize) -> TT {
    if pol {
        var(v, n)
    } else {
        not(var(v, n), n)
    }
}

#[inline]
pub fn not(f: TT, n: usize) -> TT {
    !f & mask(n)
}
#[inline]
pub fn and(f: TT, g: TT) -> TT {
    f & g
}
#[inline]
pub fn or(f: TT, g: TT) -> TT {
    f | g
}
#[inline]
pub fn xor(f: TT, g: TT) -> TT {
    f ^ g
}
#[inline]
pub fn iff(f: TT, g: TT, n: usize) -> TT {
    !(f ^ g) & mask(n)
}
#[inline]
pub fn ite(f: TT, g: TT, h: TT, n: usize) -> TT {
    ((f & g) | (!f & h)) & mask(n)
}

/// f restricted to v = b (result still a table over n variables, independent of v)
#[inline]
pub fn cofactor(f: TT, v: usize, b: bool, n: usize) -> TT {
    let x = var(v, n);
    let sh = 1u32 << v;
    if b {
        let hi = f & x;
        hi | (hi >> sh)
    } else {
        let lo = f & !x & mask(n);
        lo | (lo << sh)
    }
}

#[inline]
pub fn exists(f: TT, v: usize, n: usize) -> TT {
    cofactor(f, v, true, n) | cofactor(f, v, false, n)
}

/// the documented definition of compose: exists v. (v <=> g) /\ f
#[inline]
pub fn compose_def(f: TT, v: usize, g: TT, n: usize) -> TT {
    exists(iff(var(v, n), g, n) & f, v, n)
}

#[inline]
pub fn depends_on(f: TT, v: usize, n: usize) -> bool {
    cofactor(f, v, true, n) != cofactor(f, v, false, n)
}

pub fn support(f: TT, n: usize) -> Vec<usize> {
    (0..n).filter(|&v| depends_on(f, v, n)).collect()
}

pub fn support_mask(f: TT, n: usize) -> u32 {
    let mut m = 0;
    for v in 0..n {
        if depends_on(f, v, n) {
            m |= 1 << v;
        }
    }
    m
}

#[inline]
pub fn eval(f: TT, assignment: usize) -> bool {
    (f >> assignment) & 1 == 1
}

#[inline]
pub fn count(f: TT) -> u32 {
    f.count_ones()
}

/// assignment index -> vector of booleans
pub fn assignment_vec(a: usize, n: usize) -> Vec<bool> {
    (0..n).map(|i| (a >> i) & 1 == 1).collect()
}

/// extend a table over `n` variables to `m >= n` variables (new variables are don't-cares)
pub fn extend(f: TT, n: usize, m: usize) -> TT {
    let mut r = f;
    let mut k = n;
    while k < m {
        r |= r << (1usize << k);
        k += 1;
    }
    r & mask(m)
}

/// truth table of a clause list (clauses = lists of (var, polarity)) over n variables
pub fn of_cnf(clauses: &[Vec<(usize, bool)>], n: usize) -> TT {
    let mut r = mask(n);
    for c in clauses {
        let mut ct = 0;
        for &(v, p) in c {
            ct |= lit(v, p, n);
        }
        r &= ct;
    }
    r
}

#[cfg(test)]
mod tests {
    use super::*;
    #[test]
    fn basics() {
        let n = 3;
        for f in 0..256u64 {
            for v in 0..3 {
                for a in 0..8usize {
                    let a1 = a | (1 << v);
                    let a0 = a & !(1 << v);
                    assert_eq!(eval(cofactor(f, v, true, n), a), eval(f, a1));
                    assert_eq!(eval(cofactor(f, v, false, n), a), eval(f, a0));
                }
            }
        }
        assert_eq!(extend(0b10, 1, 2), 0b1010);
    }
}
