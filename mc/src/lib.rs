//! Bounded exhaustive exploration (model-checking family) of neuppl/rsdd; see /verif/DESIGN.md.
extern crate rsdd;

pub mod core;
pub mod tt;
pub mod bigtt;
pub mod walk;
pub mod enumerate;
pub mod jsonread;
pub mod props;
