//! Independent readers of rsdd's diagram data structures. They use only the public fields /
//! accessors that expose the stored structure (`var`, `low`, `high`, the complement tag,
//! `BinarySDD::{label,low,high}`, `SddOr::iter`), never the library's own evaluation, fold,
//! `low()/high()` complement logic or counting code, which are code under test.

use crate::tt::{self, TT};
use rsdd::repr::{BddPtr, SddPtr};
use std::collections::HashMap;

/// truth table of a BDD pointer over `n` variables (labels must be < n)
pub fn bdd_tt(p: BddPtr, n: usize) -> TT {
    match p {
        BddPtr::PtrTrue => tt::mask(n),
        BddPtr::PtrFalse => 0,
        BddPtr::Reg(node) => {
            let v = node.var.value_usize();
            let x = tt::var(v, n);
            (x & bdd_tt(node.high, n)) | (!x & bdd_tt(node.low, n) & tt::mask(n))
        }
        BddPtr::Compl(node) => tt::not(bdd_tt(BddPtr::Reg(node), n), n),
    }
}

pub fn bdd_eval(p: BddPtr, a: usize) -> bool {
    match p {
        BddPtr::PtrTrue => true,
        BddPtr::PtrFalse => false,
        BddPtr::Reg(node) => {
            if (a >> node.var.value_usize()) & 1 == 1 {
                bdd_eval(node.high, a)
            } else {
                bdd_eval(node.low, a)
            }
        }
        BddPtr::Compl(node) => !bdd_eval(BddPtr::Reg(node), a),
    }
}

/// address of the node a pointer refers to (0 for constants) and its complement tag
pub fn bdd_id(p: BddPtr) -> (usize, bool) {
    match p {
        BddPtr::PtrTrue => (0, false),
        BddPtr::PtrFalse => (0, true),
        BddPtr::Reg(n) => (n as *const _ as usize, false),
        BddPtr::Compl(n) => (n as *const _ as usize, true),
    }
}

/// Shape check of C02: levels strictly increase along every path w.r.t. `level_of`,
/// low != high, stored high edge neither complemented nor constant false.
/// Returns a description of the first defect.
pub fn bdd_shape_defect(p: BddPtr, level_of: &dyn Fn(usize) -> usize) -> Option<String> {
    fn rec(p: BddPtr, above: Option<usize>, level_of: &dyn Fn(usize) -> usize) -> Option<String> {
        match p {
            BddPtr::PtrTrue | BddPtr::PtrFalse => None,
            BddPtr::Reg(n) | BddPtr::Compl(n) => {
                let lv = level_of(n.var.value_usize());
                if let Some(a) = above {
                    if lv <= a {
                        return Some(format!(
                            "order violated: node of var {} at level {} below level {}",
                            n.var.value(),
                            lv,
                            a
                        ));
                    }
                }
                if n.low == n.high {
                    return Some(format!("redundant node on var {} (low == high)", n.var.value()));
                }
                match n.high {
                    BddPtr::Compl(_) => {
                        return Some(format!("complemented high edge at var {}", n.var.value()))
                    }
                    BddPtr::PtrFalse => {
                        return Some(format!("constant-false high edge at var {}", n.var.value()))
                    }
                    _ => (),
                }
                rec(n.low, Some(lv), level_of).or_else(|| rec(n.high, Some(lv), level_of))
            }
        }
    }
    rec(p, None, level_of)
}

/// canonical, address-free description of a BDD: post-order node table
/// (var, low ref, high ref) with refs = (index, compl) / constants, plus the root ref.
pub fn bdd_structure(p: BddPtr) -> (Vec<(u64, i64, i64)>, i64) {
    fn refnum(idx: usize, compl: bool) -> i64 {
        let v = (idx as i64 + 2) * 2;
        if compl {
            v + 1
        } else {
            v
        }
    }
    fn rec<'a>(
        p: BddPtr<'a>,
        seen: &mut HashMap<usize, usize>,
        out: &mut Vec<(u64, i64, i64)>,
    ) -> i64 {
        match p {
            BddPtr::PtrTrue => 1,
            BddPtr::PtrFalse => 0,
            BddPtr::Reg(n) | BddPtr::Compl(n) => {
                let addr = n as *const _ as usize;
                let compl = matches!(p, BddPtr::Compl(_));
                if let Some(&i) = seen.get(&addr) {
                    return refnum(i, compl);
                }
                let l = rec(n.low, seen, out);
                let h = rec(n.high, seen, out);
                let i = out.len();
                out.push((n.var.value(), l, h));
                seen.insert(addr, i);
                refnum(i, compl)
            }
        }
    }
    let mut out = Vec::new();
    let mut seen = HashMap::new();
    let r = rec(p, &mut seen, &mut out);
    (out, r)
}

/// number of distinct internal nodes reachable from p
pub fn bdd_node_count(p: BddPtr) -> usize {
    bdd_structure(p).0.len()
}

/// all root-to-terminal paths as lists of tested variables (in path order)
pub fn bdd_paths(p: BddPtr) -> Vec<Vec<usize>> {
    fn rec(p: BddPtr, cur: &mut Vec<usize>, out: &mut Vec<Vec<usize>>) {
        match p {
            BddPtr::PtrTrue | BddPtr::PtrFalse => out.push(cur.clone()),
            BddPtr::Reg(n) | BddPtr::Compl(n) => {
                cur.push(n.var.value_usize());
                rec(n.low, cur, out);
                rec(n.high, cur, out);
                cur.pop();
            }
        }
    }
    let mut out = Vec::new();
    rec(p, &mut Vec::new(), &mut out);
    out
}

// ---------------------------------------------------------------------------------------------
// SDD

pub fn sdd_tt(p: SddPtr, n: usize) -> TT {
    match p {
        SddPtr::PtrTrue => tt::mask(n),
        SddPtr::PtrFalse => 0,
        SddPtr::Var(l, pol) => tt::lit(l.value_usize(), pol, n),
        SddPtr::BDD(b) => {
            let x = tt::var(b.label().value_usize(), n);
            (x & sdd_tt(b.high(), n)) | (!x & sdd_tt(b.low(), n) & tt::mask(n))
        }
        SddPtr::ComplBDD(b) => tt::not(sdd_tt(SddPtr::BDD(b), n), n),
        SddPtr::Reg(or) => {
            let mut r = 0;
            for a in or.iter() {
                r |= sdd_tt(a.prime, n) & sdd_tt(a.sub, n);
            }
            r
        }
        SddPtr::Compl(or) => tt::not(sdd_tt(SddPtr::Reg(or), n), n),
    }
}

pub fn sdd_id(p: SddPtr) -> (u8, usize, bool) {
    match p {
        SddPtr::PtrTrue => (0, 0, false),
        SddPtr::PtrFalse => (0, 0, true),
        SddPtr::Var(l, pol) => (1, l.value_usize(), !pol),
        SddPtr::BDD(b) => (2, b as *const _ as usize, false),
        SddPtr::ComplBDD(b) => (2, b as *const _ as usize, true),
        SddPtr::Reg(o) => (3, o as *const _ as usize, false),
        SddPtr::Compl(o) => (3, o as *const _ as usize, true),
    }
}

/// canonical, address-free structural description of an SDD: the full unfolding with the
/// elements of every decision node sorted textually (elements are stored sorted by prime
/// *address*). Memoised per node address; intended for small diagrams.
pub fn sdd_canon(p: SddPtr) -> String {
    fn rec<'a>(p: SddPtr<'a>, memo: &mut HashMap<usize, String>) -> String {
        match p {
            SddPtr::PtrTrue => "T".into(),
            SddPtr::PtrFalse => "F".into(),
            SddPtr::Var(l, pol) => format!("{}{}", if pol { "" } else { "-" }, l.value() + 1),
            SddPtr::BDD(b) | SddPtr::ComplBDD(b) => {
                let addr = b as *const _ as usize;
                let c = if matches!(p, SddPtr::ComplBDD(_)) { "!" } else { "" };
                if let Some(s) = memo.get(&addr) {
                    return format!("{}{}", c, s);
                }
                let l = rec(b.low(), memo);
                let h = rec(b.high(), memo);
                let s = format!("B[{}@{}:{},{}]", b.label().value(), b.index().value(), l, h);
                memo.insert(addr, s.clone());
                format!("{}{}", c, s)
            }
            SddPtr::Reg(o) | SddPtr::Compl(o) => {
                let addr = o as *const _ as usize;
                let c = if matches!(p, SddPtr::Compl(_)) { "!" } else { "" };
                if let Some(s) = memo.get(&addr) {
                    return format!("{}{}", c, s);
                }
                let mut parts: Vec<String> = Vec::new();
                for a in o.iter() {
                    let pr = rec(a.prime, memo);
                    let su = rec(a.sub, memo);
                    parts.push(format!("({},{})", pr, su));
                }
                parts.sort();
                let s = format!("O[@{}:{}]", o.index().value(), parts.join(""));
                memo.insert(addr, s.clone());
                format!("{}{}", c, s)
            }
        }
    }
    rec(p, &mut HashMap::new())
}

// ---------------------------------------------------------------------------------------------
// sparse labels: truth tables over the k occurring labels of a diagram built in a wide manager

/// truth table of a BDD over `k` table variables; `idx(label)` gives the table variable of a
/// label (None = a label that must not occur: reported as Err)
pub fn bdd_tt_mapped(p: BddPtr, k: usize, idx: &dyn Fn(usize) -> Option<usize>) -> Result<TT, String> {
    Ok(match p {
        BddPtr::PtrTrue => tt::mask(k),
        BddPtr::PtrFalse => 0,
        BddPtr::Reg(node) => {
            let l = node.var.value_usize();
            let v = idx(l).ok_or_else(|| format!("diagram mentions label {} which the input does not", l))?;
            let x = tt::var(v, k);
            (x & bdd_tt_mapped(node.high, k, idx)?) | (!x & bdd_tt_mapped(node.low, k, idx)? & tt::mask(k))
        }
        BddPtr::Compl(node) => tt::not(bdd_tt_mapped(BddPtr::Reg(node), k, idx)?, k),
    })
}

pub fn sdd_tt_mapped(p: SddPtr, k: usize, idx: &dyn Fn(usize) -> Option<usize>) -> Result<TT, String> {
    let look = |l: usize| idx(l).ok_or_else(|| format!("diagram mentions label {} which the input does not", l));
    Ok(match p {
        SddPtr::PtrTrue => tt::mask(k),
        SddPtr::PtrFalse => 0,
        SddPtr::Var(l, pol) => tt::lit(look(l.value_usize())?, pol, k),
        SddPtr::BDD(b) => {
            let x = tt::var(look(b.label().value_usize())?, k);
            (x & sdd_tt_mapped(b.high(), k, idx)?) | (!x & sdd_tt_mapped(b.low(), k, idx)? & tt::mask(k))
        }
        SddPtr::ComplBDD(b) => tt::not(sdd_tt_mapped(SddPtr::BDD(b), k, idx)?, k),
        SddPtr::Reg(or) => {
            let mut r = 0;
            for a in or.iter() {
                r |= sdd_tt_mapped(a.prime, k, idx)? & sdd_tt_mapped(a.sub, k, idx)?;
            }
            r
        }
        SddPtr::Compl(or) => tt::not(sdd_tt_mapped(SddPtr::Reg(or), k, idx)?, k),
    })
}

/// value of an SDD under a complete assignment (bit v of `a` = value of label v), by walking
/// the stored elements: the first element whose prime holds decides through its sub
pub fn sdd_eval(p: SddPtr, a: u64) -> bool {
    match p {
        SddPtr::PtrTrue => true,
        SddPtr::PtrFalse => false,
        SddPtr::Var(l, pol) => ((a >> l.value_usize()) & 1 == 1) == pol,
        SddPtr::BDD(b) => {
            if (a >> b.label().value_usize()) & 1 == 1 {
                sdd_eval(b.high(), a)
            } else {
                sdd_eval(b.low(), a)
            }
        }
        SddPtr::ComplBDD(b) => !sdd_eval(SddPtr::BDD(b), a),
        SddPtr::Reg(or) => or.iter().any(|e| sdd_eval(e.prime, a) && sdd_eval(e.sub, a)),
        SddPtr::Compl(or) => !sdd_eval(SddPtr::Reg(or), a),
    }
}

/// value of an SDD under a complete assignment (index = label), memoised per node: linear in the size of the
/// diagram (the un-memoised `sdd_eval` is exponential in the depth of diagrams with shared nodes)
pub fn sdd_eval_memo(p: SddPtr, a: &[bool]) -> bool {
    fn rec(p: SddPtr, a: &[bool], memo: &mut HashMap<(u8, usize), bool>) -> bool {
        match p {
            SddPtr::PtrTrue => true,
            SddPtr::PtrFalse => false,
            SddPtr::Var(l, pol) => a[l.value_usize()] == pol,
            SddPtr::BDD(b) | SddPtr::ComplBDD(b) => {
                let key = (0u8, b as *const _ as usize);
                let reg = match memo.get(&key) {
                    Some(&v) => v,
                    None => {
                        let v = if a[b.label().value_usize()] { rec(b.high(), a, memo) } else { rec(b.low(), a, memo) };
                        memo.insert(key, v);
                        v
                    }
                };
                reg != matches!(p, SddPtr::ComplBDD(_))
            }
            SddPtr::Reg(o) | SddPtr::Compl(o) => {
                let key = (1u8, o as *const _ as usize);
                let reg = match memo.get(&key) {
                    Some(&v) => v,
                    None => {
                        let mut v = false;
                        for e in o.iter() {
                            if rec(e.prime, a, memo) && rec(e.sub, a, memo) {
                                v = true;
                                break;
                            }
                        }
                        memo.insert(key, v);
                        v
                    }
                };
                reg != matches!(p, SddPtr::Compl(_))
            }
        }
    }
    rec(p, a, &mut HashMap::new())
}
