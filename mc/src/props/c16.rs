//! C16 – operation caches are transparent.
//! (a) explicit-state BFS to closure over insert/get sequences on the real `Lru` with explicit
//!     (colliding) hashes, all capacities 0..2, against a map model with permitted forgetting;
//! (b) lossy-cache BDD builders in lock step with the cache-everything builder (bddsweep);
//! (c) warm-vs-cold differential of SDD apply / ite results (sddsweep).

use crate::core::*;
use rsdd::util::lru::Lru;
use serde_json::{json, Value};
use std::collections::HashSet;

#[derive(Clone, Copy, Debug, PartialEq, Eq)]
enum Act {
    Insert(u8, u8),
    Get(u8),
}

fn act_json(a: &Act) -> Value {
    match a {
        Act::Insert(k, v) => json!({"insert": [k, v]}),
        Act::Get(k) => json!({"get": k}),
    }
}

const NKEYS: usize = 4;

struct Live {
    lru: Lru<u8, u8>,
    /// model: key -> value most recently inserted under that key
    model: [Option<u8>; NKEYS],
    hashes: [u64; NKEYS],
}

impl Live {
    fn new(cap: usize, hashes: [u64; NKEYS]) -> Live {
        Live { lru: Lru::new(cap), model: [None; NKEYS], hashes }
    }
    fn key(&self) -> Vec<u64> {
        let (cap, filled, slots) = self.lru.verif_dump();
        let mut k = vec![cap as u64, filled as u64];
        for s in slots {
            k.push(match s {
                None => 0,
                Some((key, val, h)) => 1 | ((key as u64) << 1) | ((val as u64) << 9) | (h << 17),
            });
        }
        for m in self.model.iter() {
            k.push(m.map(|v| v as u64 + 1).unwrap_or(0));
        }
        k
    }
    /// every key's lookup must be nothing or the last value inserted under exactly that key
    fn check_gets(&self) -> Result<(), String> {
        for k in 0..NKEYS {
            let got = guarded(|| self.lru.get(k as u8, self.hashes[k])).map_err(|p| format!("get({}) panicked: {}", k, p))?;
            match (got, self.model[k]) {
                (None, _) => (),
                (Some(v), Some(m)) if v == m => (),
                (Some(v), m) => return Err(format!("get(key {}) returned {} but the value most recently inserted under that key is {:?} (a value stored for another key, or a stale one)", k, v, m)),
            }
        }
        Ok(())
    }
    fn step(&mut self, a: Act) -> Result<(), String> {
        match a {
            Act::Insert(k, v) => {
                let h = self.hashes[k as usize];
                guarded(|| self.lru.insert(k, v, h)).map_err(|p| format!("insert panicked: {}", p))?;
                self.model[k as usize] = Some(v);
                // the trivial always-empty cache is excluded: a value is retrievable right after its insertion
                let got = self.lru.get(k, h);
                if got != Some(v) {
                    return Err(format!("get(key {}) directly after insert(key {}, {}) returned {:?}", k, k, v, got));
                }
                self.check_gets()
            }
            Act::Get(_) => self.check_gets(),
        }
    }
}

fn replay_hist(cap: usize, hashes: [u64; NKEYS], hist: &[Act]) -> (Live, Result<(), (usize, String)>) {
    let mut l = Live::new(cap, hashes);
    for (i, a) in hist.iter().enumerate() {
        if let Err(e) = l.step(*a) {
            return (l, Err((i, e)));
        }
    }
    (l, Ok(()))
}

fn explore(cap: usize, hashes: [u64; NKEYS], max_depth: usize, rep: &mut Report) {
    let mut seen: HashSet<Vec<u64>> = HashSet::new();
    let l0 = Live::new(cap, hashes);
    seen.insert(l0.key());
    let mut frontier: Vec<Vec<Act>> = vec![vec![]];
    rep.states += 1;
    let mut depth = 0;
    let mut growths = 0u64;
    let mut overwrites = 0u64;
    while !frontier.is_empty() && depth < max_depth {
        let mut next = Vec::new();
        for hist in frontier.iter() {
            for k in 0..NKEYS as u8 {
                for v in 0..2u8 {
                    let a = Act::Insert(k, v);
                    let (mut l, _) = replay_hist(cap, hashes, hist);
                    let before = l.lru.verif_dump();
                    let r = l.step(a);
                    rep.transitions += 1;
                    let mut h2 = hist.clone();
                    h2.push(a);
                    if let Err(e) = r {
                        rep.violation(
                            "lru:wrong-value",
                            format!("capacity 2^{} hashes {:?} after {:?}: {}", cap, hashes, h2, e),
                            json!({"kind": "lru", "cap": cap, "hashes": hashes, "history": h2.iter().map(act_json).collect::<Vec<_>>()}),
                        );
                        return;
                    }
                    let after = l.lru.verif_dump();
                    if after.0 != before.0 {
                        growths += 1;
                    }
                    if after.0 == before.0 {
                        let pos = (hashes[k as usize] as usize) % (1 << after.0);
                        if let Some((ok, _, _)) = before.2[pos] {
                            if ok != k {
                                overwrites += 1;
                            }
                        }
                    }
                    if seen.insert(l.key()) {
                        rep.states += 1;
                        next.push(h2);
                    }
                }
            }
        }
        frontier = next;
        depth += 1;
    }
    rep.max_depth = rep.max_depth.max(depth as u64);
    if !frontier.is_empty() {
        rep.add_extra("lru_configurations_not_closed_within_depth", 1);
    } else {
        rep.add_extra("lru_configurations_closed", 1);
    }
    rep.add_extra("lru_growths", growths);
    rep.add_extra("lru_overwrites_of_another_key", overwrites);
    rep.traces += 1;
}

/// (a2) history-keyed enumeration: every sequence of insert(k, v) / get(k) calls up to a depth,
/// executed on a fresh real cache, with NO observation other than the calls of the sequence
/// themselves (a `get` may have side effects of its own - a reference bit, a "most recent hit"
/// copy - which the blanket gets of the BFS above would overwrite, and which a key made from the
/// slot dump cannot see). Every `get` of the sequence must return nothing or the value most
/// recently inserted under exactly that key.
fn enumerate_histories(cap: usize, hashes: [u64; NKEYS], keys: usize, depth: usize, rep: &mut Report) {
    fn run(cap: usize, hashes: &[u64; NKEYS], hist: &[Act]) -> Result<(), String> {
        let mut lru: Lru<u8, u8> = Lru::new(cap);
        let mut model: [Option<u8>; NKEYS] = [None; NKEYS];
        for (i, a) in hist.iter().enumerate() {
            match *a {
                Act::Insert(k, v) => {
                    guarded(|| lru.insert(k, v, hashes[k as usize])).map_err(|p| format!("step {}: insert panicked: {}", i, p))?;
                    model[k as usize] = Some(v);
                }
                Act::Get(k) => {
                    let got = guarded(|| lru.get(k, hashes[k as usize])).map_err(|p| format!("step {}: get panicked: {}", i, p))?;
                    match (got, model[k as usize]) {
                        (None, _) => (),
                        (Some(v), Some(m)) if v == m => (),
                        (Some(v), m) => return Err(format!("step {}: get(key {}) returned {} but the value most recently inserted under that key is {:?}", i, k, v, m)),
                    }
                }
            }
        }
        Ok(())
    }
    let mut alphabet: Vec<Act> = Vec::new();
    for k in 0..keys as u8 {
        alphabet.push(Act::Get(k));
        for v in 0..2u8 {
            alphabet.push(Act::Insert(k, v));
        }
    }
    // histories that end in a get (a trailing insert is observed by nothing); executed from scratch
    let mut hist: Vec<Act> = Vec::new();
    fn rec(cap: usize, hashes: &[u64; NKEYS], alphabet: &[Act], hist: &mut Vec<Act>, left: usize, rep: &mut Report) {
        if rep.n_violations > 2 {
            return;
        }
        for a in alphabet.iter() {
            hist.push(*a);
            if let Act::Get(_) = a {
                rep.transitions += hist.len() as u64;
                rep.states += 1;
                if let Err(e) = run(cap, hashes, hist) {
                    rep.violation(
                        "lru:wrong-value",
                        format!("capacity 2^{} hashes {:?} history {:?} (no other calls): {}", cap, hashes, hist, e),
                        json!({"kind": "lru_history", "cap": cap, "hashes": hashes, "history": hist.iter().map(act_json).collect::<Vec<_>>()}),
                    );
                }
            }
            if left > 1 {
                rec(cap, hashes, alphabet, hist, left - 1, rep);
            }
            hist.pop();
        }
    }
    rec(cap, &hashes, &alphabet, &mut hist, depth, rep);
    rep.traces += 1;
}

pub fn run(ctx: &Ctx) -> Report {
    let mut rep = Report::new(
        "(a) real Lru<u8,u8>: initial capacities 2^0, 2^1, 2^2, keys 0..3 with every key->hash map of the family (quick: all maps into {0..3} plus collision patterns into {0..7}; thorough: all 8^4 maps into {0..7}), alphabet insert(k, v in {0,1}) with all gets after every step; BFS to closure de-duplicated on (slots, capacity, fill counter, model); oracle: a get returns nothing or the value most recently inserted under exactly that key, and the value just inserted is retrievable; (b) every BDD sweep history on lossy-cache builders at capacities 2^0..2^4 and default, structurally identical results in lock step with the cache-everything builder; (c) SDD apply/ite results identical to those of a cold builder; distinct = Lru state / (configuration, operation)",
    );
    // (a)
    let mut maps: Vec<[u64; NKEYS]> = Vec::new();
    let range: u64 = ctx.tier.pick(4, 8);
    for a in 0..range {
        for b in 0..range {
            for c in 0..range {
                for d in 0..range {
                    maps.push([a, b, c, d]);
                }
            }
        }
    }
    if ctx.tier == Tier::Quick {
        for m in [[0u64, 4, 0, 4], [1, 5, 3, 7], [0, 2, 4, 6], [7, 7, 3, 3], [0, 8, 16, 24], [5, 5, 5, 5]] {
            maps.push(m);
        }
    }
    let mut items: Vec<(usize, [u64; NKEYS])> = Vec::new();
    for cap in 0..3usize {
        for m in maps.iter() {
            items.push((cap, *m));
        }
    }
    let chunks: Vec<&[(usize, [u64; NKEYS])]> = items.chunks(16).collect();
    let a = par_run(ctx, &chunks, |_, chunk| {
        let mut r = Report::default();
        r.exhaustive = true;
        for (cap, m) in chunk.iter() {
            explore(*cap, *m, 40, &mut r);
            if r.n_violations > 4 {
                break;
            }
        }
        r
    });
    let not_closed = a.extra.get("lru_configurations_not_closed_within_depth").and_then(|v| v.as_u64()).unwrap_or(0);
    let growths = a.extra.get("lru_growths").and_then(|v| v.as_u64()).unwrap_or(0);
    let over = a.extra.get("lru_overwrites_of_another_key").and_then(|v| v.as_u64()).unwrap_or(0);
    rep.add_extra("lru_states", a.states);
    rep.merge(a);
    if not_closed > 0 {
        rep.cap(format!("{} Lru configurations did not reach closure within depth 40", not_closed));
    }
    // (a2) all call sequences, no dedup, no extra observation
    {
        let depth = ctx.tier.pick(5, 6);
        let keys = 3usize;
        let hs: [u64; 4] = [0, 1, 4, 5];
        let mut items2: Vec<(usize, [u64; NKEYS])> = Vec::new();
        for cap in 0..3usize {
            for a in hs {
                for b in hs {
                    for c in hs {
                        // up to renaming of the keys: non-decreasing hash triples only in quick
                        if ctx.tier == Tier::Quick && !(a <= b && b <= c) {
                            continue;
                        }
                        items2.push((cap, [a, b, c, 0]));
                    }
                }
            }
        }
        let n2 = items2.len();
        let h = par_run(ctx, &items2, |_, (cap, m)| {
            let mut r = Report::default();
            r.exhaustive = true;
            enumerate_histories(*cap, *m, keys, depth, &mut r);
            r
        });
        rep.add_extra("lru_call_sequences_enumerated", h.states);
        rep.bound("lru_call_sequences", json!({"alphabet": "insert(k, v in {0,1}) / get(k), 3 keys", "depth": depth, "capacities": [0, 1, 2], "key_to_hash_maps": n2, "hash_values": hs, "observation": "only the gets of the sequence itself"}));
        rep.merge(h);
    }
    rep.floor("Lru growths", growths, 1);
    rep.floor("Lru overwrites of a different key", over, 1);
    rep.bound("lru", json!({"capacities": [0, 1, 2], "keys": 4, "hash_range": range, "hash_maps": maps.len(), "values": 2}));
    // (b) and (c) run side by side (quick tier); sequentially in thorough (memory)
    let (mut b, mut c) = if ctx.tier == crate::core::Tier::Quick {
        std::thread::scope(|s| {
            let hb = s.spawn(|| crate::props::bddsweep::run_all(ctx));
            let hc = s.spawn(|| crate::props::sddsweep::run_cold_only(ctx));
            (hb.join().expect("bdd sweep"), hc.join().expect("sdd sweep"))
        })
    } else {
        (crate::props::bddsweep::run_all(ctx), crate::props::sddsweep::run_cold_only(ctx))
    };
    crate::props::bddsweep::filter_for(&mut b, "C16");
    b.rule = String::new();
    rep.add_extra("bdd_lockstep_operations", b.transitions);
    rep.merge(b);
    crate::props::sddsweep::filter_for(&mut c, "C16");
    c.rule = String::new();
    let cold = c.extra.get("cold_builder_comparisons").and_then(|v| v.as_u64()).unwrap_or(0);
    rep.add_extra("sdd_operations", c.transitions);
    rep.merge(c);
    rep.floor("SDD warm-vs-cold comparisons", cold, 100);
    rep.evaluations += rep.transitions;
    rep.distinct_nontrivial = rep.states;
    rep.sample(json!({"lru": {"cap": 0, "hashes": [0, 1, 2, 0], "history": [{"insert": [0, 1]}, {"insert": [3, 0]}, {"get": 0}]}}));
    rep.assumptions.push("the Lru's slots are read through the verif_dump hook for the canonical key only; the oracle uses get/insert".into());
    rep
}

pub fn replay(ctx: &Ctx, case: &Value) -> Report {
    let mut rep = Report::default();
    match case["kind"].as_str() {
        Some("lru") => {
            let cap = case["cap"].as_u64().unwrap_or(0) as usize;
            let mut hashes = [0u64; NKEYS];
            if let Some(a) = case["hashes"].as_array() {
                for (i, h) in a.iter().enumerate().take(NKEYS) {
                    hashes[i] = h.as_u64().unwrap_or(0);
                }
            }
            let hist: Vec<Act> = case["history"].as_array().map(|a| a.iter().filter_map(|x| {
                if let Some(i) = x.get("insert") {
                    Some(Act::Insert(i[0].as_u64()? as u8, i[1].as_u64()? as u8))
                } else {
                    x.get("get").and_then(|g| g.as_u64()).map(|g| Act::Get(g as u8))
                }
            }).collect()).unwrap_or_default();
            let (_, r) = replay_hist(cap, hashes, &hist);
            if let Err((i, e)) = r {
                rep.violation("lru:wrong-value", format!("step {}: {}", i, e), case.clone());
            }
        }
        Some("lru_history") => {
            let cap = case["cap"].as_u64().unwrap_or(0) as usize;
            let mut hashes = [0u64; NKEYS];
            if let Some(a) = case["hashes"].as_array() {
                for (i, h) in a.iter().enumerate().take(NKEYS) {
                    hashes[i] = h.as_u64().unwrap_or(0);
                }
            }
            let depth = case["history"].as_array().map(|a| a.len()).unwrap_or(1);
            enumerate_histories(cap, hashes, 3, depth, &mut rep);
        }
        Some("bdd_sweep") | Some("bdd_r1") => rep.merge(crate::props::bddsweep::replay_for(ctx, "C16", case)),
        Some("sdd_sweep") => rep.merge(crate::props::sddsweep::replay_for(ctx, "C16", case)),
        _ => {}
    }
    rep
}
