//! Long formulas: rule-defined CNF families with 9 to 70 distinct non-unit clauses over 6 to 10 variables,
//! clause counts around 16, 32 and 64, clauses of 2 to 7 literals. The exhaustive CNF enumerations of C05 / C06
//! stop at three clauses over three variables; list-length and clause-length thresholds inside the compilers
//! (balanced conjunction, smallest-first heaps, component caches, watch lists) are only reached here.
//! Reference: clause evaluation into a 2^n-bit truth table (`bigtt`), independent of rsdd.

use crate::bigtt::{self, Big};
use crate::core::*;
use crate::enumerate::*;
use crate::props::bddutil::*;
use rsdd::builder::bdd::BddBuilder;
use rsdd::builder::decision_nnf::{DecisionNNFBuilder, SemanticDecisionNNFBuilder, StandardDecisionNNFBuilder};
use rsdd::builder::sdd::CompressionSddBuilder;
use rsdd::builder::BottomUpBuilder;
use rsdd::constants::primes;
use rsdd::repr::{BddPtr, DDNNFPtr, PartialModel, VTree, VarLabel, VarOrder};
use serde_json::{json, Value};

pub fn big_of_cnf(clauses: &[Clause], n: usize) -> Big {
    let mut f = Big::konst(n, true);
    for c in clauses {
        let mut d = Big::konst(n, false);
        for &(v, p) in c {
            d = d.or(&Big::lit(n, v, p));
        }
        f = f.and(&d);
    }
    f
}

/// (name, number of variables, clauses); every family is cut at several lengths
pub fn families(ctx: &Ctx) -> Vec<(String, usize, Vec<Clause>)> {
    let mut out: Vec<(String, usize, Vec<Clause>)> = Vec::new();
    let cuts: Vec<usize> = ctx.tier.pick(vec![9, 11, 15, 16, 17, 23, 31, 32, 33, 34, 37, 40, 45, 50, 57, 63, 64, 65], (8..=70).collect());
    // (A) all positive two-literal clauses over 9 variables in lexicographic order (36), then the mixed ones
    {
        let n = 9;
        let mut all: Vec<Clause> = Vec::new();
        for pp in 0..4 {
            for i in 0..n {
                for j in i + 1..n {
                    all.push(vec![(i, pp & 1 == 0), (j, pp & 2 == 0)]);
                }
            }
        }
        for &k in cuts.iter().filter(|&&k| k <= all.len()) {
            out.push((format!("two-literal clauses over 9 variables, first {}", k), n, all[..k].to_vec()));
        }
        // the same list from the back: negative clauses first
        for &k in cuts.iter().filter(|&&k| k <= 40) {
            out.push((format!("two-literal clauses over 9 variables, last {}", k), n, all[all.len() - k..].to_vec()));
        }
    }
    // (B) rule-defined three-literal clauses over 8 and 10 variables
    for n in [8usize, 10] {
        let mut all: Vec<Clause> = Vec::new();
        for t in 0..70usize {
            let (a, b, c) = (t % n, (3 * t + 1) % n, (5 * t + 2) % n);
            if a == b || b == c || a == c {
                continue;
            }
            let cl = vec![(a, t & 1 == 0), (b, t & 2 == 0), (c, (t / 3) & 1 == 0)];
            if !all.contains(&cl) {
                all.push(cl);
            }
        }
        for &k in cuts.iter().filter(|&&k| k <= all.len()) {
            out.push((format!("rule-defined 3-clauses over {} variables, first {}", n, k), n, all[..k].to_vec()));
        }
    }
    // (C) wide clauses: 4 to 7 literals, sliding over 8 variables, together with short ones
    {
        let n = 8;
        let mut all: Vec<Clause> = Vec::new();
        for t in 0..40usize {
            let len = 4 + t % 4;
            let cl: Clause = (0..len).map(|i| ((t + i * 3) % n, (t + i) % 3 != 0)).collect();
            let mut vs: Vec<usize> = cl.iter().map(|l| l.0).collect();
            vs.sort();
            vs.dedup();
            if vs.len() == cl.len() {
                all.push(cl);
            }
            if t % 3 == 0 {
                all.push(vec![(t % n, t % 2 == 0), ((t + 1) % n, true)]);
            }
        }
        for &k in cuts.iter().filter(|&&k| k <= all.len()) {
            out.push((format!("wide clauses (4-7 literals) over 8 variables, first {}", k), n, all[..k].to_vec()));
        }
    }
    // (D) disconnected components: k copies of a three-clause block over disjoint variable pairs plus bridges
    {
        let n = 10;
        let mut all: Vec<Clause> = Vec::new();
        for blk in 0..5usize {
            let (x, y) = (2 * blk, 2 * blk + 1);
            all.push(vec![(x, true), (y, true)]);
            all.push(vec![(x, false), (y, false)]);
            all.push(vec![(x, blk % 2 == 0), (y, blk % 2 == 1)]);
        }
        out.push(("five independent blocks over 10 variables".into(), n, all.clone()));
        for blk in 0..4usize {
            all.push(vec![(2 * blk + 1, true), (2 * blk + 2, false), (2 * blk + 3, true)]);
        }
        out.push(("five blocks with bridges over 10 variables".into(), n, all));
    }
    out
}

fn orders(n: usize) -> Vec<Vec<usize>> {
    let id: Vec<usize> = (0..n).collect();
    let rev: Vec<usize> = (0..n).rev().collect();
    let mut inter = Vec::new();
    for i in 0..(n + 1) / 2 {
        inter.push(i);
        if i + (n + 1) / 2 < n {
            inter.push(i + (n + 1) / 2);
        }
    }
    vec![id, rev, inter]
}

/// C05: bottom-up compilation of long formulas (BDD builder under three orders, compiling under partial
/// assignments of 1 to 3 variables; SDD builder on right-linear and balanced vtrees)
pub fn bottom_up(ctx: &Ctx) -> Report {
    let fams = families(ctx);
    let mut r = par_run(ctx, &fams, |fi, (name, n, clauses)| {
        let mut rep = Report::default();
        rep.exhaustive = true;
        let n = *n;
        let want = big_of_cnf(clauses, n);
        let cnf = to_cnf(clauses);
        let case = json!({"kind": "long_cnf", "family": name});
        rep.states += 1;
        rep.traces += 1;
        for order in orders(n) {
            let b = small_builder(&order, 4);
            rep.transitions += 1;
            rep.evaluations += 1;
            let p = match guarded(|| b.compile_cnf(&cnf)) {
                Ok(p) => p,
                Err(e) => {
                    rep.violation("compile:bdd-cnf-panic", format!("{} ({} clauses), order {:?}: compile_cnf panicked: {}", name, clauses.len(), order, e), case.clone());
                    continue;
                }
            };
            match bigtt::bdd_big(p, n, &|l| Some(l)) {
                Ok(g) if g == want => {}
                Ok(g) => rep.violation("compile:bdd-cnf", format!("{} ({} clauses), order {:?}: compile_cnf has {} models, the formula {}", name, clauses.len(), order, g.count(), want.count()), case.clone()),
                Err(e) => rep.violation("compile:bdd-cnf", format!("{}: {}", name, e), case.clone()),
            }
            // under partial assignments: the same diagram as compiling and then conditioning
            for k in 0..4usize {
                let vars: Vec<usize> = (0..(1 + k % 3)).map(|t| (fi + 2 * k + 3 * t) % n).collect();
                let mut lits = Vec::new();
                let mut w = want.clone();
                for (t, &v) in vars.iter().enumerate() {
                    if lits.iter().any(|l: &rsdd::repr::Literal| l.label().value_usize() == v) {
                        continue;
                    }
                    let val = (t + k) % 2 == 0;
                    lits.push(rsdd::repr::Literal::new(VarLabel::new(v as u64), val));
                    w = w.cofactor(v, val);
                }
                let m = PartialModel::from_litvec(&lits, n);
                rep.transitions += 1;
                rep.evaluations += 2;
                match guarded(|| (b.compile_cnf_with_assignments(&cnf, &m), b.condition_model(p, &m))) {
                    Err(e) => rep.violation("compile:bdd-assign-panic", format!("{}, order {:?}: compiling under {:?} panicked: {}", name, order, vars, e), case.clone()),
                    Ok((q, c)) => {
                        if bigtt::bdd_big(q, n, &|l| Some(l)).ok().as_ref() != Some(&w) {
                            rep.violation("compile:bdd-assign", format!("{} ({} clauses), order {:?}: compile_cnf_with_assignments on variables {:?} does not denote the restricted formula", name, clauses.len(), order, vars), case.clone());
                        } else if !b.eq(q, c) {
                            rep.violation("compile:bdd-assign", format!("{} ({} clauses), order {:?}: compiling under an assignment of {:?} and compiling then conditioning give different diagrams", name, clauses.len(), order, vars), case.clone());
                        }
                    }
                }
            }
        }
        let labs: Vec<VarLabel> = (0..n).map(|v| VarLabel::new(v as u64)).collect();
        for (vn, vt) in [("right-linear", VTree::right_linear(&labs)), ("balanced", VTree::even_split(&labs, 1))] {
            rsdd::verif::set_table_capacity(4);
            let b = CompressionSddBuilder::new(vt);
            rsdd::verif::set_table_capacity(0);
            rep.transitions += 1;
            rep.evaluations += 1;
            match guarded(|| b.compile_cnf(&cnf)) {
                Err(e) => rep.violation("compile:sdd-cnf-panic", format!("{} ({} clauses), {} vtree: compile_cnf panicked: {}", name, clauses.len(), vn, e), case.clone()),
                Ok(p) => match bigtt::sdd_big(p, n, &|l| Some(l)) {
                    Ok(g) if g == want => {}
                    _ => rep.violation("compile:sdd-cnf", format!("{} ({} clauses), {} vtree: compile_cnf does not denote the formula", name, clauses.len(), vn), case.clone()),
                },
            }
        }
        rep
    });
    r.bound("long_formulas", json!({"families": "two-literal clauses over 9 variables (prefixes and suffixes), rule-defined 3-clauses over 8 and 10 variables, wide clauses of 4-7 literals, independent blocks with and without bridges", "clause_counts": ctx.tier.pick("9, 11, 15-17, 23, 31-34, 37, 40, 45, 50, 57, 63-65", "8 to 70"), "formulas": fams.len(), "compilers": "BDD builder under 3 orders (+ compiling under 4 partial assignments, compared with compiling then conditioning), SDD builder on right-linear and balanced vtrees"}));
    r.add_extra("long_formula_compilations", r.transitions);
    r
}

/// C05: very wide clauses. One clause over x0..x_{w-1} (w = 9 .. 40, polarity by rule) together with a short
/// clause over two further variables; 2^n-bit tables are out of reach at 42 variables, so every compiled diagram
/// is evaluated on the clause's single falsifying assignment and on every assignment at Hamming distance 1 and 2
/// from it (a dropped, duplicated or flipped literal of a wide clause changes the value on one of those).
pub fn wide_clauses(ctx: &Ctx) -> Report {
    let widths: Vec<usize> = (9..=ctx.tier.pick(40, 60)).collect();
    let mut r = par_run(ctx, &widths, |_, w| {
        let mut rep = Report::default();
        rep.exhaustive = true;
        let w = *w;
        let n = w + 2;
        for pat in 0..2usize {
            let wide: Clause = (0..w).map(|v| (if pat == 0 { v } else { (v * 7 + 3) % w }, if pat == 0 { v % 3 != 0 } else { v % 2 == 0 })).collect();
            let mut vs: Vec<usize> = wide.iter().map(|l| l.0).collect();
            vs.sort();
            vs.dedup();
            if vs.len() != w {
                continue;
            }
            let clauses: Vec<Clause> = vec![wide.clone(), vec![(w, true), (w + 1, false)]];
            let cnf = to_cnf(&clauses);
            let eval = |a: &[bool]| clauses.iter().all(|c| c.iter().any(|&(v, p)| a[v] == p));
            // the falsifying assignment of the wide clause (the short clause satisfied), and its neighbours
            let mut base: Vec<bool> = vec![true; n];
            for &(v, p) in wide.iter() {
                base[v] = !p;
            }
            let mut assignments: Vec<Vec<bool>> = vec![base.clone()];
            for i in 0..n {
                let mut a = base.clone();
                a[i] = !a[i];
                assignments.push(a.clone());
                for j in i + 1..n {
                    let mut c = a.clone();
                    c[j] = !c[j];
                    assignments.push(c);
                }
            }
            let case = json!({"kind": "long_cnf", "family": format!("wide clause of {} literals", w)});
            rep.states += 1;
            rep.traces += 1;
            let labs: Vec<VarLabel> = (0..n).map(|v| VarLabel::new(v as u64)).collect();
            for (vn, vt) in [("right-linear", VTree::right_linear(&labs)), ("even_split(_, 2)", VTree::even_split(&labs, 2))] {
                rsdd::verif::set_table_capacity(4);
                let b = CompressionSddBuilder::new(vt);
                rsdd::verif::set_table_capacity(0);
                rep.transitions += 1;
                match guarded(|| b.compile_cnf(&cnf)) {
                    Err(e) => rep.violation("compile:sdd-cnf-panic", format!("a clause of {} literals (pattern {}) and a short clause, {} vtree: compile_cnf panicked: {}", w, pat, vn, e), case.clone()),
                    Ok(p) => {
                        for a in assignments.iter() {
                            rep.evaluations += 1;
                            if crate::walk::sdd_eval_memo(p, a) != eval(a) {
                                rep.violation("compile:sdd-cnf", format!("a clause of {} literals (pattern {}) and a short clause, {} vtree: the compiled SDD is {} on an assignment on which the formula is {} (the wide clause's falsifying assignment with at most two variables flipped)", w, pat, vn, !eval(a), eval(a)), case.clone());
                                break;
                            }
                        }
                    }
                }
            }
            for order in [(0..n).collect::<Vec<usize>>(), (0..n).rev().collect()] {
                let b = small_builder(&order, 4);
                rep.transitions += 1;
                match guarded(|| b.compile_cnf(&cnf)) {
                    Err(e) => rep.violation("compile:bdd-cnf-panic", format!("a clause of {} literals (pattern {}) and a short clause: compile_cnf panicked: {}", w, pat, e), case.clone()),
                    Ok(p) => {
                        for a in assignments.iter() {
                            rep.evaluations += 1;
                            let bits = a.iter().enumerate().fold(0usize, |acc, (i, &x)| acc | ((x as usize) << i));
                            if crate::walk::bdd_eval(p, bits) != eval(a) {
                                rep.violation("compile:bdd-cnf", format!("a clause of {} literals (pattern {}) and a short clause, order starting {:?}: the compiled BDD is {} on an assignment on which the formula is {}", w, pat, &order[..3], !eval(a), eval(a)), case.clone());
                                break;
                            }
                        }
                    }
                }
            }
        }
        rep
    });
    r.bound("wide_clauses", json!({"widths": format!("9 to {}", ctx.tier.pick(40, 60)), "patterns": 2, "compilers": "SDD builder on right-linear and even_split(_, 2) vtrees, BDD builder in label order and reversed", "oracle": "clause evaluation on the falsifying assignment of the wide clause and all assignments at Hamming distance <= 2 from it"}));
    r.add_extra("wide_clause_compilations", r.transitions);
    r
}

/// C06: top-down compilation of the same families (both stores, three orders), conditioning of the result
pub fn top_down(ctx: &Ctx) -> Report {
    let fams = families(ctx);
    let mut r = par_run(ctx, &fams, |fi, (name, n, clauses)| {
        let mut rep = Report::default();
        rep.exhaustive = true;
        let n = *n;
        let want = big_of_cnf(clauses, n);
        let cnf = to_cnf(clauses);
        let case = json!({"kind": "long_cnf", "family": name});
        rep.states += 1;
        rep.traces += 1;
        fn one<'a, B: DecisionNNFBuilder<'a>>(b: &'a B, cnf: &rsdd::repr::Cnf, want: &Big, n: usize, fi: usize, what: &str, rep: &mut Report, case: &Value) {
            rep.transitions += 1;
            rep.evaluations += 1;
            let p = match guarded(|| b.compile_cnf_topdown(cnf)) {
                Ok(p) => p,
                Err(e) => {
                    rep.violation("topdown:panic", format!("{}: compile_cnf_topdown panicked: {}", what, e), case.clone());
                    return;
                }
            };
            if p.is_false() != want.is_false() {
                rep.violation("topdown:false-constant", format!("{}: the result is the false constant = {}, the formula is unsatisfiable = {}", what, p.is_false(), want.is_false()), case.clone());
                return;
            }
            match bigtt::bdd_big(p, n, &|l| Some(l)) {
                Ok(g) if g == *want => {}
                Ok(g) => {
                    rep.violation("topdown:wrong-models", format!("{}: the result has {} models, the formula {}", what, g.count(), want.count()), case.clone());
                    return;
                }
                Err(e) => {
                    rep.violation("topdown:wrong-models", format!("{}: {}", what, e), case.clone());
                    return;
                }
            }
            if let Some(d) = twice(p) {
                rep.violation("topdown:variable-twice", format!("{}: {}", what, d), case.clone());
            }
            for k in 0..3usize {
                let v = (fi + 3 * k) % n;
                let val = k % 2 == 0;
                for (q, x, pol) in [(p, want.clone(), ""), (p.neg(), want.not(), "negation of ")] {
                    rep.transitions += 1;
                    rep.evaluations += 1;
                    match guarded(|| b.condition(q, VarLabel::new(v as u64), val)) {
                        Err(e) => rep.violation("topdown:panic", format!("{}: conditioning panicked: {}", what, e), case.clone()),
                        Ok(c) => {
                            if bigtt::bdd_big(c, n, &|l| Some(l)).ok().as_ref() != Some(&x.cofactor(v, val)) {
                                rep.violation("topdown:condition-wrong", format!("{}: conditioning the {}result on x{} = {} does not give the restricted function", what, pol, v, val), case.clone());
                            }
                        }
                    }
                }
            }
        }
        for order in orders(n) {
            let vo = VarOrder::new(&order.iter().map(|&v| VarLabel::new(v as u64)).collect::<Vec<_>>());
            rsdd::verif::set_table_capacity(4);
            let b1 = StandardDecisionNNFBuilder::new(vo.clone());
            let b2 = SemanticDecisionNNFBuilder::<{ primes::U64_LARGEST }>::new(vo);
            rsdd::verif::set_table_capacity(0);
            one(&b1, &cnf, &want, n, fi, &format!("{} ({} clauses), order {:?}, standard store", name, clauses.len(), order), &mut rep, &case);
            one(&b2, &cnf, &want, n, fi, &format!("{} ({} clauses), order {:?}, hash-identified store", name, clauses.len(), order), &mut rep, &case);
        }
        rep
    });
    r.bound("long_formulas", json!({"families": "as in C05's long-formula regime", "formulas": fams.len(), "orders": 3, "stores": 2, "checks": "false constant iff unsatisfiable, models, no variable twice on a path, conditioning of the result and of its negation on three literals"}));
    r.add_extra("long_formula_topdown_operations", r.transitions);
    r
}

/// C06 in wide managers: formulas over eight table variables placed at labels that collide modulo 32 / 64 inside
/// managers of 40 to 300 variables (the configurations of wide.rs): a three-clause formula over every triple, a
/// chain and a parity-like formula over all eight; both stores; the result may mention table variables only
pub fn top_down_wide(ctx: &Ctx) -> Report {
    let cfgs = crate::props::wide::configs(ctx);
    let mut r = par_run(ctx, &cfgs, |_, cfg| {
        let mut rep = Report::default();
        rep.exhaustive = true;
        let n = cfg.labels.len();
        let w = cfg.width;
        let mut forms: Vec<(String, Vec<Clause>)> = Vec::new();
        for i in 0..n {
            for j in i + 1..n {
                for k in j + 1..n {
                    forms.push((format!("(x{i}|x{j})(!x{i}|x{k})(!x{j}|!x{k}|x{i})"), vec![vec![(i, true), (j, true)], vec![(i, false), (k, true)], vec![(j, false), (k, false), (i, true)]]));
                    if (i + j + k) % 3 == 0 {
                        forms.push((format!("(x{i}|x{j})(x{k}|!x{i})(x{j}|x{k})(!x{i}|!x{j}|!x{k})"), vec![vec![(i, true), (j, true)], vec![(k, true), (i, false)], vec![(j, true), (k, true)], vec![(i, false), (j, false), (k, false)]]));
                    }
                }
            }
        }
        forms.push(("implication chain over the table variables".into(), (0..n - 1).map(|i| vec![(i, false), (i + 1, true)]).collect()));
        forms.push(("pairs (x_i | x_{i+4}) and (!x_i | !x_{i+1})".into(), (0..4).map(|i| vec![(i, true), (i + 4, true)]).chain((0..n - 1).map(|i| vec![(i, false), (i + 1, false)])).collect()));
        let order: Vec<VarLabel> = (0..w).map(|x| VarLabel::new(if cfg.reversed { w - 1 - x } else { x } as u64)).collect();
        rsdd::verif::set_table_capacity(4);
        let b1 = StandardDecisionNNFBuilder::new(VarOrder::new(&order));
        let b2 = SemanticDecisionNNFBuilder::<{ primes::U64_LARGEST }>::new(VarOrder::new(&order));
        rsdd::verif::set_table_capacity(0);
        for (name, clauses) in forms.iter() {
            let want = big_of_cnf(clauses, n);
            let wide: Vec<Clause> = clauses.iter().map(|c| c.iter().map(|&(v, p)| (cfg.labels[v], p)).collect()).collect();
            let mut cnf_clauses: Vec<Vec<rsdd::repr::Literal>> = wide.iter().map(|c| c.iter().map(|&l| to_lit(l)).collect()).collect();
            // the formula is over the whole manager: a tautological clause on the last label fixes the variable count
            cnf_clauses.push(vec![rsdd::repr::Literal::new(VarLabel::new((w - 1) as u64), true), rsdd::repr::Literal::new(VarLabel::new((w - 1) as u64), false)]);
            let cnf = rsdd::repr::Cnf::new(&cnf_clauses);
            let case = json!({"kind": "long_cnf", "family": name, "wide": cfg.json()});
            rep.states += 1;
            for (store, res) in [("standard", guarded(|| b1.compile_cnf_topdown(&cnf))), ("hash-identified", guarded(|| b2.compile_cnf_topdown(&cnf)))] {
                rep.transitions += 1;
                rep.evaluations += 1;
                let what = format!("[wide manager {}] {} , {} store", cfg.json(), name, store);
                match res {
                    Err(e) => rep.violation("topdown:panic", format!("{}: compile_cnf_topdown panicked: {}", what, e), case.clone()),
                    Ok(p) => {
                        if p.is_false() != want.is_false() {
                            rep.violation("topdown:false-constant", format!("{}: the result is the false constant = {}, the formula is unsatisfiable = {}", what, p.is_false(), want.is_false()), case.clone());
                            continue;
                        }
                        match bigtt::bdd_big(p, n, &|l| cfg.labels.iter().position(|&x| x == l)) {
                            Ok(g) if g == want => {}
                            Ok(g) => rep.violation("topdown:wrong-models", format!("{}: the result has {} models over the table variables, the formula {}", what, g.count(), want.count()), case.clone()),
                            Err(e) => rep.violation("topdown:wrong-models", format!("{}: {}", what, e), case.clone()),
                        }
                    }
                }
            }
            if rep.n_violations > 8 {
                break;
            }
        }
        rep.traces += 1;
        rep
    });
    r.bound("wide_managers", json!({"configurations": cfgs.iter().map(|c| c.json()).collect::<Vec<_>>(), "formulas": "a three-clause formula over every triple of table variables, a four-clause one over every third triple, a chain and a pairing formula over all eight; both stores"}));
    r.add_extra("wide_manager_topdown_compilations", r.transitions);
    r
}

/// some path decides a variable twice (memoised per node on the set of variables above is exponential in general;
/// the diagrams here have at most 10 variables, so a path enumeration with an early exit is affordable)
fn twice(p: BddPtr) -> Option<String> {
    fn rec(p: BddPtr, above: u64, budget: &mut u64) -> Option<String> {
        if *budget == 0 {
            return None;
        }
        *budget -= 1;
        match p {
            BddPtr::PtrTrue | BddPtr::PtrFalse => None,
            BddPtr::Reg(n) | BddPtr::Compl(n) => {
                let v = n.var.value_usize();
                if (above >> v) & 1 == 1 {
                    return Some(format!("a path decides variable {} twice", v));
                }
                rec(n.low, above | (1 << v), budget).or_else(|| rec(n.high, above | (1 << v), budget))
            }
        }
    }
    let mut budget = 200_000u64;
    rec(p, 0, &mut budget)
}

pub fn replay(ctx: &Ctx, case: &Value, topdown: bool) -> Option<Report> {
    if case["kind"].as_str() == Some("long_cnf") {
        Some(if topdown {
            if case.get("wide").is_some() { top_down_wide(ctx) } else { top_down(ctx) }
        } else {
            let mut r = bottom_up(ctx);
            r.merge(wide_clauses(ctx));
            r
        })
    } else {
        None
    }
}
