//! C17 – parsing and serialisation preserve the formula.
//! Input-space enumeration: CNF texts (several layouts), s-expressions, JSON of diagrams/vtrees
//! read by the harness's own reader.

use crate::core::*;
use crate::enumerate::*;
use crate::jsonread::*;
use crate::props::bddutil::*;
use crate::tt::{self, TT};
use crate::walk::*;
use rsdd::builder::sdd::CompressionSddBuilder;
use rsdd::builder::BottomUpBuilder;
use rsdd::repr::{Cnf, DDNNFPtr, LogicalExpr, SddPtr, VarLabel};
use rsdd::serialize::{BDDSerializer, LogicalSExpr, SDDSerializer, VTreeSerializer};
use serde_json::{json, Value};

/// independent DIMACS writer with several layouts
pub fn dimacs_text(clauses: &[Clause], n: usize, style: usize) -> String {
    let mut s = String::new();
    match style {
        1 => s.push_str("c a comment line\nc another one\n"),
        _ => (),
    }
    s.push_str(&format!("p cnf {} {}\n", n, clauses.len()));
    for (i, c) in clauses.iter().enumerate() {
        for &(v, p) in c {
            let l = format!("{}{}", if p { "" } else { "-" }, v + 1);
            match style {
                2 => s.push_str(&format!("  {}\t", l)),
                _ => s.push_str(&format!("{} ", l)),
            }
        }
        s.push('0');
        if style == 3 && i + 1 < clauses.len() {
            s.push(' ');
        } else {
            s.push('\n');
        }
    }
    s
}

/// own evaluator of rsdd's LogicalExpr (a public enum): truth table over n variables
fn logical_tt(e: &LogicalExpr, n: usize) -> Result<TT, String> {
    Ok(match e {
        LogicalExpr::Literal(v, p) => {
            if *v >= n {
                return Err(format!("literal on variable index {} outside 0..{}", v, n));
            }
            tt::lit(*v, *p, n)
        }
        LogicalExpr::Not(a) => tt::not(logical_tt(a, n)?, n),
        LogicalExpr::And(a, b) => logical_tt(a, n)? & logical_tt(b, n)?,
        LogicalExpr::Or(a, b) => logical_tt(a, n)? | logical_tt(b, n)?,
        LogicalExpr::Iff(a, b) => tt::iff(logical_tt(a, n)?, logical_tt(b, n)?, n),
        LogicalExpr::Xor(a, b) => logical_tt(a, n)? ^ logical_tt(b, n)?,
        LogicalExpr::Ite { guard, thn, els } => tt::ite(logical_tt(guard, n)?, logical_tt(thn, n)?, logical_tt(els, n)?, n),
    })
}

fn clauses_of(c: &Cnf) -> Vec<Clause> {
    c.clauses().iter().map(|c| c.iter().map(|l| (l.label().value_usize(), l.polarity())).collect()).collect()
}

fn check_dimacs(clauses: &[Clause], style: usize) -> Option<(String, String)> {
    let n = num_vars(clauses);
    if n == 0 {
        return None; // "p cnf 0 k" is rejected by the DIMACS reader: no variable, nothing to number
    }
    let f = tt::of_cnf(clauses, n);
    let text = dimacs_text(clauses, n, style);
    // Cnf::from_dimacs: DIMACS variable k is label k-1
    match guarded(|| Cnf::from_dimacs(&text)) {
        Ok(c) => {
            let cl = clauses_of(&c);
            if num_vars(&cl) > n {
                return Some(("dimacs-cnf".into(), format!("layout {}: parsed CNF mentions variable {} (text has {})", style, num_vars(&cl), n)));
            }
            let g = tt::of_cnf(&cl, n);
            if g != f || cl.len() != clauses.len() {
                return Some(("dimacs-cnf".into(), format!("layout {}: Cnf::from_dimacs has models {:#x} / {} clauses, the text {:#x} / {}", style, g, cl.len(), f, clauses.len())));
            }
            // print to clause lines and parse again: same clause sets
            let again = format!("p cnf {} {}{}\n", n, cl.len(), c.to_dimacs());
            match guarded(|| Cnf::from_dimacs(&again)) {
                Ok(c2) => {
                    let sets = |v: &Vec<Clause>| -> Vec<std::collections::BTreeSet<Lit>> { v.iter().map(|c| c.iter().cloned().collect()).collect() };
                    if sets(&clauses_of(&c2)) != sets(&cl) {
                        return Some(("dimacs-roundtrip".into(), format!("to_dimacs then from_dimacs changes the clause sets: {:?} -> {:?}", cl, clauses_of(&c2))));
                    }
                }
                Err(p) => return Some(("dimacs-roundtrip".into(), format!("re-parsing to_dimacs output {:?} panicked: {}", again, p))),
            }
            // formulas are objects with histories: the same round trip for every formula obtained by
            // conditioning the (already printed) parsed formula on a literal, for a copy of it, and for the
            // parent once more after its children were printed
            if style == 0 && !crate::core::disabled("derived_print") {
                let sets = |v: &Vec<Clause>| -> Vec<std::collections::BTreeSet<Lit>> { v.iter().map(|c| c.iter().cloned().collect()).collect() };
                let round = |x: &Cnf, what: &str| -> Option<(String, String)> {
                    let xc = clauses_of(x);
                    if xc.is_empty() {
                        // the DIMACS reader rejects a header announcing 0 clauses, so an empty formula cannot be
                        // re-parsed; what it prints must simply contain no clause line
                        let t = x.to_dimacs();
                        return if t.trim().is_empty() { None } else { Some(("dimacs-roundtrip".into(), format!("{}: the formula has no clause but to_dimacs prints {:?}", what, t))) };
                    }
                    let nx = num_vars(&xc).max(1);
                    let t = format!("p cnf {} {}{}\n", nx.max(n), xc.len(), x.to_dimacs());
                    match guarded(|| Cnf::from_dimacs(&t)) {
                        Ok(y) => {
                            if sets(&clauses_of(&y)) != sets(&xc) {
                                Some(("dimacs-roundtrip".into(), format!("{}: to_dimacs prints {:?}, which parses to {:?}; the formula's clauses are {:?}", what, t, clauses_of(&y), xc)))
                            } else {
                                None
                            }
                        }
                        Err(p) => Some(("dimacs-roundtrip".into(), format!("{}: re-parsing {:?} panicked: {}", what, t, p))),
                    }
                };
                for v in 0..n {
                    for pol in [true, false] {
                        let d = match guarded(|| c.condition(rsdd::repr::Literal::new(rsdd::repr::VarLabel::new(v as u64), pol))) {
                            Ok(d) => d,
                            Err(_) => continue, // conditioning is C15's business
                        };
                        if let Some(e) = round(&d, &format!("the formula conditioned on {}x{} after its parent was printed", if pol { "" } else { "-" }, v + 1)) {
                            return Some(e);
                        }
                        // a grandchild of two printed ancestors
                        if v + 1 < n {
                            if let Ok(dd) = guarded(|| d.condition(rsdd::repr::Literal::new(rsdd::repr::VarLabel::new((v + 1) as u64), !pol))) {
                                if let Some(e) = round(&dd, "a formula conditioned twice, each parent printed before") {
                                    return Some(e);
                                }
                            }
                        }
                    }
                }
                if let Some(e) = round(&c.clone(), "a copy of the printed formula") {
                    return Some(e);
                }
                if let Some(e) = round(&c, "the parent formula, printed again after its children") {
                    return Some(e);
                }
            }
        }
        Err(p) => return Some(("dimacs-cnf".into(), format!("layout {}: Cnf::from_dimacs panicked on {:?}: {}", style, text, p))),
    }
    // LogicalExpr::from_dimacs: labels are the DIMACS numbers (as its documentation shows)
    if !clauses.is_empty() && clauses.iter().all(|c| !c.is_empty()) {
        match guarded(|| LogicalExpr::from_dimacs(&text)) {
            Ok(e) => match logical_tt(&e, n + 1) {
                Ok(g) => {
                    // shift: variable k of the text is label k of the expression
                    let shifted: Vec<Clause> = clauses.iter().map(|c| c.iter().map(|&(v, p)| (v + 1, p)).collect()).collect();
                    let want = tt::of_cnf(&shifted, n + 1);
                    if g != want {
                        return Some(("dimacs-expr".into(), format!("layout {}: LogicalExpr::from_dimacs denotes {:#x}, the text {:#x}", style, g, want)));
                    }
                }
                Err(m) => return Some(("dimacs-expr".into(), m)),
            },
            Err(p) => return Some(("dimacs-expr".into(), format!("LogicalExpr::from_dimacs panicked: {}", p))),
        }
    }
    None
}

/// DIMACS texts over sparse, large variable numbers: the parsed clause list must be the
/// written one literal for literal (Cnf, 0-based), and the expression's models over the
/// occurring variables must be the CNF's (LogicalExpr, labels = DIMACS numbers)
fn check_dimacs_sparse(clauses: &[Clause], map: &[usize], style: usize) -> Option<(String, String)> {
    let k = map.len();
    let wide: Vec<Clause> = clauses.iter().map(|c| c.iter().map(|&(v, p)| (map[v], p)).collect()).collect();
    let nn = num_vars(&wide);
    if nn == 0 {
        return None;
    }
    let text = dimacs_text(&wide, nn, style);
    match guarded(|| Cnf::from_dimacs(&text)) {
        Ok(c) => {
            let cl = clauses_of(&c);
            // a clause is a set of literals and a CNF a multiset of clauses: order is not semantic
            let norm = |v: &Vec<Clause>| -> Vec<std::collections::BTreeSet<Lit>> {
                let mut x: Vec<std::collections::BTreeSet<Lit>> = v.iter().map(|c| c.iter().cloned().collect()).collect();
                x.sort();
                x
            };
            if norm(&cl) != norm(&wide) {
                return Some(("dimacs-cnf".into(), format!("layout {}: Cnf::from_dimacs gives {:?}, the text says {:?}", style, cl, wide)));
            }
        }
        Err(p) => return Some(("dimacs-cnf".into(), format!("layout {}: Cnf::from_dimacs panicked on {:?}: {}", style, text, p))),
    }
    if !clauses.is_empty() && clauses.iter().all(|c| !c.is_empty()) {
        fn ev(e: &LogicalExpr, k: usize, idx: &dyn Fn(usize) -> Option<usize>) -> Result<TT, String> {
            Ok(match e {
                LogicalExpr::Literal(v, p) => tt::lit(idx(*v).ok_or_else(|| format!("literal on label {} which the text does not mention", v))?, *p, k),
                LogicalExpr::Not(a) => tt::not(ev(a, k, idx)?, k),
                LogicalExpr::And(a, b) => ev(a, k, idx)? & ev(b, k, idx)?,
                LogicalExpr::Or(a, b) => ev(a, k, idx)? | ev(b, k, idx)?,
                LogicalExpr::Iff(a, b) => tt::iff(ev(a, k, idx)?, ev(b, k, idx)?, k),
                LogicalExpr::Xor(a, b) => ev(a, k, idx)? ^ ev(b, k, idx)?,
                LogicalExpr::Ite { guard, thn, els } => tt::ite(ev(guard, k, idx)?, ev(thn, k, idx)?, ev(els, k, idx)?, k),
            })
        }
        // DIMACS variable (label + 1) is the expression's label
        let idx = |l: usize| map.iter().position(|&m| m + 1 == l);
        match guarded(|| LogicalExpr::from_dimacs(&text)) {
            Ok(e) => match ev(&e, k, &idx) {
                Ok(g) => {
                    let want = tt::of_cnf(clauses, k);
                    if g != want {
                        return Some(("dimacs-expr".into(), format!("layout {}: LogicalExpr::from_dimacs denotes {:#x} over the occurring variables, the text {:#x}", style, g, want)));
                    }
                }
                Err(m) => return Some(("dimacs-expr".into(), m)),
            },
            Err(p) => return Some(("dimacs-expr".into(), format!("LogicalExpr::from_dimacs panicked: {}", p))),
        }
    }
    None
}

/// naming schemes for the s-expression variables: single letters, and names of different
/// lengths whose length order disagrees with the documented lexicographic order
const NAME_SCHEMES: [[&str; 6]; 3] = [["A", "B", "C", "D", "E", "F"], ["b", "aa", "ab", "c", "ba", "a"], ["x10", "x2", "x1", "x", "x20", "x3"]];

fn check_sexpr(e: &Ex) -> Option<(String, String)> {
    for names in NAME_SCHEMES.iter() {
        if let Some(r) = check_sexpr_named(e, names) {
            return Some(r);
        }
    }
    None
}

fn check_sexpr_named(e: &Ex, names: &[&str; 6]) -> Option<(String, String)> {
    let (f, n) = e.tt();
    let text = e.sexpr_named(names);
    let parsed = match guarded(|| serde_sexpr::from_str::<LogicalSExpr>(&text)) {
        Ok(Ok(p)) => p,
        Ok(Err(x)) => return Some(("sexpr-parse".into(), format!("{} does not parse: {}", text, x))),
        Err(p) => return Some(("sexpr-parse".into(), format!("parser panicked: {}", p))),
    };
    // documented numbering: names sorted lexicographically
    let mapping = parsed.variable_mapping();
    let vars: Vec<usize> = e.vars();
    let mut sorted: Vec<&str> = vars.iter().map(|v| names[*v]).collect();
    sorted.sort();
    // rank[i] = documented index of the i-th variable of e.vars()
    let rank: Vec<usize> = vars.iter().map(|v| sorted.iter().position(|s| *s == names[*v]).unwrap()).collect();
    for (i, v) in vars.iter().enumerate() {
        let got = mapping.get(&names[*v].to_string()).cloned();
        if got != Some(rank[i]) {
            return Some(("sexpr-numbering".into(), format!("{}: variable {} is numbered {:?}, lexicographic position {}", text, names[*v], got, rank[i])));
        }
    }
    if mapping.len() != n || parsed.unique_variables().len() != n {
        return Some(("sexpr-numbering".into(), format!("{}: {} variables reported, {} occur", text, mapping.len(), n)));
    }
    // the text's function over the documented numbering: table variable rank[i] is the i-th
    // variable of the harness's own table f
    let mut want: TT = 0;
    for a in 0..(1usize << n) {
        let mut mine = 0usize;
        for i in 0..n {
            if (a >> rank[i]) & 1 == 1 {
                mine |= 1 << i;
            }
        }
        if tt::eval(f, mine) {
            want |= 1 << a;
        }
    }
    match guarded(|| LogicalExpr::from_sexpr(&parsed)) {
        Ok(le) => match logical_tt(&le, n) {
            Ok(g) => {
                if g != want {
                    return Some(("sexpr-models".into(), format!("{} parses to an expression denoting {:#x}, the text denotes {:#x} under the lexicographic numbering", text, g, want)));
                }
            }
            Err(m) => return Some(("sexpr-models".into(), m)),
        },
        Err(p) => return Some(("sexpr-models".into(), format!("from_sexpr panicked: {}", p))),
    }
    None
}

fn sdd_shannon<'a>(b: &'a CompressionSddBuilder<'a>, t: TT, v: usize, n: usize) -> SddPtr<'a> {
    if t == 0 {
        return SddPtr::PtrFalse;
    }
    if t == tt::mask(n) {
        return SddPtr::PtrTrue;
    }
    if !tt::depends_on(t, v, n) {
        return sdd_shannon(b, t, v + 1, n);
    }
    let hi = sdd_shannon(b, tt::cofactor(t, v, true, n), v + 1, n);
    let lo = sdd_shannon(b, tt::cofactor(t, v, false, n), v + 1, n);
    b.ite(SddPtr::Var(VarLabel::new(v as u64), true), hi, lo)
}

fn json_bdd_config(order: &[usize], n: usize, fstep: usize) -> Report {
    let mut r = Report::default();
    r.exhaustive = true;
    let b = small_builder(order, 2);
    let total = 1u64 << (1u64 << n);
    let mut f = 0;
    while f < total {
        let p = build_bdd(&b, f, n);
        if bdd_tt(p, n) == f {
            for (ptr, want) in [(p, f), (p.neg(), tt::not(f, n)), (b.smooth(p, n), f)] {
                r.transitions += 1;
                let v = match guarded(|| serde_json::to_value(BDDSerializer::from_bdd(ptr))) {
                    Ok(Ok(v)) => v,
                    _ => {
                        r.violation("json:bdd", format!("serialising {:#x} (order {:?}) failed", want, order), json!({"kind": "json_bdd", "order": order, "n": n, "function": format!("{:#x}", f)}));
                        continue;
                    }
                };
                match bdd_json_tt(&v, 0, n) {
                    Ok(g) if g == want => (),
                    Ok(g) => r.violation("json:bdd", format!("order {:?}: JSON of {:#x} reads back as {:#x}: {}", order, want, g, v), json!({"kind": "json_bdd", "order": order, "n": n, "function": format!("{:#x}", f)})),
                    Err(e) => r.violation("json:bdd", format!("order {:?}: JSON of {:#x} unreadable ({}): {}", order, want, e, v), json!({"kind": "json_bdd", "order": order, "n": n, "function": format!("{:#x}", f)})),
                }
            }
        }
        r.states += 1;
        if r.n_violations > 8 {
            break;
        }
        f += fstep as u64;
    }
    r
}

fn json_sdd_config(vt: &VT, n: usize, fstep: usize) -> Report {
    let mut r = Report::default();
    r.exhaustive = true;
    rsdd::verif::set_table_capacity(2);
    let b = CompressionSddBuilder::new(vt.to_rsdd());
    rsdd::verif::set_table_capacity(0);
    let total = 1u64 << (1u64 << n);
    let mut f = 0;
    while f < total {
        let p = sdd_shannon(&b, f, 0, n);
        if sdd_tt(p, n) == f {
            for (ptr, want) in [(p, f), (p.neg(), tt::not(f, n))] {
                r.transitions += 1;
                let v = match guarded(|| serde_json::to_value(SDDSerializer::from_sdd(ptr))) {
                    Ok(Ok(v)) => v,
                    _ => {
                        r.violation("json:sdd", format!("serialising {:#x} (vtree {}) failed", want, vt.show()), json!({"kind": "json_sdd", "vtree": vt.show(), "n": n, "function": format!("{:#x}", f)}));
                        continue;
                    }
                };
                match sdd_json_tt(&v, 0, n) {
                    Ok(g) if g == want => (),
                    Ok(g) => r.violation("json:sdd", format!("vtree {}: JSON of {:#x} reads back as {:#x}: {}", vt.show(), want, g, v), json!({"kind": "json_sdd", "vtree": vt.show(), "n": n, "function": format!("{:#x}", f)})),
                    Err(e) => r.violation("json:sdd", format!("vtree {}: JSON of {:#x} unreadable ({}): {}", vt.show(), want, e, v), json!({"kind": "json_sdd", "vtree": vt.show(), "n": n, "function": format!("{:#x}", f)})),
                }
            }
        }
        r.states += 1;
        if r.n_violations > 8 {
            break;
        }
        f += fstep as u64;
    }
    r
}

pub fn run(ctx: &Ctx) -> Report {
    let mut rep = Report::new(
        "DIMACS: every clause list of the family with >= 1 variable, written by the harness in 4 layouts (plain, comments, tabs/extra blanks, clauses sharing a line), parsed by Cnf::from_dimacs (0-based) and LogicalExpr::from_dimacs (labels = DIMACS numbers), models compared; to_dimacs + header re-parsed; s-expressions: every tree with <= k connectives over names {A,B,C} parsed and converted, models compared under the lexicographic numbering; JSON: every function of <= 3 (4) variables as BDD in every order (both polarities and smoothed) and as SDD in every vtree, and every vtree with <= 5 leaves, serialised and read back by the harness's own reader; distinct = (input, layout/configuration)",
    );
    // DIMACS
    let mut fams: Vec<(usize, Vec<Vec<usize>>, &str)> = Vec::new();
    match ctx.tier {
        Tier::Quick => {
            fams.push((3, sequences(64, 2), "n3_sequences_le2"));
            fams.push((3, multisets(64, 3).into_iter().filter(|m| m.len() == 3).step_by(41).collect(), "n3_multisets_3_every_41st"));
        }
        Tier::Thorough => {
            fams.push((3, sequences(64, 2), "n3_sequences_le2"));
            fams.push((3, multisets(64, 3).into_iter().filter(|m| m.len() == 3).collect(), "n3_multisets_3"));
            fams.push((4, multisets(256, 2).into_iter().step_by(3).collect(), "n4_multisets_le2_every_3rd"));
        }
    }
    for (n, mut sets, name) in fams {
        let types = clause_types(n);
        ctx.rotate(&mut sets);
        let chunks: Vec<&[Vec<usize>]> = sets.chunks(256).collect();
        let fam = par_run(ctx, &chunks, |_, chunk| {
            let mut r = Report::default();
            r.exhaustive = true;
            for s in chunk.iter() {
                let clauses: Vec<Clause> = s.iter().map(|&i| types[i].clone()).collect();
                r.states += 1;
                for style in 0..4 {
                    r.transitions += 1;
                    r.traces += 1;
                    if let Some((k, w)) = check_dimacs(&clauses, style) {
                        r.violation(format!("parse:{}", k), format!("cnf {}: {}", cnf_json(&clauses), w), json!({"kind": "dimacs", "cnf": cnf_json(&clauses), "style": style}));
                    }
                }
                if r.n_violations > 16 {
                    break;
                }
            }
            r
        });
        rep.add_extra(&format!("{}_clause_lists", name), fam.states);
        rep.merge(fam);
    }
    // long inputs: one clause with k = 1..maxk literals and lists of k unit clauses, where the
    // elements at positions i (and j) are the only ones on x2 (x3) and all others repeat x1:
    // losing or duplicating any single element of the list changes the models
    {
        let maxk = ctx.tier.pick(16, 24);
        let lists = long_lists(maxk);
        let chunks: Vec<&[Vec<Clause>]> = lists.chunks(128).collect();
        let fam = par_run(ctx, &chunks, |_, chunk| {
            let mut r = Report::default();
            r.exhaustive = true;
            for clauses in chunk.iter() {
                r.states += 1;
                for style in [0usize, 3] {
                    r.transitions += 1;
                    r.traces += 1;
                    if let Some((k, w)) = check_dimacs(clauses, style) {
                        r.violation(format!("parse:{}", k), format!("cnf {}: {}", cnf_json(clauses), w), json!({"kind": "dimacs", "cnf": cnf_json(clauses), "style": style}));
                    }
                }
                if r.n_violations > 16 {
                    break;
                }
            }
            r
        });
        rep.add_extra("long_clause_lists", fam.states);
        rep.bound("long_inputs", json!({"max_literals_per_clause": maxk, "max_clauses": maxk, "marked_positions": "every i <= j"}));
        rep.merge(fam);
    }
    // sparse, large variable numbers
    {
        let t3 = clause_types(3);
        let mut sets = sequences(64, 2);
        if ctx.tier == Tier::Thorough {
            sets.extend(multisets(64, 3).into_iter().filter(|m| m.len() == 3).step_by(7));
        }
        let maps: Vec<[usize; 3]> = vec![[0, 64, 1], [63, 64, 127], [999, 0, 65535]];
        let chunks: Vec<&[Vec<usize>]> = sets.chunks(128).collect();
        let fam = par_run(ctx, &chunks, |_, chunk| {
            let mut r = Report::default();
            r.exhaustive = true;
            for s in chunk.iter() {
                let clauses: Vec<Clause> = s.iter().map(|&i| t3[i].clone()).collect();
                for m in maps.iter() {
                    r.states += 1;
                    for style in [0usize, 2] {
                        r.transitions += 1;
                        r.traces += 1;
                        if let Some((k, w)) = check_dimacs_sparse(&clauses, m, style) {
                            r.violation(format!("parse:{}", k), format!("cnf {} relabelled by {:?}: {}", cnf_json(&clauses), m, w), json!({"kind": "dimacs_sparse", "cnf": cnf_json(&clauses), "map": m.to_vec(), "style": style}));
                        }
                    }
                }
                if r.n_violations > 16 {
                    break;
                }
            }
            r
        });
        rep.add_extra("sparse_number_clause_lists", fam.states);
        rep.bound("sparse_variable_numbers", json!({"label_maps": maps.iter().map(|m| m.to_vec()).collect::<Vec<_>>(), "cnfs": sets.len()}));
        rep.merge(fam);
    }
    // s-expressions
    let k = 3;
    let mut ex = exprs_up_to(k, 3);
    if ctx.tier == Tier::Thorough {
        let four: Vec<Ex> = exprs_up_to(4, 3).into_iter().skip(ex.len()).step_by(7).collect();
        rep.bound("s_expressions_4_connectives", json!({"trees": four.len(), "rule": "every 7th tree with exactly 4 connectives"}));
        ex.extend(four);
    }
    ctx.rotate(&mut ex);
    let chunks: Vec<&[Ex]> = ex.chunks(512).collect();
    let fam = par_run(ctx, &chunks, |_, chunk| {
        let mut r = Report::default();
        r.exhaustive = true;
        for e in chunk.iter() {
            r.states += 1;
            r.transitions += 1;
            r.traces += 1;
            if let Some((k, w)) = check_sexpr(e) {
                r.violation(format!("parse:{}", k), w, json!({"kind": "sexpr", "expr": e.sexpr()}));
            }
            if r.n_violations > 16 {
                break;
            }
        }
        r
    });
    rep.add_extra("s_expressions", fam.states);
    rep.merge(fam);
    // JSON of diagrams
    let mut items: Vec<(bool, usize, Vec<usize>, VT, usize)> = Vec::new();
    for n in 1..=ctx.tier.pick(3, 4) {
        for o in permutations(n) {
            items.push((true, n, o, VT::Leaf(0), if n == 4 { 3 } else { 1 }));
        }
        for v in all_vtrees(n) {
            items.push((false, n, vec![], v, if n == 4 { 11 } else { 1 }));
        }
    }
    items.reverse();
    let j = par_run(ctx, &items, |_, (is_bdd, n, o, vt, step)| if *is_bdd { json_bdd_config(o, *n, *step) } else { json_sdd_config(vt, *n, *step) });
    rep.add_extra("diagrams_serialised", j.transitions);
    rep.merge(j);
    if !disabled("deepjson") {
        rep.merge(json_deep_all(ctx));
    }
    // vtrees
    let mut trees: Vec<VT> = Vec::new();
    for n in 1..=ctx.tier.pick(4, 5) {
        trees.extend(all_vtrees(n));
    }
    let mut vr = Report::default();
    vr.exhaustive = true;
    for t in trees.iter() {
        vr.states += 1;
        vr.transitions += 1;
        let v = match guarded(|| serde_json::to_value(VTreeSerializer::from_vtree(&t.to_rsdd()))) {
            Ok(Ok(v)) => v,
            _ => {
                vr.violation("json:vtree", format!("serialising vtree {} failed", t.show()), json!({"kind": "json_vtree", "vtree": t.show()}));
                continue;
            }
        };
        match vtree_json(&v) {
            Ok(back) if back == *t => (),
            Ok(back) => vr.violation("json:vtree", format!("vtree {} reads back as {}", t.show(), back.show()), json!({"kind": "json_vtree", "vtree": t.show()})),
            Err(e) => vr.violation("json:vtree", format!("vtree {}: JSON unreadable: {}", t.show(), e), json!({"kind": "json_vtree", "vtree": t.show()})),
        }
    }
    rep.add_extra("vtrees_serialised", vr.states);
    rep.merge(vr);
    rep.evaluations = rep.transitions;
    rep.distinct_nontrivial = rep.transitions;
    rep.sample(json!({"dimacs": "p cnf 3 2\n1 -2 0 -3 2 0\n", "expect": "models of (x1 | -x2) & (-x3 | x2) under labels 0..2 (Cnf) / 1..3 (LogicalExpr)"}));
    rep.sample(json!({"sexpr": "(Ite (Var B) (Not (Var A)) (Var C))", "numbering": {"A": 0, "B": 1, "C": 2}}));
    rep.assumptions.push("texts with 0 variables are rejected by the DIMACS reader and excluded; LogicalExpr::from_dimacs needs >= 1 clause and no empty clause (its target type has no constants); s-expression constants are unimplemented (todo!) and outside the statement".into());
    rep
}

pub fn replay(_ctx: &Ctx, case: &Value) -> Report {
    let mut rep = Report::default();
    let arr = |v: &Value| -> Vec<usize> { v.as_array().map(|a| a.iter().filter_map(|x| x.as_u64()).map(|x| x as usize).collect()).unwrap_or_default() };
    match case["kind"].as_str() {
        Some("dimacs_sparse") => {
            let c = cnf_from_json(&case["cnf"]);
            let m = arr(&case["map"]);
            if m.len() == 3 {
                if let Some((k, w)) = check_dimacs_sparse(&c, &m, case["style"].as_u64().unwrap_or(0) as usize) {
                    rep.violation(format!("parse:{}", k), w, case.clone());
                }
            }
        }
        Some("dimacs") => {
            let c = cnf_from_json(&case["cnf"]);
            if let Some((k, w)) = check_dimacs(&c, case["style"].as_u64().unwrap_or(0) as usize) {
                rep.violation(format!("parse:{}", k), w, case.clone());
            }
        }
        Some("sexpr") => {
            if let Some(e) = Ex::parse(case["expr"].as_str().unwrap_or("")) {
                if let Some((k, w)) = check_sexpr(&e) {
                    rep.violation(format!("parse:{}", k), w, case.clone());
                }
            }
        }
        Some("json_deep") => rep.merge(json_deep(case["n"].as_u64().unwrap_or(66) as usize, case["shape"].as_u64().unwrap_or(0) as usize)),
        Some("json_bdd") => rep.merge(json_bdd_config(&arr(&case["order"]), case["n"].as_u64().unwrap_or(3) as usize, 1)),
        Some("json_sdd") => rep.merge(json_sdd_config(&VT::parse(case["vtree"].as_str().unwrap_or("0")).unwrap_or(VT::Leaf(0)), case["n"].as_u64().unwrap_or(3) as usize, 1)),
        Some("json_vtree") => {
            if let Some(t) = VT::parse(case["vtree"].as_str().unwrap_or("")) {
                if let Ok(Ok(v)) = guarded(|| serde_json::to_value(VTreeSerializer::from_vtree(&t.to_rsdd()))) {
                    if vtree_json(&v).ok() != Some(t.clone()) {
                        rep.violation("json:vtree", format!("vtree {} does not read back", t.show()), case.clone());
                    }
                }
            }
        }
        _ => {}
    }
    rep
}

// ---------------------------------------------------------------------------------------------
// deep diagrams: 66 to 300 variables (serialisers are recursive walks with index tables; depth, table size
// and label thresholds are only reached here). The JSON is evaluated under rule-defined assignments by a
// memoised reader and compared with the function's definition.

fn json_eval(v: &Value, a: &[bool], sdd: bool) -> Result<bool, String> {
    let nodes = v["nodes"].as_array().ok_or("no nodes array")?;
    let root = v["roots"].as_array().and_then(|r| r.first()).ok_or("no root")?;
    fn ptr(p: &Value, nodes: &[Value], a: &[bool], sdd: bool, memo: &mut Vec<Option<bool>>, depth: usize) -> Result<bool, String> {
        if depth > 4096 {
            return Err("cyclic node table".into());
        }
        if p.as_str() == Some("True") {
            return Ok(true);
        }
        if p.as_str() == Some("False") {
            return Ok(false);
        }
        if let Some(l) = p.get("Literal") {
            let label = l["label"].as_u64().ok_or("no label")? as usize;
            let pol = l["polarity"].as_bool().ok_or("no polarity")?;
            return Ok(*a.get(label).ok_or(format!("label {} out of range", label))? == pol);
        }
        let q = p.get("Ptr").ok_or(format!("bad pointer {}", p))?;
        let idx = q["index"].as_u64().ok_or("no index")? as usize;
        let compl = q["compl"].as_bool().ok_or("no compl flag")?;
        let val = match memo.get(idx).cloned().ok_or(format!("index {} out of range", idx))? {
            Some(b) => b,
            None => {
                let nd = &nodes[idx];
                let b = if sdd {
                    let ands = nd.as_array().or_else(|| nd.get("nodes").and_then(|x| x.as_array())).ok_or(format!("node {} is not a list of elements", idx))?;
                    let mut t = false;
                    for e in ands {
                        if ptr(&e["prime"], nodes, a, sdd, memo, depth + 1)? && ptr(&e["sub"], nodes, a, sdd, memo, depth + 1)? {
                            t = true;
                        }
                    }
                    t
                } else {
                    let var = nd["topvar"].as_u64().ok_or("no topvar")? as usize;
                    if *a.get(var).ok_or(format!("topvar {} out of range", var))? {
                        ptr(&nd["high"], nodes, a, sdd, memo, depth + 1)?
                    } else {
                        ptr(&nd["low"], nodes, a, sdd, memo, depth + 1)?
                    }
                };
                memo[idx] = Some(b);
                b
            }
        };
        Ok(val != compl)
    }
    let mut memo = vec![None; nodes.len()];
    ptr(root, nodes, a, sdd, &mut memo, 0)
}

/// the deep functions over n variables (m = n / 2): definitions on assignments
fn deep_value(kind: usize, a: &[bool]) -> bool {
    let n = a.len();
    let m = n / 2;
    let par = |r: std::ops::Range<usize>| r.fold(false, |x, i| x ^ a[i]);
    match kind {
        0 => a.iter().all(|&x| x),
        1 => par(0..n),
        2 => {
            if par(0..m) {
                (m..n).all(|i| a[i])
            } else {
                par(m..n)
            }
        }
        _ => (0..m).all(|i| a[i] || a[i + m]),
    }
}

fn deep_assignments(n: usize) -> Vec<Vec<bool>> {
    let mut out = vec![vec![true; n], vec![false; n], (0..n).map(|i| i % 2 == 0).collect::<Vec<_>>(), (0..n).map(|i| i % 3 != 0).collect::<Vec<_>>()];
    for k in 0..24usize {
        let pos = (k * 37 + 5) % n;
        let mut a = vec![true; n];
        a[pos] = false;
        out.push(a.clone());
        a[(pos + n / 2) % n] = false;
        out.push(a);
        let mut z = vec![false; n];
        z[pos] = true;
        out.push(z);
        // first half of odd parity, second half all true except possibly one
        let mut h = vec![true; n];
        for i in 0..n / 2 {
            h[i] = i == pos % (n / 2).max(1) || (i + k) % 5 == 0;
        }
        out.push(h.clone());
        h[n / 2 + pos % (n - n / 2)] = false;
        out.push(h);
    }
    out
}

fn json_deep(n: usize, shape: usize) -> Report {
    use rsdd::repr::{BddPtr, VTree};
    let mut r = Report::default();
    r.exhaustive = true;
    let labs: Vec<VarLabel> = (0..n).map(|v| VarLabel::new(v as u64)).collect();
    let assignments = deep_assignments(n);
    let case = json!({"kind": "json_deep", "n": n, "shape": shape});
    let names = ["conjunction of all variables", "parity of all variables", "ite(parity of the first half, conjunction of the second half, parity of the second half)", "conjunction of the clauses (x_i | x_{i+m})"];
    if shape < 4 {
        let (sn, vt) = match shape {
            0 => ("right-linear", VTree::right_linear(&labs)),
            1 => ("left-linear", VTree::left_linear(&labs)),
            2 => ("even_split(_, 1)", VTree::even_split(&labs, 1)),
            _ => ("even_split(_, 3)", VTree::even_split(&labs, 3)),
        };
        rsdd::verif::set_table_capacity(4);
        let b = CompressionSddBuilder::new(vt);
        rsdd::verif::set_table_capacity(0);
        let lit = |i: usize| b.var(VarLabel::new(i as u64), true);
        let m = n / 2;
        let build = |kind: usize| -> SddPtr {
            let conj = |r: std::ops::Range<usize>| r.fold(SddPtr::PtrTrue, |acc, i| b.and(acc, lit(i)));
            let par = |r: std::ops::Range<usize>| r.fold(SddPtr::PtrFalse, |acc, i| b.xor(acc, lit(i)));
            match kind {
                0 => conj(0..n),
                1 => par(0..n),
                2 => b.ite(par(0..m), conj(m..n), par(m..n)),
                _ => (0..m).fold(SddPtr::PtrTrue, |acc, i| b.and(acc, b.or(lit(i), lit(i + m)))),
            }
        };
        for kind in 0..4usize {
            // the pairing clauses are exponential on vtrees that separate x_i from x_{i+m}
            // measured: the pairing clauses are exponential on every one of these vtrees and the ite of the halves
            // is on the left-linear vtree (minutes at 66 variables): both are left out there
            if kind == 3 || (kind == 2 && shape == 1) {
                continue;
            }
            if let Ok(k) = std::env::var("VERIF_KINDS") {
                if !k.contains(&format!("{}", kind)) {
                    continue;
                }
            }
            let p = match guarded(|| build(kind)) {
                Ok(p) => p,
                Err(_) => continue, // construction is C03's business
            };
            for (ptr, neg) in [(p, false), (p.neg(), true)] {
                r.transitions += 1;
                r.states += 1;
                let v = match guarded(|| serde_json::to_value(SDDSerializer::from_sdd(ptr))) {
                    Ok(Ok(v)) => v,
                    _ => {
                        r.violation("json:sdd", format!("serialising the {}{} over {} variables ({} vtree) failed", if neg { "negated " } else { "" }, names[kind], n, sn), case.clone());
                        continue;
                    }
                };
                for a in assignments.iter() {
                    r.evaluations += 1;
                    // only diagrams that denote the function are serialised (construction is C03's business)
                    if crate::walk::sdd_eval_memo(ptr, a) != (deep_value(kind, a) != neg) {
                        break;
                    }
                    match json_eval(&v, a, true) {
                        Ok(g) if g == (deep_value(kind, a) != neg) => {}
                        Ok(g) => {
                            r.violation("json:sdd", format!("{} vtree over {} variables: the JSON of the {}{} evaluates to {} where the function is {} ({} nodes in the table)", sn, n, if neg { "negated " } else { "" }, names[kind], g, !g, v["nodes"].as_array().map(|x| x.len()).unwrap_or(0)), case.clone());
                            break;
                        }
                        Err(e) => {
                            r.violation("json:sdd", format!("{} vtree over {} variables: the JSON of the {}{} is unreadable: {}", sn, n, if neg { "negated " } else { "" }, names[kind], e), case.clone());
                            break;
                        }
                    }
                }
            }
        }
    } else {
        // BDD in label order (shape 4) and in reversed label order (shape 5)
        let order: Vec<usize> = if shape == 4 { (0..n).collect() } else { (0..n).rev().collect() };
        let b = small_builder(&order, 4);
        let lit = |i: usize| b.var(VarLabel::new(i as u64), true);
        let m = n / 2;
        for kind in 0..3usize {
            let p = match guarded(|| {
                let conj = |r: std::ops::Range<usize>| r.fold(BddPtr::PtrTrue, |acc, i| b.and(acc, lit(i)));
                let par = |r: std::ops::Range<usize>| r.fold(BddPtr::PtrFalse, |acc, i| b.xor(acc, lit(i)));
                match kind {
                    0 => conj(0..n),
                    1 => par(0..n),
                    _ => b.ite(par(0..m), conj(m..n), par(m..n)),
                }
            }) {
                Ok(p) => p,
                Err(_) => continue,
            };
            for (ptr, neg) in [(p, false), (p.neg(), true)] {
                r.transitions += 1;
                r.states += 1;
                let v = match guarded(|| serde_json::to_value(BDDSerializer::from_bdd(ptr))) {
                    Ok(Ok(v)) => v,
                    _ => {
                        r.violation("json:bdd", format!("serialising the {}{} over {} variables failed", if neg { "negated " } else { "" }, names[kind], n), case.clone());
                        continue;
                    }
                };
                for a in assignments.iter() {
                    r.evaluations += 1;
                    match json_eval(&v, a, false) {
                        Ok(g) if g == (deep_value(kind, a) != neg) => {}
                        Ok(g) => {
                            r.violation("json:bdd", format!("order {} over {} variables: the JSON of the {}{} evaluates to {} where the function is {}", if shape == 4 { "by label" } else { "reversed" }, n, if neg { "negated " } else { "" }, names[kind], g, !g), case.clone());
                            break;
                        }
                        Err(e) => {
                            r.violation("json:bdd", format!("order {} over {} variables: the JSON of the {}{} is unreadable: {}", if shape == 4 { "by label" } else { "reversed" }, n, if neg { "negated " } else { "" }, names[kind], e), case.clone());
                            break;
                        }
                    }
                }
            }
        }
    }
    r
}

fn json_deep_all(ctx: &Ctx) -> Report {
    let mut items: Vec<(usize, usize)> = Vec::new();
    for &n in ctx.tier.pick(vec![66usize, 130, 258], vec![34, 66, 130, 200, 258, 300]).iter() {
        for shape in 0..6 {
            items.push((n, shape));
        }
    }
    let mut r = par_run(ctx, &items, |_, (n, shape)| json_deep(*n, *shape));
    r.bound("deep_diagrams", json!({"variables": ctx.tier.pick(vec![66usize, 130, 258], vec![34, 66, 130, 200, 258, 300]), "representations": "SDD on right-linear, left-linear, even_split(_, 1), even_split(_, 3) vtrees; BDD in label order and reversed", "functions": "conjunction, parity, ite(parity, conjunction, parity) over the halves, pairing clauses; both polarities", "oracle": "the JSON node table evaluated by a memoised reader under about 120 rule-defined assignments each"}));
    r.add_extra("deep_diagram_serialisations", r.transitions);
    r
}
