//! C15 – CNF-side utilities agree with propositional semantics; the residual-formula hasher is
//! injective on residual formulas across push/decide/pop histories.

use crate::core::*;
use crate::enumerate::*;
use crate::tt::{self, TT};
use rsdd::constants::primes;
use rsdd::repr::{Cnf, CnfHasher, HashedCNF, Literal, PartialModel, VarLabel, VarSet, WmcParams};
use rsdd::util::semirings::{FiniteField, RealSemiring};
use serde_json::{json, Value};
use std::collections::{BTreeMap, BTreeSet, HashMap, HashSet};

fn normalise(clauses: &[Clause]) -> Vec<Clause> {
    clauses
        .iter()
        .map(|c| {
            let mut c = c.clone();
            c.sort_by_key(|l| l.0);
            c.dedup();
            c
        })
        .collect()
}

fn pm_of(code: usize, n: usize) -> (PartialModel, Vec<Option<bool>>) {
    let mut a = Vec::new();
    let mut c = code;
    for _ in 0..n {
        a.push(match c % 3 {
            0 => None,
            1 => Some(true),
            _ => Some(false),
        });
        c /= 3;
    }
    (crate::props::wparams::build_model(&a, code), a)
}

const WREAL: [(u32, u32); 3] = [(1, 1), (1, 2), (3, 5)];

/// everything except the hasher, for one clause list
fn check_cnf_utils(clauses: &[Clause], evals: &mut u64) -> Option<(String, String)> {
    let cnf: Cnf = match guarded(|| to_cnf(clauses)) {
        Ok(c) => c,
        Err(p) => return Some(("new-panic".into(), format!("Cnf::new panicked: {}", p))),
    };
    check_cnf_obj(&cnf, clauses, evals)
}

/// the clause lists held by a Cnf object, in the harness's representation
fn clauses_of(cnf: &Cnf) -> Vec<Clause> {
    cnf.clauses().iter().map(|c| c.iter().map(|l| (l.label().value_usize(), l.polarity())).collect()).collect()
}

/// Cnf objects have histories too: a formula obtained by `condition` from a parent that has
/// already answered queries (hasher, orders, printing, evaluation) must behave exactly like a
/// freshly constructed formula with the same clauses. Returns (description, object, its clauses).
fn derived_cnfs(clauses: &[Clause], depth: usize) -> Vec<(String, Cnf, Vec<Clause>)> {
    fn warm(c: &Cnf) {
        let n = c.num_vars();
        let _ = guarded(|| {
            let _ = c.hasher().hash(&PartialModel::new(n));
            let _ = c.linear_order();
            if !c.clauses().is_empty() {
                let _ = c.min_fill_order();
            }
            let _ = c.to_dimacs();
            if n <= 6 {
                let _ = c.eval(&vec![true; n]);
            }
        });
    }
    let mut out: Vec<(String, Cnf, Vec<Clause>)> = Vec::new();
    let parent = match guarded(|| to_cnf(clauses)) {
        Ok(c) => c,
        Err(_) => return out,
    };
    warm(&parent);
    let n = parent.num_vars();
    let mut level: Vec<(String, Cnf)> = vec![("queried parent".to_string(), parent)];
    for d in 0..depth {
        let mut next: Vec<(String, Cnf)> = Vec::new();
        for (desc, c) in level.iter() {
            for v in 0..n {
                for pol in [true, false] {
                    if let Ok(ch) = guarded(|| c.condition(Literal::new(VarLabel::new(v as u64), pol))) {
                        let cl = clauses_of(&ch);
                        let dd = format!("{} -> condition(x{}={})", desc, v + 1, pol);
                        if d + 1 < depth {
                            warm(&ch);
                            next.push((dd.clone(), ch.clone()));
                        }
                        out.push((dd, ch, cl));
                    }
                }
            }
        }
        level = next;
    }
    out
}

fn check_cnf_obj(cnf: &Cnf, clauses: &[Clause], evals: &mut u64) -> Option<(String, String)> {
    let want = normalise(clauses);
    let got: Vec<Clause> = cnf.clauses().iter().map(|c| c.iter().map(|l| (l.label().value_usize(), l.polarity())).collect()).collect();
    *evals += 1;
    // same clause *sets* (literal sets per clause, in the given clause order)
    let as_sets = |v: &Vec<Clause>| -> Vec<BTreeSet<Lit>> { v.iter().map(|c| c.iter().cloned().collect()).collect() };
    if as_sets(&got) != as_sets(&want) {
        return Some(("new-clauses".into(), format!("Cnf::new holds {:?}, the input denotes {:?}", got, want)));
    }
    let n = num_vars(clauses);
    if cnf.num_vars() != n {
        return Some(("num-vars".into(), format!("num_vars() = {}, largest index + 1 = {}", cnf.num_vars(), n)));
    }
    let f: TT = tt::of_cnf(clauses, n);
    // eval
    for a in 0..(1usize << n) {
        let v = tt::assignment_vec(a, n);
        *evals += 1;
        match guarded(|| cnf.eval(&v)) {
            Ok(r) => {
                if r != tt::eval(f, a) {
                    return Some(("eval".into(), format!("eval({:?}) = {}", v, r)));
                }
            }
            Err(p) => return Some(("eval".into(), format!("eval({:?}) panicked: {}", v, p))),
        }
    }
    // is_sat_partial: the partial model satisfies every clause by an assigned literal
    for code in 0..3usize.pow(n as u32) {
        let (m, a) = pm_of(code, n);
        let wantp = clauses.iter().all(|c| c.iter().any(|&(v, p)| a[v] == Some(p)));
        *evals += 1;
        match guarded(|| cnf.is_sat_partial(&m)) {
            Ok(r) => {
                if r != wantp {
                    return Some(("is-sat-partial".into(), format!("is_sat_partial({:?}) = {}, definition gives {}", a, r, wantp)));
                }
            }
            Err(p) => return Some(("is-sat-partial".into(), format!("panicked: {}", p))),
        }
    }
    // the same over a universe that is wider than the formula: partial models (and total
    // assignments) that also speak about one or two variables the formula does not mention
    for extra in 1..=2usize {
        let wide = n + extra;
        for code in 0..3usize.pow(wide as u32) {
            let (m, a) = pm_of(code, wide);
            let wantp = clauses.iter().all(|c| c.iter().any(|&(v, p)| a[v] == Some(p)));
            *evals += 1;
            match guarded(|| cnf.is_sat_partial(&m)) {
                Ok(r) => {
                    if r != wantp {
                        return Some(("is-sat-partial".into(), format!("is_sat_partial({:?}) (a model over {} variables, the formula has {}) = {}, definition gives {}", a, wide, n, r, wantp)));
                    }
                }
                Err(p) => return Some(("is-sat-partial".into(), format!("panicked on a model over {} variables: {}", wide, p))),
            }
        }
    }
    for a in 0..(1usize << (n + 1)) {
        let v = tt::assignment_vec(a, n + 1);
        *evals += 1;
        match guarded(|| cnf.eval(&v)) {
            Ok(r) => {
                if r != tt::eval(f, a & ((1 << n) - 1)) {
                    return Some(("eval".into(), format!("eval({:?}) (an assignment over {} variables) = {}", v, n + 1, r)));
                }
            }
            Err(p) => return Some(("eval".into(), format!("eval({:?}) panicked: {}", v, p))),
        }
    }
    // condition on every literal
    for v in 0..n {
        for b in [true, false] {
            *evals += 1;
            match guarded(|| cnf.condition(Literal::new(VarLabel::new(v as u64), b))) {
                Ok(c2) => {
                    let cl: Vec<Clause> = c2.clauses().iter().map(|c| c.iter().map(|l| (l.label().value_usize(), l.polarity())).collect()).collect();
                    if cl.iter().any(|c| c.iter().any(|l| l.0 == v)) {
                        return Some(("condition".into(), format!("condition(x{}={}) still mentions the variable: {:?}", v + 1, b, cl)));
                    }
                    if cl.iter().any(|c| c.iter().any(|l| l.0 >= n)) {
                        return Some(("condition".into(), format!("condition(x{}={}) mentions a new variable", v + 1, b)));
                    }
                    let g = tt::of_cnf(&cl, n);
                    let w = tt::cofactor(f, v, b, n);
                    if g != w {
                        return Some(("condition".into(), format!("condition(x{}={}) has models {:#x}, the restriction has {:#x}", v + 1, b, g, w)));
                    }
                }
                Err(p) => return Some(("condition".into(), format!("condition panicked: {}", p))),
            }
        }
    }
    // brute-force weighted count
    let mut wsets: Vec<Vec<(u32, u32)>> = vec![vec![]];
    for _ in 0..n {
        let mut nx = Vec::new();
        for w in wsets.iter() {
            for a in WREAL.iter() {
                let mut x = w.clone();
                x.push(*a);
                nx.push(x);
            }
        }
        wsets = nx;
    }
    for w in wsets.iter() {
        let mut wantc: u64 = 0;
        for a in 0..(1usize << n) {
            if tt::eval(f, a) {
                let mut p = 1u64;
                for v in 0..n {
                    p *= if (a >> v) & 1 == 1 { w[v].1 } else { w[v].0 } as u64;
                }
                wantc += p;
            }
        }
        let mr: HashMap<VarLabel, (RealSemiring, RealSemiring)> =
            w.iter().enumerate().map(|(v, &(l, h))| (VarLabel::new(v as u64), (RealSemiring(l as f64), RealSemiring(h as f64)))).collect();
        let mf: HashMap<VarLabel, (FiniteField<{ primes::U32_TINY }>, FiniteField<{ primes::U32_TINY }>)> =
            w.iter().enumerate().map(|(v, &(l, h))| (VarLabel::new(v as u64), (FiniteField::new(l as u128), FiniteField::new(h as u128)))).collect();
        *evals += 2;
        match guarded(|| (cnf.wmc(&WmcParams::new(mr)).0, cnf.wmc(&WmcParams::new(mf)).value())) {
            Ok((r, ff)) => {
                if r != wantc as f64 {
                    return Some(("wmc".into(), format!("wmc under (low, high) weights {:?} = {}, the sum over models is {}", w, r, wantc)));
                }
                if ff != (wantc as u128) % primes::U32_TINY {
                    return Some(("wmc".into(), format!("finite-field wmc under {:?} = {}, expected {}", w, ff, wantc)));
                }
            }
            Err(p) => return Some(("wmc".into(), format!("wmc panicked: {}", p))),
        }
    }
    None
}

/// Cnf utilities on a clause list written over sparse, large labels (`map[i]` = label of small
/// variable i): construction, variable count, eval / is_sat_partial on all assignments of the
/// occurring variables (all other variables false / unassigned), condition on every literal
fn check_cnf_utils_sparse(clauses: &[Clause], map: &[usize], evals: &mut u64) -> Option<(String, String)> {
    let k = map.len();
    let wide: Vec<Clause> = clauses.iter().map(|c| c.iter().map(|&(v, p)| (map[v], p)).collect()).collect();
    let cnf: Cnf = match guarded(|| to_cnf(&wide)) {
        Ok(c) => c,
        Err(p) => return Some(("new-panic".into(), format!("Cnf::new panicked: {}", p))),
    };
    let got: Vec<Clause> = cnf.clauses().iter().map(|c| c.iter().map(|l| (l.label().value_usize(), l.polarity())).collect()).collect();
    let as_sets = |v: &Vec<Clause>| -> Vec<BTreeSet<Lit>> { v.iter().map(|c| c.iter().cloned().collect()).collect() };
    *evals += 1;
    if as_sets(&got) != as_sets(&normalise(&wide)) {
        return Some(("new-clauses".into(), format!("Cnf::new holds {:?}, the input denotes {:?}", got, wide)));
    }
    let nn = num_vars(&wide);
    if cnf.num_vars() != nn {
        return Some(("num-vars".into(), format!("num_vars() = {}, largest index + 1 = {}", cnf.num_vars(), nn)));
    }
    let f: TT = tt::of_cnf(clauses, k);
    for a in 0..(1usize << k) {
        let mut v = vec![false; nn];
        for i in 0..k {
            if map[i] < nn {
                v[map[i]] = (a >> i) & 1 == 1;
            }
        }
        *evals += 1;
        match guarded(|| cnf.eval(&v)) {
            Ok(r) => {
                if r != tt::eval(f, a) {
                    return Some(("eval".into(), format!("eval with the occurring variables set to {:#b} = {}", a, r)));
                }
            }
            Err(p) => return Some(("eval".into(), format!("eval panicked: {}", p))),
        }
    }
    for code in 0..3usize.pow(k as u32) {
        let (_, a) = pm_of(code, k);
        let mut widea: Vec<Option<bool>> = vec![None; nn];
        for i in 0..k {
            if map[i] < nn {
                widea[map[i]] = a[i];
            }
        }
        let wantp = clauses.iter().all(|c| c.iter().any(|&(v, p)| a[v] == Some(p)));
        *evals += 1;
        match guarded(|| cnf.is_sat_partial(&PartialModel::from_assignments(&widea))) {
            Ok(r) => {
                if r != wantp {
                    return Some(("is-sat-partial".into(), format!("is_sat_partial({:?} on the occurring variables) = {}, definition gives {}", a, r, wantp)));
                }
            }
            Err(p) => return Some(("is-sat-partial".into(), format!("panicked: {}", p))),
        }
    }
    for v in 0..k {
        if map[v] >= nn {
            continue;
        }
        for b in [true, false] {
            *evals += 1;
            match guarded(|| cnf.condition(Literal::new(VarLabel::new(map[v] as u64), b))) {
                Ok(c2) => {
                    let mut small: Vec<Clause> = Vec::new();
                    for c in c2.clauses().iter() {
                        let mut sc = Vec::new();
                        for l in c.iter() {
                            match map.iter().position(|&m| m == l.label().value_usize()) {
                                Some(i) if i != v => sc.push((i, l.polarity())),
                                _ => return Some(("condition".into(), format!("condition(label {} = {}) mentions label {}", map[v], b, l.label().value()))),
                            }
                        }
                        small.push(sc);
                    }
                    let g = tt::of_cnf(&small, k);
                    let w = tt::cofactor(f, v, b, k);
                    if g != w {
                        return Some(("condition".into(), format!("condition(label {} = {}) has models {:#x}, the restriction has {:#x}", map[v], b, g, w)));
                    }
                }
                Err(p) => return Some(("condition".into(), format!("condition panicked: {}", p))),
            }
        }
    }
    None
}

// ---------------------------------------------------------------------------------------------
// hasher: explicit-state exploration of push / decide / pop

#[derive(Clone, Debug, PartialEq, Eq, Hash, PartialOrd, Ord)]
enum HAct {
    Push,
    Decide(usize, bool),
    Pop,
}

/// residual of the non-unit clauses, index-wise; None if some clause is falsified
fn residual(clauses: &[Clause], a: &[Option<bool>]) -> Option<BTreeMap<usize, Vec<Lit>>> {
    let mut out = BTreeMap::new();
    for (i, c) in clauses.iter().enumerate() {
        let sat = c.iter().any(|&(v, p)| a[v] == Some(p));
        let un: Vec<Lit> = c.iter().filter(|&&(v, _)| a[v].is_none()).cloned().collect();
        if !sat && un.is_empty() {
            return None; // falsified clause
        }
        if !sat && c.len() > 1 {
            out.insert(i, un);
        }
    }
    Some(out)
}

struct HState {
    h: CnfHasher,
    /// model per level (cumulative)
    levels: Vec<Vec<Option<bool>>>,
    hist: Vec<HAct>,
}

fn model_of(a: &[Option<bool>]) -> PartialModel {
    PartialModel::from_assignments(a)
}

fn explore_hasher(clauses: &[Clause], max_levels: usize, rep: &mut Report) -> Option<(Vec<HAct>, String)> {
    explore_hasher_on(clauses, max_levels, rep, None)
}

/// `vars`: the variables that may be decided (None = all of 0..num_vars)
fn explore_hasher_on(clauses: &[Clause], max_levels: usize, rep: &mut Report, vars: Option<&[usize]>) -> Option<(Vec<HAct>, String)> {
    let cnf = to_cnf(clauses);
    explore_hasher_obj(&cnf, clauses, max_levels, rep, vars)
}

fn explore_hasher_obj(cnf: &Cnf, clauses: &[Clause], max_levels: usize, rep: &mut Report, vars: Option<&[usize]>) -> Option<(Vec<HAct>, String)> {
    let norm = normalise(clauses);
    let n = cnf.num_vars();
    let h0: CnfHasher = cnf.hasher().clone();
    let mut seen: HashSet<Vec<Vec<Option<bool>>>> = HashSet::new();
    let mut by_res: HashMap<BTreeMap<usize, Vec<Lit>>, HashedCNF> = HashMap::new();
    let mut by_hash: HashMap<HashedCNF, BTreeMap<usize, Vec<Lit>>> = HashMap::new();
    let init = HState { h: h0, levels: vec![vec![None; n]], hist: vec![] };
    seen.insert(init.levels.clone());
    let mut frontier = vec![init];
    rep.states += 1;
    // oracle on one state
    let decidable: Vec<usize> = vars.map(|v| v.to_vec()).unwrap_or_else(|| (0..n).collect());
    let observe = |s: &HState, by_res: &mut HashMap<_, _>, by_hash: &mut HashMap<_, _>| -> Option<String> {
        let a = s.levels.last().unwrap();
        // the partial assignment handed to hash() may say more than what was decided: at states
        // with at most two levels every extension of the decided assignment by further literals
        // of the decidable variables is hashed too (the clauses they satisfy are still in the
        // hasher's frame and must be skipped by hash() itself)
        let mut models: Vec<Vec<Option<bool>>> = vec![a.clone()];
        if s.levels.len() <= 2 {
            let free: Vec<usize> = decidable.iter().cloned().filter(|&v| a[v].is_none()).collect();
            if free.len() <= 4 {
                for code in 1..3usize.pow(free.len() as u32) {
                    let mut m = a.clone();
                    let mut c = code;
                    for &v in free.iter() {
                        m[v] = match c % 3 {
                            0 => None,
                            1 => Some(true),
                            _ => Some(false),
                        };
                        c /= 3;
                    }
                    models.push(m);
                }
            }
        }
        for (mi, a) in models.iter().enumerate() {
        let hv = match guarded(|| s.h.hash(&model_of(a))) {
            Ok(h) => h,
            Err(p) => return Some(format!("hash panicked: {}", p)),
        };
        let tag = if mi == 0 { String::new() } else { format!(" (model {:?}, an extension of the decided assignment)", a) };
        if let Some(res) = residual(&norm, a) {
            if let Some(old) = by_res.get(&res) {
                if *old != hv {
                    return Some(format!("two states with the same residual formula {:?} hash differently{}", res, tag));
                }
            } else {
                by_res.insert(res.clone(), hv.clone());
            }
            if let Some(old) = by_hash.get(&hv) {
                if *old != res {
                    return Some(format!("two states with different residual formulas {:?} / {:?} share one hash{}", old, res, tag));
                }
            } else {
                by_hash.insert(hv, res);
            }
        }
        }
        None
    };
    if let Some(e) = observe(&frontier[0], &mut by_res, &mut by_hash) {
        return Some((vec![], e));
    }
    while !frontier.is_empty() {
        let mut next = Vec::new();
        for s in frontier.iter() {
            let top = s.levels.last().unwrap().clone();
            let mut acts = Vec::new();
            if s.levels.len() < max_levels {
                acts.push(HAct::Push);
            }
            let all: Vec<usize> = (0..n).collect();
            for &v in vars.unwrap_or(&all).iter() {
                if top[v].is_none() {
                    acts.push(HAct::Decide(v, true));
                    acts.push(HAct::Decide(v, false));
                }
            }
            if s.levels.len() > 1 {
                acts.push(HAct::Pop);
            }
            for a in acts {
                let mut h = s.h.clone();
                let mut levels = s.levels.clone();
                let mut hist = s.hist.clone();
                hist.push(a.clone());
                rep.transitions += 1;
                let r = guarded(|| match &a {
                    HAct::Push => {
                        h.push();
                        let t = levels.last().unwrap().clone();
                        levels.push(t);
                    }
                    HAct::Decide(v, b) => {
                        h.decide(Literal::new(VarLabel::new(*v as u64), *b));
                        levels.last_mut().unwrap()[*v] = Some(*b);
                    }
                    HAct::Pop => {
                        h.pop();
                        levels.pop();
                    }
                });
                if let Err(p) = r {
                    return Some((hist, format!("{:?} panicked: {}", a, p)));
                }
                let ns = HState { h, levels, hist };
                if let Some(e) = observe(&ns, &mut by_res, &mut by_hash) {
                    return Some((ns.hist, e));
                }
                if seen.insert(ns.levels.clone()) {
                    rep.states += 1;
                    next.push(ns);
                }
            }
        }
        frontier = next;
    }
    // pop restores exactly: replay push/decide/pop on a copy and compare with ==
    let mut h = cnf.hasher().clone();
    let before = h.clone();
    h.push();
    let all: Vec<usize> = (0..n).collect();
    for &v in vars.unwrap_or(&all).iter() {
        h.decide(Literal::new(VarLabel::new(v as u64), v % 2 == 0));
    }
    h.pop();
    // behavioural comparison (the property promises hashes, not a representation: an implementation that
    // restores lazily is allowed to differ field by field): every partial assignment hashes as before
    if n <= 4 {
        for code in 0..3usize.pow(n as u32) {
            let (m, _) = pm_of(code, n);
            if h.hash(&m) != before.hash(&m) {
                return Some((vec![HAct::Push, HAct::Pop], "after push / decide... / pop an assignment hashes differently than before the push".into()));
            }
        }
    }
    None
}

/// second regime, without any merging of states: every legal push / decide / pop sequence of at most
/// `depth` calls on a fresh copy of the formula's hasher; after every call the hash of the decided
/// assignment is compared with the hash recorded for the same residual formula (and vice versa).
/// A defect that lives in state the reference model does not have (a lazily restored frame, a
/// trail, a stamp) cannot be merged away here, because nothing is merged.
fn explore_hasher_seq(cnf: &Cnf, clauses: &[Clause], max_levels: usize, depth: usize, rep: &mut Report) -> Option<(Vec<HAct>, String)> {
    // twice: hashing the hasher of the path itself after every call (a query with a side effect is then
    // part of every history), and hashing a throw-away copy (the path sees push / decide / pop only, so a
    // lazily maintained field is never healed by the harness looking at it)
    if let Some(x) = explore_hasher_seq_mode(cnf, clauses, max_levels, depth, rep, false) {
        return Some(x);
    }
    explore_hasher_seq_mode(cnf, clauses, max_levels, depth, rep, true)
}

fn explore_hasher_seq_mode(cnf: &Cnf, clauses: &[Clause], max_levels: usize, depth: usize, rep: &mut Report, on_copy: bool) -> Option<(Vec<HAct>, String)> {
    let norm = normalise(clauses);
    let n = cnf.num_vars();
    struct Cx<'c> {
        norm: &'c [Clause],
        n: usize,
        max_levels: usize,
        by_res: HashMap<BTreeMap<usize, Vec<Lit>>, HashedCNF>,
        by_hash: HashMap<HashedCNF, BTreeMap<usize, Vec<Lit>>>,
        steps: u64,
        seqs: u64,
        on_copy: bool,
    }
    fn observe(cx: &mut Cx, h: &CnfHasher, a: &[Option<bool>]) -> Option<String> {
        let copy;
        let h = if cx.on_copy {
            copy = h.clone();
            &copy
        } else {
            h
        };
        let hv = match guarded(|| h.hash(&model_of(a))) {
            Ok(h) => h,
            Err(p) => return Some(format!("hash panicked: {}", p)),
        };
        if let Some(res) = residual(cx.norm, a) {
            if let Some(old) = cx.by_res.get(&res) {
                if *old != hv {
                    return Some(format!("the residual formula {:?} hashes differently than it did after another history", res));
                }
            } else {
                cx.by_res.insert(res.clone(), hv.clone());
            }
            if let Some(old) = cx.by_hash.get(&hv) {
                if *old != res {
                    return Some(format!("different residual formulas {:?} / {:?} share one hash", old, res));
                }
            } else {
                cx.by_hash.insert(hv, res);
            }
        }
        None
    }
    fn go(cx: &mut Cx, h: &CnfHasher, levels: &mut Vec<Vec<Option<bool>>>, hist: &mut Vec<HAct>, left: usize) -> Option<(Vec<HAct>, String)> {
        if left == 0 {
            cx.seqs += 1;
            return None;
        }
        let top = levels.last().unwrap().clone();
        let mut acts = Vec::new();
        if levels.len() < cx.max_levels {
            acts.push(HAct::Push);
        }
        for v in 0..cx.n {
            if top[v].is_none() {
                acts.push(HAct::Decide(v, true));
                acts.push(HAct::Decide(v, false));
            }
        }
        if levels.len() > 1 {
            acts.push(HAct::Pop);
        }
        for a in acts {
            let mut h2 = h.clone();
            hist.push(a.clone());
            cx.steps += 1;
            let mut popped: Option<Vec<Option<bool>>> = None;
            let r = guarded(|| match &a {
                HAct::Push => h2.push(),
                HAct::Decide(v, b) => h2.decide(Literal::new(VarLabel::new(*v as u64), *b)),
                HAct::Pop => h2.pop(),
            });
            if let Err(p) = r {
                return Some((hist.clone(), format!("{:?} panicked: {}", a, p)));
            }
            match &a {
                HAct::Push => {
                    let t = levels.last().unwrap().clone();
                    levels.push(t);
                }
                HAct::Decide(v, b) => levels.last_mut().unwrap()[*v] = Some(*b),
                HAct::Pop => popped = levels.pop(),
            }
            let cur = levels.last().unwrap().clone();
            if let Some(e) = observe(cx, &h2, &cur) {
                return Some((hist.clone(), e));
            }
            if let Some(x) = go(cx, &h2, levels, hist, left - 1) {
                return Some(x);
            }
            // undo the reference model
            match &a {
                HAct::Push => {
                    levels.pop();
                }
                HAct::Decide(v, _) => levels.last_mut().unwrap()[*v] = None,
                HAct::Pop => levels.push(popped.unwrap()),
            }
            hist.pop();
        }
        None
    }
    let mut cx = Cx { norm: &norm, n, max_levels, by_res: HashMap::new(), by_hash: HashMap::new(), steps: 0, seqs: 0, on_copy };
    let h0: CnfHasher = cnf.hasher().clone();
    let mut levels = vec![vec![None; n]];
    if let Some(e) = observe(&mut cx, &h0, &levels[0].clone()) {
        return Some((vec![], e));
    }
    let mut hist = Vec::new();
    let out = go(&mut cx, &h0, &mut levels, &mut hist, depth);
    rep.transitions += cx.steps;
    rep.add_extra("hasher_unmerged_sequences", cx.seqs);
    rep.add_extra("hasher_unmerged_steps", cx.steps);
    out
}

/// third unmerged regime: the hash queries are part of the history. Alphabet: push, pop, decide(l),
/// hash of the decided assignment, hash of the decided assignment extended by one free literal, and
/// hash of the assignment used by the previous query again (when it still contains every decided literal;
/// the assignment passed to hash may say more than what was decided). Nothing is hashed automatically, so
/// a hasher that remembers its last query sees exactly the queries of the sequence, in their order.
fn explore_hasher_sched(cnf: &Cnf, clauses: &[Clause], max_levels: usize, depth: usize, rep: &mut Report) -> Option<(Vec<String>, String)> {
    let norm = normalise(clauses);
    let n = cnf.num_vars();
    struct Cx<'c> {
        norm: &'c [Clause],
        n: usize,
        max_levels: usize,
        by_res: HashMap<BTreeMap<usize, Vec<Lit>>, HashedCNF>,
        by_hash: HashMap<HashedCNF, BTreeMap<usize, Vec<Lit>>>,
        steps: u64,
        seqs: u64,
    }
    fn query(cx: &mut Cx, h: &CnfHasher, a: &[Option<bool>]) -> Option<String> {
        let hv = match guarded(|| h.hash(&model_of(a))) {
            Ok(h) => h,
            Err(p) => return Some(format!("hash panicked: {}", p)),
        };
        if let Some(res) = residual(cx.norm, a) {
            if let Some(old) = cx.by_res.get(&res) {
                if *old != hv {
                    return Some(format!("the residual formula {:?} (assignment {:?}) hashes differently than it did in another query", res, a));
                }
            } else {
                cx.by_res.insert(res.clone(), hv.clone());
            }
            if let Some(old) = cx.by_hash.get(&hv) {
                if *old != res {
                    return Some(format!("different residual formulas {:?} / {:?} share one hash", old, res));
                }
            } else {
                cx.by_hash.insert(hv, res);
            }
        }
        None
    }
    #[allow(clippy::too_many_arguments)]
    fn go(cx: &mut Cx, h: &CnfHasher, levels: &mut Vec<Vec<Option<bool>>>, last: &Option<Vec<Option<bool>>>, hist: &mut Vec<String>, left: usize) -> Option<(Vec<String>, String)> {
        if left == 0 {
            cx.seqs += 1;
            return None;
        }
        let top = levels.last().unwrap().clone();
        // 0 push, 1 pop, 2.. decide, then queries
        let mut acts: Vec<(u8, usize, bool)> = Vec::new();
        if levels.len() < cx.max_levels {
            acts.push((0, 0, false));
        }
        if levels.len() > 1 {
            acts.push((1, 0, false));
        }
        for v in 0..cx.n {
            if top[v].is_none() {
                acts.push((2, v, true));
                acts.push((2, v, false));
            }
        }
        acts.push((3, 0, false)); // hash(decided)
        for v in 0..cx.n {
            if top[v].is_none() {
                acts.push((4, v, true));
                acts.push((4, v, false));
            }
        }
        if let Some(l) = last {
            if (0..cx.n).all(|v| top[v].is_none() || top[v] == l[v]) && *l != top {
                acts.push((5, 0, false));
            }
        }
        for (kind, v, b) in acts {
            cx.steps += 1;
            let mut h2 = h.clone();
            let mut new_last = last.clone();
            let mut popped: Option<Vec<Option<bool>>> = None;
            let name;
            match kind {
                0 => {
                    name = "push".to_string();
                    if let Err(p) = guarded(|| h2.push()) {
                        hist.push(name);
                        return Some((hist.clone(), format!("push panicked: {}", p)));
                    }
                    let t = levels.last().unwrap().clone();
                    levels.push(t);
                }
                1 => {
                    name = "pop".to_string();
                    if let Err(p) = guarded(|| h2.pop()) {
                        hist.push(name);
                        return Some((hist.clone(), format!("pop panicked: {}", p)));
                    }
                    popped = levels.pop();
                }
                2 => {
                    name = format!("decide({}x{})", if b { "" } else { "-" }, v + 1);
                    if let Err(p) = guarded(|| h2.decide(Literal::new(VarLabel::new(v as u64), b))) {
                        hist.push(name);
                        return Some((hist.clone(), format!("decide panicked: {}", p)));
                    }
                    levels.last_mut().unwrap()[v] = Some(b);
                }
                _ => {
                    let m: Vec<Option<bool>> = match kind {
                        3 => top.clone(),
                        4 => {
                            let mut m = top.clone();
                            m[v] = Some(b);
                            m
                        }
                        _ => last.clone().unwrap(),
                    };
                    name = format!("hash({:?})", m.iter().enumerate().filter_map(|(i, x)| x.map(|val| if val { i as i64 + 1 } else { -(i as i64 + 1) })).collect::<Vec<_>>());
                    hist.push(name.clone());
                    if let Some(e) = query(cx, &h2, &m) {
                        return Some((hist.clone(), e));
                    }
                    hist.pop();
                    new_last = Some(m);
                }
            }
            hist.push(name);
            if let Some(x) = go(cx, &h2, levels, &new_last, hist, left - 1) {
                return Some(x);
            }
            hist.pop();
            match kind {
                0 => {
                    levels.pop();
                }
                1 => levels.push(popped.unwrap()),
                2 => levels.last_mut().unwrap()[v] = None,
                _ => {}
            }
        }
        None
    }
    let mut cx = Cx { norm: &norm, n, max_levels, by_res: HashMap::new(), by_hash: HashMap::new(), steps: 0, seqs: 0 };
    let h0: CnfHasher = cnf.hasher().clone();
    let mut levels = vec![vec![None; n]];
    let mut hist = Vec::new();
    let out = go(&mut cx, &h0, &mut levels, &None, &mut hist, depth);
    rep.transitions += cx.steps;
    rep.add_extra("hasher_scheduled_query_sequences", cx.seqs);
    rep.add_extra("hasher_scheduled_query_steps", cx.steps);
    out
}

// ---------------------------------------------------------------------------------------------
// partial models, variable sets, literals

fn check_bookkeeping(rep: &mut Report) {
    let n = 3;
    let total = 3usize.pow(n as u32);
    for code in 0..total {
        let (m, a) = pm_of(code, n);
        rep.transitions += 1;
        for v in 0..n {
            let l = VarLabel::new(v as u64);
            rep.evaluations += 4;
            if m.get(l) != a[v] || m.is_set(l) != a[v].is_some() {
                rep.violation("model:get", format!("from_assignments({:?}).get({}) = {:?}", a, v, m.get(l)), json!({"kind": "bookkeeping"}));
            }
            for p in [true, false] {
                let lit = Literal::new(l, p);
                if m.lit_implied(lit) != (a[v] == Some(p)) || m.lit_neg_implied(lit) != (a[v] == Some(!p)) {
                    rep.violation("model:lit-implied", format!("{:?} on {:?}", lit, a), json!({"kind": "bookkeeping"}));
                }
            }
            // set / unset transitions from every model
            for op in 0..3 {
                let mut m2 = m.clone();
                let mut a2 = a.clone();
                match op {
                    0 => {
                        m2.set(l, true);
                        a2[v] = Some(true);
                    }
                    1 => {
                        m2.set(l, false);
                        a2[v] = Some(false);
                    }
                    _ => {
                        m2.unset(l);
                        a2[v] = None;
                    }
                }
                rep.transitions += 1;
                for u in 0..n {
                    if m2.get(VarLabel::new(u as u64)) != a2[u] {
                        rep.violation("model:set-unset", format!("op {} on var {} from {:?}: get({}) = {:?}", op, v, a, u, m2.get(VarLabel::new(u as u64))), json!({"kind": "bookkeeping"}));
                    }
                }
                let (fresh, _) = pm_of(a2.iter().enumerate().map(|(i, x)| match x { None => 0, Some(true) => 1, Some(false) => 2 } * 3usize.pow(i as u32)).sum(), n);
                if m2 != fresh {
                    rep.violation("model:eq", format!("model reached by op {} on var {} from {:?} != freshly built {:?}", op, v, a, a2), json!({"kind": "bookkeeping"}));
                }
            }
        }
        let lits: BTreeSet<(usize, bool)> = m.assignment_iter().map(|l| (l.label().value_usize(), l.polarity())).collect();
        let want: BTreeSet<(usize, bool)> = a.iter().enumerate().filter_map(|(v, x)| x.map(|p| (v, p))).collect();
        if lits != want || m.assignment_iter().count() != want.len() {
            rep.violation("model:assignment-iter", format!("{:?} yields {:?}", a, lits), json!({"kind": "bookkeeping"}));
        }
        let lv: Vec<Literal> = want.iter().map(|&(v, p)| Literal::new(VarLabel::new(v as u64), p)).collect();
        if PartialModel::from_litvec(&lv, n) != m {
            rep.violation("model:from-litvec", format!("{:?}", a), json!({"kind": "bookkeeping"}));
        }
        if a.iter().all(|x| x.is_some()) {
            let t: Vec<bool> = a.iter().map(|x| x.unwrap()).collect();
            if PartialModel::from_total_model(&t) != m {
                rep.violation("model:from-total", format!("{:?}", a), json!({"kind": "bookkeeping"}));
            }
        }
        for code2 in 0..total {
            let (m2, b) = pm_of(code2, n);
            rep.evaluations += 1;
            let d: BTreeSet<(usize, bool)> = m.difference(&m2).map(|l| (l.label().value_usize(), l.polarity())).collect();
            let wd: BTreeSet<(usize, bool)> = (0..n).filter_map(|v| match a[v] { Some(p) if b[v] != Some(p) => Some((v, p)), _ => None }).collect();
            if d != wd {
                rep.violation("model:difference", format!("{:?} \\ {:?} = {:?}", a, b, d), json!({"kind": "bookkeeping"}));
            }
        }
    }
    if PartialModel::new(n) != pm_of(0, n).0 {
        rep.violation("model:new", "PartialModel::new is not the empty model".to_string(), json!({"kind": "bookkeeping"}));
    }
    // variable sets: all pairs of subsets of {0..4}
    let mk = |mask: u32| -> VarSet {
        let mut s = VarSet::new();
        for v in 0..5 {
            if (mask >> v) & 1 == 1 {
                s.insert(VarLabel::new(v));
            }
        }
        s
    };
    let to_mask = |s: &VarSet| -> u32 { s.iter().fold(0, |m, v| m | (1 << v.value())) };
    for a in 0..32u32 {
        let sa = mk(a);
        rep.transitions += 1;
        if to_mask(&sa) != a || sa.len() != a.count_ones() as usize || sa.is_empty() != (a == 0) {
            rep.violation("varset:basic", format!("{:#b}", a), json!({"kind": "bookkeeping"}));
        }
        for v in 0..5 {
            if sa.contains(VarLabel::new(v)) != ((a >> v) & 1 == 1) {
                rep.violation("varset:contains", format!("{:#b} {}", a, v), json!({"kind": "bookkeeping"}));
            }
            let mut r = sa.clone();
            r.remove(VarLabel::new(v));
            if to_mask(&r) != a & !(1 << v) {
                rep.violation("varset:remove", format!("{:#b} {}", a, v), json!({"kind": "bookkeeping"}));
            }
        }
        for b in 0..32u32 {
            let sb = mk(b);
            rep.evaluations += 5;
            let mut u = sa.clone();
            u.union_with(&sb);
            let inter: u32 = sa.intersect(&sb).fold(0, |m, v| m | (1 << v));
            let diff: u32 = sa.difference(&sb).fold(0, |m, v| m | (1 << v.value()));
            if to_mask(&sa.union(&sb)) != a | b
                || to_mask(&u) != a | b
                || to_mask(&sa.minus(&sb)) != a & !b
                || to_mask(&sa.intersect_varset(&sb)) != a & b
                || inter != a & b
                || diff != a & !b
                || (sa == sb) != (a == b)
            {
                rep.violation("varset:algebra", format!("{:#b} {:#b}", a, b), json!({"kind": "bookkeeping"}));
            }
        }
    }
    // literal packing
    for v in [0u64, 1, 2, 63, 64, 1 << 32, (1 << 62) + 5, (1u64 << 63) - 1] {
        for p in [true, false] {
            let l = Literal::new(VarLabel::new(v), p);
            rep.evaluations += 1;
            if l.label().value() != v || l.polarity() != p || l.negated().label().value() != v || l.negated().polarity() == p || l.negated().negated() != l {
                rep.violation("literal:packing", format!("Literal::new({}, {})", v, p), json!({"kind": "bookkeeping"}));
            }
            let o = Literal::new(VarLabel::new(v), !p);
            if !l.implies_true(&l) || l.implies_true(&o) || !l.implies_false(&o) || l.implies_false(&l) {
                rep.violation("literal:implies", format!("{} {}", v, p), json!({"kind": "bookkeeping"}));
            }
        }
    }
}

fn hact_json(h: &[HAct]) -> Value {
    json!(h.iter().map(|a| match a { HAct::Push => json!("push"), HAct::Pop => json!("pop"), HAct::Decide(v, b) => json!({"decide": if *b { *v as i64 + 1 } else { -(*v as i64 + 1) }}) }).collect::<Vec<_>>())
}

pub fn run(ctx: &Ctx) -> Report {
    let mut rep = Report::new(
        "every clause list of the family (sequences of clause types incl. [], [[]], duplicate and complementary literals, plus 2-variable clauses with repeated literals): Cnf::new / eval on all assignments / is_sat_partial on all 3^n partial models / condition on every literal / brute-force counts in real and finite-field weights (full product of a 3-pair alphabet); hasher: BFS to closure over push/decide/pop histories with <= n+1 levels, de-duplicated on the stack of models, same residual <=> same hash over all visited states that falsify no clause; PartialModel / VarSet / Literal bookkeeping over all small values; distinct = clause list or hasher state, non-trivial = hasher states",
    );
    check_bookkeeping(&mut rep);
    let mut fams: Vec<(usize, Vec<Vec<usize>>, &str)> = Vec::new();
    match ctx.tier {
        Tier::Quick => {
            fams.push((3, sequences(64, 2), "n3_sequences_le2"));
            fams.push((3, multisets(64, 3).into_iter().filter(|m| m.len() == 3).step_by(29).collect(), "n3_multisets_3_every_29th"));
        }
        Tier::Thorough => {
            fams.push((3, sequences(64, 2), "n3_sequences_le2"));
            fams.push((3, multisets(64, 3).into_iter().filter(|m| m.len() == 3).collect(), "n3_multisets_3"));
            fams.push((4, multisets(256, 2).into_iter().step_by(5).collect(), "n4_multisets_le2_every_5th"));
        }
    }
    let (derived_stride, derived_depth) = (ctx.tier.pick(4, 1), ctx.tier.pick(1, 2));
    // unmerged call sequences: depth and how many of the clause lists get them
    // (every clause list to seq_depth; every seq_deep_stride-th list, and a rule-defined handful of richer
    // formulas further down, to seq_deep)
    let (seq_depth, seq_stride) = (ctx.tier.pick(5, 6), ctx.tier.pick(1, 1));
    let sched_depth = ctx.tier.pick(6, 7);
    let (seq_deep, seq_deep_stride) = (if crate::core::disabled("deep") { 6 } else { ctx.tier.pick(8, 9) }, ctx.tier.pick(61, 31));
    for (n, mut sets, name) in fams {
        let types = clause_types(n);
        ctx.rotate(&mut sets);
        let chunks: Vec<&[Vec<usize>]> = sets.chunks(64).collect();
        let fam = par_run(ctx, &chunks, |_, chunk| {
            let mut r = Report::default();
            r.exhaustive = true;
            for s in chunk.iter() {
                let clauses: Vec<Clause> = s.iter().map(|&i| types[i].clone()).collect();
                r.traces += 1;
                r.transitions += 1;
                let mut ev = 0;
                if let Some((k, w)) = check_cnf_utils(&clauses, &mut ev) {
                    r.violation(format!("cnf:{}", k), format!("clause list {}: {}", cnf_json(&clauses), w), json!({"kind": "cnf", "cnf": cnf_json(&clauses)}));
                }
                r.evaluations += ev;
                let nv = num_vars(&clauses);
                let before = r.states;
                if let Some((hist, w)) = explore_hasher(&clauses, nv + 1, &mut r) {
                    r.violation("hasher:residual-hash", format!("clause list {} after {:?}: {}", cnf_json(&clauses), hist, w), json!({"kind": "hasher", "cnf": cnf_json(&clauses), "history": hact_json(&hist)}));
                }
                r.distinct_nontrivial += r.states - before;
                if (r.traces as usize) % seq_stride == 0 {
                    let cnf = to_cnf(&clauses);
                    let d = if (s.iter().sum::<usize>() + s.len()) % seq_deep_stride == 0 { seq_deep } else { seq_depth };
                    if d == seq_deep && nv <= 3 && !crate::core::disabled("sched") {
                        if let Some((hist, w)) = explore_hasher_sched(&cnf, &clauses, 2, sched_depth, &mut r) {
                            r.violation("hasher:residual-hash", format!("clause list {} after {:?} (queries as part of the history): {}", cnf_json(&clauses), hist, w), json!({"kind": "hasher_sched", "cnf": cnf_json(&clauses), "history": hist, "depth": sched_depth}));
                        }
                    }
                    if let Some((hist, w)) = explore_hasher_seq(&cnf, &clauses, (nv + 1).min(3), d, &mut r) {
                        r.violation("hasher:residual-hash", format!("clause list {} after {:?} (unmerged sequences): {}", cnf_json(&clauses), hist, w), json!({"kind": "hasher_seq", "cnf": cnf_json(&clauses), "history": hact_json(&hist), "depth": d}));
                    }
                }
                // derived objects: formulas obtained by conditioning a parent that has already
                // answered queries, checked like fresh formulas with the same clauses
                if (r.traces as usize) % derived_stride == 0 {
                    for (desc, obj, cl) in derived_cnfs(&clauses, derived_depth) {
                        r.add_extra("derived_cnf_objects", 1);
                        let mut ev = 0;
                        if let Some((k, w)) = check_cnf_obj(&obj, &cl, &mut ev) {
                            r.violation(format!("cnf:{}", k), format!("clause list {} ({}; the object holds {}): {}", cnf_json(&clauses), desc, cnf_json(&cl), w), json!({"kind": "cnf", "cnf": cnf_json(&clauses)}));
                        }
                        r.evaluations += ev;
                        let nvc = num_vars(&cl);
                        if let Some((hist, w)) = explore_hasher_obj(&obj, &cl, (nvc + 1).min(2), &mut r, None) {
                            r.violation("hasher:residual-hash", format!("clause list {} ({}; the object holds {}) after {:?}: {}", cnf_json(&clauses), desc, cnf_json(&cl), hist, w), json!({"kind": "hasher", "cnf": cnf_json(&clauses), "history": hact_json(&hist)}));
                        }
                    }
                }
                if r.n_violations > 32 {
                    break;
                }
            }
            r
        });
        rep.add_extra(&format!("{}_clause_lists", name), fam.traces);
        rep.bound(name, json!({"variables": n, "clause_lists": sets.len(), "hasher_levels": "<= num_vars + 1"}));
        rep.merge(fam);
    }
    // richer formulas for the deep unmerged sequences: four clauses over three variables, every variable in
    // both polarities, widths 2 and 3 mixed (rule: clause i is built from the bits of the pattern)
    {
        let mut rich: Vec<Vec<Clause>> = Vec::new();
        for pat in 0..ctx.tier.pick(16usize, 64) {
            let mut cl: Vec<Clause> = Vec::new();
            for i in 0..4usize {
                let a = i % 3;
                let b = (i + 1) % 3;
                let c = (i + 2) % 3;
                let bit = |k: usize| (pat >> ((i + k) % 6)) & 1 == 1;
                let mut clause: Clause = vec![(a, bit(0)), (b, !bit(1))];
                if bit(2) {
                    clause.push((c, bit(3)));
                }
                cl.push(clause);
            }
            rich.push(cl);
        }
        let chunks: Vec<&[Vec<Clause>]> = rich.chunks(1).collect();
        let fam = par_run(ctx, &chunks, |_, chunk| {
            let mut r = Report::default();
            r.exhaustive = true;
            for clauses in chunk.iter() {
                r.traces += 1;
                let cnf = to_cnf(clauses);
                if let Some((hist, w)) = explore_hasher_seq(&cnf, clauses, 3, seq_deep, &mut r) {
                    r.violation("hasher:residual-hash", format!("clause list {} after {:?} (unmerged sequences): {}", cnf_json(clauses), hist, w), json!({"kind": "hasher_seq", "cnf": cnf_json(clauses), "history": hact_json(&hist), "depth": seq_deep}));
                }
                if !crate::core::disabled("sched") && num_vars(clauses) <= 3 {
                    if let Some((hist, w)) = explore_hasher_sched(&cnf, clauses, 2, sched_depth, &mut r) {
                        r.violation("hasher:residual-hash", format!("clause list {} after {:?} (queries as part of the history): {}", cnf_json(clauses), hist, w), json!({"kind": "hasher_sched", "cnf": cnf_json(clauses), "history": hist, "depth": sched_depth}));
                    }
                }
            }
            r
        });
        rep.add_extra("rich_clause_lists_deep_sequences", fam.traces);
        rep.bound("hasher_unmerged_sequences", json!({"all_clause_lists_depth": seq_depth, "every_kth_list_and_rich_formulas_depth": seq_deep, "k": seq_deep_stride, "levels": "<= 3", "merging": "none"}));
        rep.merge(fam);
    }
    // literal repetition inside clauses (n = 2): every clause = sequence of <= 3 literals
    {
        let lits: Vec<Lit> = vec![(0, true), (0, false), (1, true), (1, false)];
        let cl: Vec<Clause> = sequences(4, 3).into_iter().map(|s| s.into_iter().map(|i| lits[i]).collect()).collect();
        let seqs = sequences(cl.len(), 2);
        let chunks: Vec<&[Vec<usize>]> = seqs.chunks(128).collect();
        let fam = par_run(ctx, &chunks, |_, chunk| {
            let mut r = Report::default();
            r.exhaustive = true;
            for s in chunk.iter() {
                let clauses: Vec<Clause> = s.iter().map(|&i| cl[i].clone()).collect();
                r.traces += 1;
                r.transitions += 1;
                let mut ev = 0;
                if let Some((k, w)) = check_cnf_utils(&clauses, &mut ev) {
                    r.violation(format!("cnf:{}", k), format!("clause list {}: {}", cnf_json(&clauses), w), json!({"kind": "cnf", "cnf": cnf_json(&clauses)}));
                }
                r.evaluations += ev;
                if r.n_violations > 32 {
                    break;
                }
            }
            r
        });
        rep.add_extra("n2_repeated_literal_clause_lists", fam.traces);
        rep.merge(fam);
    }
    // long inputs (utilities only: prime products of long lists may wrap), wide clauses over 5
    // variables (utilities + hasher with <= 2 levels), sparse large labels (utilities + hasher
    // deciding the occurring variables only)
    {
        let mut lists: Vec<(Vec<Clause>, u8)> = long_lists(ctx.tier.pick(9, 14)).into_iter().map(|c| (c, 0u8)).collect();
        let pats: Vec<usize> = if ctx.tier == Tier::Quick { vec![0b1111, 0b0101] } else { (0..16).collect() };
        lists.extend(crate::props::c09::wide_family(&pats).into_iter().step_by(ctx.tier.pick(3, 1)).map(|c| (c, 1u8)));
        let chunks: Vec<&[(Vec<Clause>, u8)]> = lists.chunks(16).collect();
        let fam = par_run(ctx, &chunks, |_, chunk| {
            let mut r = Report::default();
            r.exhaustive = true;
            for (clauses, kind) in chunk.iter() {
                r.traces += 1;
                r.transitions += 1;
                let mut ev = 0;
                if let Some((k, w)) = check_cnf_utils(clauses, &mut ev) {
                    r.violation(format!("cnf:{}", k), format!("clause list {}: {}", cnf_json(clauses), w), json!({"kind": "cnf", "cnf": cnf_json(clauses)}));
                }
                r.evaluations += ev;
                if *kind == 1 {
                    let before = r.states;
                    if let Some((hist, w)) = explore_hasher(clauses, 2, &mut r) {
                        r.violation("hasher:residual-hash", format!("clause list {} after {:?}: {}", cnf_json(clauses), hist, w), json!({"kind": "hasher", "cnf": cnf_json(clauses), "history": hact_json(&hist), "levels": 2}));
                    }
                    r.distinct_nontrivial += r.states - before;
                }
                if r.n_violations > 32 {
                    break;
                }
            }
            r
        });
        rep.add_extra("long_and_wide_clause_lists", fam.traces);
        rep.bound("long_and_wide", json!({"long_lists": "clauses of <= k literals / lists of <= k unit clauses with marked positions", "wide": "one width-4 clause + two binary clauses over 5 variables, hasher with <= 2 levels"}));
        rep.merge(fam);
        let t3 = clause_types(3);
        let mut sets = sequences(64, 2);
        if ctx.tier == Tier::Quick {
            sets = sets.into_iter().step_by(2).collect();
        }
        let maps: Vec<[usize; 3]> = vec![[0, 64, 1], [63, 64, 127], [128, 0, 64]];
        let chunks: Vec<&[Vec<usize>]> = sets.chunks(64).collect();
        let fam = par_run(ctx, &chunks, |_, chunk| {
            let mut r = Report::default();
            r.exhaustive = true;
            for s in chunk.iter() {
                let clauses: Vec<Clause> = s.iter().map(|&i| t3[i].clone()).collect();
                for m in maps.iter() {
                    r.traces += 1;
                    r.transitions += 1;
                    let mut ev = 0;
                    if let Some((k, w)) = check_cnf_utils_sparse(&clauses, m, &mut ev) {
                        r.violation(format!("cnf:{}", k), format!("clause list {} relabelled by {:?}: {}", cnf_json(&clauses), m, w), json!({"kind": "cnf_sparse", "cnf": cnf_json(&clauses), "map": m.to_vec()}));
                    }
                    r.evaluations += ev;
                    let wide: Vec<Clause> = clauses.iter().map(|c| c.iter().map(|&(v, p)| (m[v], p)).collect()).collect();
                    let occ: Vec<usize> = { let mut o: Vec<usize> = wide.iter().flat_map(|c| c.iter().map(|l| l.0)).collect(); o.sort(); o.dedup(); o };
                    let before = r.states;
                    if let Some((hist, w)) = explore_hasher_on(&wide, 3, &mut r, Some(&occ)) {
                        r.violation("hasher:residual-hash", format!("clause list {} after {:?}: {}", cnf_json(&wide), hist, w), json!({"kind": "hasher_sparse", "cnf": cnf_json(&wide), "history": hact_json(&hist)}));
                    }
                    r.distinct_nontrivial += r.states - before;
                }
                if r.n_violations > 32 {
                    break;
                }
            }
            r
        });
        rep.add_extra("sparse_label_clause_lists", fam.traces);
        rep.bound("sparse_labels", json!({"label_maps": maps.iter().map(|m| m.to_vec()).collect::<Vec<_>>(), "clause_lists": sets.len(), "hasher": "<= 3 levels, decisions on the occurring variables"}));
        rep.merge(fam);
    }
    rep.sample(json!({"cnf": [], "check": "wmc of the empty formula = 1"}));
    rep.sample(json!({"cnf": [[1, 2], [-1, 3]], "hasher_history": ["push", {"decide": 1}, "push", {"decide": -3}, "pop"]}));
    rep.assumptions.push("'residuals coincide' is read index-wise (clause i keeps the same unassigned literals), because primes are assigned per literal occurrence; decide(l) is always accompanied by setting l in the model passed to hash (the protocol)".into());
    rep.assumptions.push("prime products of the enumerated clause lists stay far below 2^128".into());
    rep
}

pub fn replay(_ctx: &Ctx, case: &Value) -> Report {
    let mut rep = Report::default();
    match case["kind"].as_str() {
        Some("cnf") => {
            let c = cnf_from_json(&case["cnf"]);
            let mut ev = 0;
            if let Some((k, w)) = check_cnf_utils(&c, &mut ev) {
                rep.violation(format!("cnf:{}", k), w, case.clone());
            }
        }
        Some("cnf_sparse") => {
            let c = cnf_from_json(&case["cnf"]);
            let m: Vec<usize> = case["map"].as_array().map(|a| a.iter().filter_map(|x| x.as_u64()).map(|x| x as usize).collect()).unwrap_or_default();
            let mut ev = 0;
            if m.len() == 3 {
                if let Some((k, w)) = check_cnf_utils_sparse(&c, &m, &mut ev) {
                    rep.violation(format!("cnf:{}", k), w, case.clone());
                }
            }
        }
        Some("hasher_sparse") => {
            let c = cnf_from_json(&case["cnf"]);
            let occ: Vec<usize> = { let mut o: Vec<usize> = c.iter().flat_map(|c| c.iter().map(|l| l.0)).collect(); o.sort(); o.dedup(); o };
            if let Some((h, w)) = explore_hasher_on(&c, 3, &mut rep, Some(&occ)) {
                rep.violation("hasher:residual-hash", format!("{:?}: {}", h, w), case.clone());
            }
        }
        Some("hasher") => {
            let c = cnf_from_json(&case["cnf"]);
            let nv = case["levels"].as_u64().map(|x| x as usize - 1).unwrap_or(num_vars(&c));
            if let Some((h, w)) = explore_hasher(&c, nv + 1, &mut rep) {
                rep.violation("hasher:residual-hash", format!("{:?}: {}", h, w), case.clone());
            }
        }
        Some("hasher_sched") => {
            let c = cnf_from_json(&case["cnf"]);
            let d = case["depth"].as_u64().unwrap_or(6) as usize;
            if let Some((h, w)) = explore_hasher_sched(&to_cnf(&c), &c, 2, d, &mut rep) {
                rep.violation("hasher:residual-hash", format!("{:?}: {}", h, w), case.clone());
            }
        }
        Some("hasher_seq") => {
            let c = cnf_from_json(&case["cnf"]);
            let nv = num_vars(&c);
            let d = case["depth"].as_u64().unwrap_or(6) as usize;
            if let Some((h, w)) = explore_hasher_seq(&to_cnf(&c), &c, (nv + 1).min(3), d, &mut rep) {
                rep.violation("hasher:residual-hash", format!("{:?}: {}", h, w), case.clone());
            }
        }
        Some("bookkeeping") => check_bookkeeping(&mut rep),
        _ => {}
    }
    rep
}
