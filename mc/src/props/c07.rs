//! C07 – weighted model counts equal the semiring sum over models, for every representation.
//! Input-space enumeration: functions x representations x semirings x weight products.

use crate::core::*;
use crate::enumerate::*;
use crate::props::bddutil::*;
use crate::props::c13::{addmod_ref, mulmod_ref, submod_ref};
use crate::tt::{self, TT};
use crate::walk::*;
use rsdd::builder::decision_nnf::{DecisionNNFBuilder, SemanticDecisionNNFBuilder, StandardDecisionNNFBuilder};
use rsdd::builder::sdd::CompressionSddBuilder;
use rsdd::builder::BottomUpBuilder;
use rsdd::constants::primes;
use rsdd::repr::{BddPtr, DDNNFPtr, SddPtr, VarLabel, WmcParams};
use rsdd::util::semirings::*;
use serde_json::{json, Value};


/// oracle values: the harness's own exact arithmetic for every shipped semiring
#[derive(Clone, Debug)]
pub enum O {
    Real(f64),
    FF(u128, u128),
    Bool(bool),
    EU(f64, f64),
    Cx(f64, f64),
    Rat(i64),
    Poly(Vec<f64>),
}

impl O {
    fn add(&self, o: &O) -> O {
        match (self, o) {
            (O::Real(a), O::Real(b)) => O::Real(a + b),
            (O::FF(a, p), O::FF(b, _)) => O::FF(addmod_ref(*a, *b, *p), *p),
            (O::Bool(a), O::Bool(b)) => O::Bool(*a || *b),
            (O::EU(a, b), O::EU(c, d)) => O::EU(a + c, b + d),
            (O::Cx(a, b), O::Cx(c, d)) => O::Cx(a + c, b + d),
            (O::Rat(a), O::Rat(b)) => O::Rat(a + b),
            (O::Poly(a), O::Poly(b)) => {
                let mut r = vec![0.0; a.len().max(b.len())];
                for (i, x) in a.iter().enumerate() {
                    r[i] += x;
                }
                for (i, x) in b.iter().enumerate() {
                    r[i] += x;
                }
                O::Poly(r)
            }
            _ => unreachable!(),
        }
    }
    fn mul(&self, o: &O) -> O {
        match (self, o) {
            (O::Real(a), O::Real(b)) => O::Real(a * b),
            (O::FF(a, p), O::FF(b, _)) => O::FF(mulmod_ref(*a, *b, *p), *p),
            (O::Bool(a), O::Bool(b)) => O::Bool(*a && *b),
            (O::EU(a, b), O::EU(c, d)) => O::EU(a * c, a * d + b * c),
            (O::Cx(a, b), O::Cx(c, d)) => O::Cx(a * c - b * d, a * d + b * c),
            (O::Rat(a), O::Rat(b)) => O::Rat(a * b),
            (O::Poly(a), O::Poly(b)) => {
                if a.is_empty() || b.is_empty() {
                    return O::Poly(vec![]);
                }
                let mut r = vec![0.0; a.len() + b.len() - 1];
                for (i, x) in a.iter().enumerate() {
                    for (j, y) in b.iter().enumerate() {
                        r[i + j] += x * y;
                    }
                }
                O::Poly(r)
            }
            _ => unreachable!(),
        }
    }
    fn same(&self, o: &O) -> bool {
        match (self, o) {
            (O::Real(a), O::Real(b)) => a == b,
            (O::FF(a, _), O::FF(b, _)) => a == b,
            (O::Bool(a), O::Bool(b)) => a == b,
            (O::EU(a, b), O::EU(c, d)) => a == c && b == d,
            (O::Cx(a, b), O::Cx(c, d)) => a == c && b == d,
            (O::Rat(a), O::Rat(b)) => a == b,
            (O::Poly(a), O::Poly(b)) => {
                // coefficient-wise in the truncated ring R[x]/(x^32); trailing zeros (the `len`
                // field) are a representation detail
                let n = a.len().max(b.len()).min(MAX_COEFFS);
                (0..n).all(|i| a.get(i).cloned().unwrap_or(0.0) == b.get(i).cloned().unwrap_or(0.0))
            }
            _ => false,
        }
    }
}

/// bridge between a library semiring and the oracle representation
pub trait Sem: Semiring + std::ops::Add<Output = Self> + std::ops::Mul<Output = Self> + 'static {
    fn name() -> String;
    fn to_o(&self) -> O;
    fn from_o(o: &O) -> Self;
    fn zero_o() -> O;
    fn one_o() -> O;
    /// weight alphabet with low + high = one
    fn alphabet() -> Vec<(O, O)>;
}

impl Sem for RealSemiring {
    fn name() -> String {
        "RealSemiring".into()
    }
    fn to_o(&self) -> O {
        O::Real(self.0)
    }
    fn from_o(o: &O) -> Self {
        match o {
            O::Real(x) => RealSemiring(*x),
            _ => unreachable!(),
        }
    }
    fn zero_o() -> O {
        O::Real(0.0)
    }
    fn one_o() -> O {
        O::Real(1.0)
    }
    fn alphabet() -> Vec<(O, O)> {
        vec![(O::Real(0.25), O::Real(0.75)), (O::Real(0.5), O::Real(0.5)), (O::Real(1.0), O::Real(0.0)), (O::Real(0.875), O::Real(0.125))]
    }
}

impl<const P: u128> Sem for FiniteField<P> {
    fn name() -> String {
        format!("FiniteField<{}>", P)
    }
    fn to_o(&self) -> O {
        O::FF(self.value(), P)
    }
    fn from_o(o: &O) -> Self {
        match o {
            O::FF(x, _) => FiniteField::new(*x),
            _ => unreachable!(),
        }
    }
    fn zero_o() -> O {
        O::FF(0, P)
    }
    fn one_o() -> O {
        O::FF(1, P)
    }
    fn alphabet() -> Vec<(O, O)> {
        let l = [2u128, P - 3, (P + 1) / 2, 0];
        l.iter().map(|&x| (O::FF(x % P, P), O::FF(submod_ref(1, x, P), P))).collect()
    }
}

impl Sem for BooleanSemiring {
    fn name() -> String {
        "BooleanSemiring".into()
    }
    fn to_o(&self) -> O {
        O::Bool(self.0)
    }
    fn from_o(o: &O) -> Self {
        match o {
            O::Bool(x) => BooleanSemiring(*x),
            _ => unreachable!(),
        }
    }
    fn zero_o() -> O {
        O::Bool(false)
    }
    fn one_o() -> O {
        O::Bool(true)
    }
    fn alphabet() -> Vec<(O, O)> {
        vec![(O::Bool(true), O::Bool(false)), (O::Bool(false), O::Bool(true)), (O::Bool(true), O::Bool(true))]
    }
}

impl Sem for ExpectedUtility {
    fn name() -> String {
        "ExpectedUtility".into()
    }
    fn to_o(&self) -> O {
        O::EU(self.0, self.1)
    }
    fn from_o(o: &O) -> Self {
        match o {
            O::EU(a, b) => ExpectedUtility(*a, *b),
            _ => unreachable!(),
        }
    }
    fn zero_o() -> O {
        O::EU(0.0, 0.0)
    }
    fn one_o() -> O {
        O::EU(1.0, 0.0)
    }
    fn alphabet() -> Vec<(O, O)> {
        vec![(O::EU(0.5, 1.0), O::EU(0.5, -1.0)), (O::EU(1.0, 0.0), O::EU(0.0, 0.0)), (O::EU(0.25, 2.0), O::EU(0.75, -2.0)), (O::EU(0.0, -2.0), O::EU(1.0, 2.0))]
    }
}

impl Sem for Complex {
    fn name() -> String {
        "Complex".into()
    }
    fn to_o(&self) -> O {
        O::Cx(self.re, self.im)
    }
    fn from_o(o: &O) -> Self {
        match o {
            O::Cx(a, b) => Complex { re: *a, im: *b },
            _ => unreachable!(),
        }
    }
    fn zero_o() -> O {
        O::Cx(0.0, 0.0)
    }
    fn one_o() -> O {
        O::Cx(1.0, 0.0)
    }
    fn alphabet() -> Vec<(O, O)> {
        vec![(O::Cx(0.5, 0.5), O::Cx(0.5, -0.5)), (O::Cx(1.0, 0.0), O::Cx(0.0, 0.0)), (O::Cx(0.25, 1.0), O::Cx(0.75, -1.0)), (O::Cx(0.0, 2.0), O::Cx(1.0, -2.0))]
    }
}

impl Sem for RationalSemiring {
    fn name() -> String {
        "RationalSemiring".into()
    }
    fn to_o(&self) -> O {
        // no accessor: read "num/den" from Display
        let s = format!("{}", self);
        let (a, b) = s.split_once('/').unwrap_or((&s, "1"));
        let (a, b): (i64, i64) = (a.parse().unwrap_or(i64::MIN), b.parse().unwrap_or(1));
        if b != 0 && a % b == 0 {
            O::Rat(a / b)
        } else {
            O::Rat(i64::MIN)
        }
    }
    fn from_o(o: &O) -> Self {
        match o {
            O::Rat(0) => RationalSemiring::zero(),
            O::Rat(1) => RationalSemiring::one(),
            _ => unreachable!(),
        }
    }
    fn zero_o() -> O {
        O::Rat(0)
    }
    fn one_o() -> O {
        O::Rat(1)
    }
    fn alphabet() -> Vec<(O, O)> {
        vec![(O::Rat(0), O::Rat(1)), (O::Rat(1), O::Rat(0))]
    }
}

impl Sem for Polynomial<RealSemiring> {
    fn name() -> String {
        "Polynomial<RealSemiring>".into()
    }
    fn to_o(&self) -> O {
        O::Poly(self.coefficients[..self.len.min(MAX_COEFFS)].iter().map(|c| c.0).collect())
    }
    fn from_o(o: &O) -> Self {
        match o {
            O::Poly(v) => {
                let mut p = Polynomial::<RealSemiring>::zero();
                for (i, c) in v.iter().enumerate().take(MAX_COEFFS) {
                    p.coefficients[i] = RealSemiring(*c);
                }
                p.len = v.len().min(MAX_COEFFS);
                p
            }
            _ => unreachable!(),
        }
    }
    fn zero_o() -> O {
        O::Poly(vec![])
    }
    fn one_o() -> O {
        O::Poly(vec![1.0])
    }
    fn alphabet() -> Vec<(O, O)> {
        // the last pair has degree 11: three of them multiply to degree 33, beyond the 32 kept
        // coefficients, so the truncation of products is exercised
        let mut lo = vec![0.0; 12];
        let mut hi = vec![0.0; 12];
        lo[0] = 0.75;
        lo[11] = -0.5;
        hi[0] = 0.25;
        hi[11] = 0.5;
        vec![(O::Poly(vec![1.0, -1.0]), O::Poly(vec![0.0, 1.0])), (O::Poly(vec![0.5]), O::Poly(vec![0.5])), (O::Poly(vec![0.75, -0.5]), O::Poly(vec![0.25, 0.5])), (O::Poly(lo), O::Poly(hi))]
    }
}

/// all weightings (full product of the alphabet) for n variables, as oracle values + library params
pub struct Suite<T: Sem> {
    pub sets: Vec<(Vec<(O, O)>, WmcParams<T>)>,
}

impl<T: Sem> Suite<T> {
    pub fn new(n: usize, alphabet: &[(O, O)], stride: usize) -> Suite<T> {
        let mut prod: Vec<Vec<(O, O)>> = vec![vec![]];
        for _ in 0..n {
            let mut nx = Vec::new();
            for w in prod.iter() {
                for a in alphabet.iter() {
                    let mut x = w.clone();
                    x.push(a.clone());
                    nx.push(x);
                }
            }
            prod = nx;
        }
        // the k-th table is built through construction history k (from a map, filled in ascending /
        // descending order, created with other weights and overwritten, ...): all of them must
        // end in the same table
        let sets = prod
            .into_iter()
            .step_by(stride.max(1))
            .enumerate()
            .map(|(k, w)| {
                let tw: Vec<(T, T)> = w.iter().map(|(l, h)| (T::from_o(l), T::from_o(h))).collect();
                (w, crate::props::wparams::build_params(&tw, k))
            })
            .collect();
        Suite { sets }
    }
}

/// brute-force semiring sum over the models of f
fn brute<T: Sem>(f: TT, n: usize, w: &[(O, O)]) -> O {
    let mut total = T::zero_o();
    for a in 0..(1usize << n) {
        if tt::eval(f, a) {
            let mut p = T::one_o();
            for v in 0..n {
                p = p.mul(if (a >> v) & 1 == 1 { &w[v].1 } else { &w[v].0 });
            }
            total = total.add(&p);
        }
    }
    total
}

fn check_ptr<'a, P: DDNNFPtr<'a>, T: Sem>(p: P, f: TT, n: usize, suite: &Suite<T>, evals: &mut u64) -> Option<String> {
    for (w, prm) in suite.sets.iter() {
        *evals += 1;
        let got = match guarded(|| p.unsmoothed_wmc(prm)) {
            Ok(g) => g.to_o(),
            Err(e) => return Some(format!("{} count panicked: {}", T::name(), e)),
        };
        let want = brute::<T>(f, n, w);
        if !got.same(&want) {
            return Some(format!("{} count under weights {:?} is {:?}, the sum over models is {:?}", T::name(), w, got, want));
        }
    }
    None
}

pub struct Suites {
    real: Suite<RealSemiring>,
    f7: Suite<FiniteField<7>>,
    ftiny: Suite<FiniteField<{ primes::U32_TINY }>>,
    f64_: Suite<FiniteField<{ primes::U64_LARGEST }>>,
    f128: Suite<FiniteField<{ primes::U128_LARGE_1 }>>,
    /// the largest modulus the type documents (P < 2^127): the Mersenne prime 2^127 - 1
    fm127: Suite<FiniteField<{ M127 }>>,
    boolean: Suite<BooleanSemiring>,
    eu: Suite<ExpectedUtility>,
    cx: Suite<Complex>,
    rat: Suite<RationalSemiring>,
    poly: Suite<Polynomial<RealSemiring>>,
}

impl Suites {
    pub fn new(n: usize, tier: Tier) -> Suites {
        let s = if n >= 5 { 41 } else if n >= 4 { 5 } else { 1 };
        let big = if tier == Tier::Quick { 4 } else { 1 };
        Suites {
            real: Suite::new(n, &RealSemiring::alphabet(), s),
            f7: Suite::new(n, &FiniteField::<7>::alphabet(), s * big),
            ftiny: Suite::new(n, &FiniteField::<{ primes::U32_TINY }>::alphabet(), s * big),
            f64_: Suite::new(n, &FiniteField::<{ primes::U64_LARGEST }>::alphabet(), s * big),
            f128: Suite::new(n, &FiniteField::<{ primes::U128_LARGE_1 }>::alphabet(), s * big * 4),
            fm127: Suite::new(n, &FiniteField::<{ M127 }>::alphabet(), s * big * 4),
            boolean: Suite::new(n, &BooleanSemiring::alphabet(), s),
            eu: Suite::new(n, &ExpectedUtility::alphabet(), s),
            cx: Suite::new(n, &Complex::alphabet(), s),
            rat: Suite::new(n, &RationalSemiring::alphabet(), 1),
            poly: Suite::new(n, &Polynomial::<RealSemiring>::alphabet(), s),
        }
    }
}

/// all semirings on one pointer + Boolean evaluation of every assignment
pub fn check_all<'a, P: DDNNFPtr<'a>>(p: P, f: TT, n: usize, s: &Suites, evals: &mut u64) -> Option<String> {
    // the semirings are visited in an order that rotates with the function, so that the last
    // count on one diagram and the first on the next (which shares nodes with it inside the
    // long-lived builder) are of the same semiring as often as not
    let rot = (f as usize) % 11;
    for k in 0..11 {
        let r = match (k + rot) % 11 {
            0 => check_ptr(p, f, n, &s.real, evals),
            1 => check_ptr(p, f, n, &s.f7, evals),
            2 => check_ptr(p, f, n, &s.ftiny, evals),
            3 => check_ptr(p, f, n, &s.f64_, evals),
            4 => check_ptr(p, f, n, &s.f128, evals),
            5 => check_ptr(p, f, n, &s.fm127, evals),
            6 => check_ptr(p, f, n, &s.boolean, evals),
            7 => check_ptr(p, f, n, &s.eu, evals),
            8 => check_ptr(p, f, n, &s.cx, evals),
            9 => check_ptr(p, f, n, &s.rat, evals),
            10 => check_ptr(p, f, n, &s.poly, evals),
            _ => None,
        };
        if let Some(e) = r {
            return Some(e);
        }
    }
    for a in 0..(1usize << n) {
        *evals += 1;
        let v = tt::assignment_vec(a, n);
        match guarded(|| p.evaluate(&v)) {
            Ok(r) => {
                if r != tt::eval(f, a) {
                    return Some(format!("evaluate({:?}) = {}, the function gives {}", v, r, tt::eval(f, a)));
                }
            }
            Err(e) => return Some(format!("evaluate panicked: {}", e)),
        }
    }
    // evaluation is a query with a history as well: every ordered pair of calls with an assignment
    // over the diagram's n variables and one over a universe that is one variable wider, back to
    // back in both orders (n <= 3; the wider assignment's extra entry is ignored by the function)
    if n <= 3 {
        for a in 0..(1usize << n) {
            let va = tt::assignment_vec(a, n);
            for b in 0..(1usize << (n + 1)) {
                let vb = tt::assignment_vec(b, n + 1);
                let wb = tt::eval(f, b & ((1 << n) - 1));
                *evals += 4;
                match guarded(|| (p.evaluate(&va), p.evaluate(&vb), p.evaluate(&vb), p.evaluate(&va))) {
                    Ok((r1, r2, r3, r4)) => {
                        if r1 != tt::eval(f, a) || r4 != tt::eval(f, a) || r2 != wb || r3 != wb {
                            return Some(format!("evaluate({:?}), evaluate({:?}), evaluate({:?}), evaluate({:?}) back to back = {}, {}, {}, {}; the function gives {}, {}, {}, {}", va, vb, vb, va, r1, r2, r3, r4, tt::eval(f, a), wb, wb, tt::eval(f, a)));
                        }
                    }
                    Err(e) => return Some(format!("evaluate over a wider universe panicked: {}", e)),
                }
            }
        }
    }
    None
}

/// canonical CNF of a function: one clause per falsifying assignment
pub fn cnf_of(f: TT, n: usize) -> Vec<Clause> {
    let mut out = Vec::new();
    for a in 0..(1usize << n) {
        if !tt::eval(f, a) {
            out.push((0..n).map(|v| (v, (a >> v) & 1 == 0)).collect());
        }
    }
    out
}

/// BDD, arbitrary integer weights: sum over the variables each sub-function depends on
fn depends_on_count(f: TT, n: usize, order: &[usize], pos: usize, w: &[(f64, f64)]) -> f64 {
    if f == 0 {
        return 0.0;
    }
    if f == tt::mask(n) {
        return 1.0;
    }
    let mut p = pos;
    while !tt::depends_on(f, order[p], n) {
        p += 1;
    }
    let v = order[p];
    w[v].0 * depends_on_count(tt::cofactor(f, v, false, n), n, order, p + 1, w) + w[v].1 * depends_on_count(tt::cofactor(f, v, true, n), n, order, p + 1, w)
}

/// Weight tables have histories: every `set_weight` sequence of length <= depth (labels 0..3, so a
/// 3-variable table is also grown by one label; three weight pairs, one of them normalised) from
/// three initial tables (empty, two built from maps) is run on the real `WmcParams` against a
/// plain map. After every step `var_weight` of every set label is compared, and as soon as labels
/// 0..2 are set a family of diagrams is counted with the table: plain BDDs against the depends-on
/// recursion, their smoothed versions against the brute-force sum.
fn table_histories(ctx: &Ctx) -> Report {
    let mut r = Report::default();
    r.exhaustive = true;
    let n = 3usize;
    let order = vec![1usize, 0, 2];
    let b = small_builder(&order, 2);
    let mut diags: Vec<(u64, BddPtr, BddPtr)> = Vec::new();
    for f in (0u64..256).step_by(ctx.tier.pick(16, 4)).chain([0x96u64, 0x0f, 0xaa, 0xf0, 0xe8]) {
        let p = build_bdd(&b, f, n);
        if bdd_tt(p, n) != f {
            continue;
        }
        let sp = match guarded(|| b.smooth(p, n)) {
            Ok(x) if bdd_tt(x, n) == f => x,
            _ => continue, // smoothing defects are C08's; here the diagram is only an instrument
        };
        diags.push((f, p, sp));
    }
    let alpha: [(f64, f64); 3] = [(1.0, 2.0), (3.0, 5.0), (0.25, 0.75)];
    let rs = |w: (f64, f64)| (RealSemiring(w.0), RealSemiring(w.1));
    let depth = ctx.tier.pick(3, 4);
    struct Env<'x, 'a> {
        diags: &'x [(u64, BddPtr<'a>, BddPtr<'a>)],
        alpha: [(f64, f64); 3],
        order: &'x [usize],
        n: usize,
        r: &'x mut Report,
        init: usize,
    }
    fn observe(e: &mut Env, p: &WmcParams<RealSemiring>, model: &[Option<(f64, f64)>], hist: &[(usize, usize)]) {
        let n = e.n;
        let case = json!({"kind": "weight_table", "initial_table": e.init, "history": hist.iter().map(|(l, a)| json!({"set_weight": {"label": l, "pair": e.alpha[*a]}})).collect::<Vec<_>>()});
        for (l, m) in model.iter().enumerate() {
            if let Some(m) = m {
                e.r.evaluations += 1;
                match guarded(|| *p.var_weight(VarLabel::new(l as u64))) {
                    Ok((lo, hi)) => {
                        if (lo.0, hi.0) != *m {
                            e.r.violation("weight-table:var-weight", format!("initial table {} then {:?}: var_weight(x{}) = ({}, {}), last set to {:?}", e.init, hist, l, lo.0, hi.0, m), case.clone());
                            return;
                        }
                    }
                    Err(p) => {
                        e.r.violation("weight-table:panic", format!("initial table {} then {:?}: var_weight(x{}) panicked: {}", e.init, hist, l, p), case.clone());
                        return;
                    }
                }
            }
        }
        if model.iter().take(n).all(|m| m.is_some()) {
            let w: Vec<(f64, f64)> = model.iter().take(n).map(|m| m.unwrap()).collect();
            for &(f, plain, smoothed) in e.diags.iter() {
                e.r.evaluations += 2;
                let want_plain = depends_on_count(f, n, e.order, 0, &w);
                let mut want_smooth = 0.0;
                for a in 0..(1usize << n) {
                    if tt::eval(f, a) {
                        let mut x = 1.0;
                        for v in 0..n {
                            x *= if (a >> v) & 1 == 1 { w[v].1 } else { w[v].0 };
                        }
                        want_smooth += x;
                    }
                }
                match guarded(|| (plain.unsmoothed_wmc(p).0, smoothed.unsmoothed_wmc(p).0)) {
                    Ok((gp, gs)) => {
                        if gp != want_plain || gs != want_smooth {
                            e.r.violation("weight-table:count", format!("initial table {} then {:?} (weights now {:?}): function {:#x} counts {} (plain BDD, expected {}) and {} (smoothed, expected {})", e.init, hist, w, f, gp, want_plain, gs, want_smooth), case.clone());
                            return;
                        }
                    }
                    Err(pn) => {
                        e.r.violation("weight-table:panic", format!("initial table {} then {:?}: counting {:#x} panicked: {}", e.init, hist, f, pn), case.clone());
                        return;
                    }
                }
            }
        }
    }
    fn rec(e: &mut Env, p: &WmcParams<RealSemiring>, model: &mut Vec<Option<(f64, f64)>>, hist: &mut Vec<(usize, usize)>, left: usize) {
        if left == 0 || e.r.n_violations > 8 {
            return;
        }
        for l in 0..=e.n {
            for a in 0..3 {
                let mut q = p.clone();
                let w = e.alpha[a];
                if guarded(|| q.set_weight(VarLabel::new(l as u64), RealSemiring(w.0), RealSemiring(w.1))).is_err() {
                    e.r.violation("weight-table:panic", format!("initial table {} then {:?}: set_weight(x{}) panicked", e.init, hist, l), json!({"kind": "weight_table"}));
                    continue;
                }
                let old = model[l];
                model[l] = Some(w);
                hist.push((l, a));
                e.r.transitions += 1;
                e.r.states += 1;
                observe(e, &q, model, hist);
                rec(e, &q, model, hist, left - 1);
                hist.pop();
                model[l] = old;
            }
        }
    }
    for init in 0..3usize {
        let (p, mut model): (WmcParams<RealSemiring>, Vec<Option<(f64, f64)>>) = match init {
            0 => (WmcParams::default(), vec![None; n + 1]),
            1 => {
                let m: std::collections::HashMap<VarLabel, (RealSemiring, RealSemiring)> = (0..n).map(|v| (VarLabel::new(v as u64), rs(alpha[0]))).collect();
                let mut md = vec![Some(alpha[0]); n];
                md.push(None);
                (WmcParams::new(m), md)
            }
            _ => {
                let m: std::collections::HashMap<VarLabel, (RealSemiring, RealSemiring)> = (0..n).map(|v| (VarLabel::new(v as u64), rs(alpha[(v + 1) % 3]))).collect();
                let mut md: Vec<Option<(f64, f64)>> = (0..n).map(|v| Some(alpha[(v + 1) % 3])).collect();
                md.push(None);
                (WmcParams::new(m), md)
            }
        };
        let mut e = Env { diags: &diags, alpha, order: &order, n, r: &mut r, init };
        e.r.traces += 1;
        observe(&mut e, &p, &model, &[]);
        rec(&mut e, &p, &mut model, &mut Vec::new(), depth);
    }
    r.max_depth = depth as u64;
    r.add_extra("weight_table_histories", r.states);
    r.bound("weight_table_histories", json!({"alphabet": "set_weight(label 0..3, one of 3 weight pairs)", "depth": depth, "initial_tables": 3, "diagrams_counted_after_every_step": diags.len() * 2}));
    r
}

#[derive(Clone)]
enum Rep {
    Bdd(Vec<usize>),
    Sdd(VT),
    TopDown(Vec<usize>, bool),
}

/// one call of another feature family on `p` (see run_rep)
fn disturb_bdd<'a>(b: &'a AllBuilder<'a>, p: BddPtr<'a>, k: u64, n: usize, dreal: &WmcParams<RealSemiring>, deu: &WmcParams<rsdd::util::semirings::ExpectedUtility>) -> Result<(), String> {
    let qv: Vec<VarLabel> = vec![VarLabel::new(0), VarLabel::new((n - 1) as u64)];
    guarded(|| match k % 10 {
        0 => {
            let _ = p.marginal_map(&qv, n, dreal);
        }
        1 => {
            let _ = p.bb(&qv[..1], n, dreal);
        }
        2 => {
            let _ = p.meu(&qv[..1], n, deu);
        }
        3 => {
            let _ = b.smooth(p, n);
        }
        4 => {
            let _ = b.condition(p, VarLabel::new(k % n as u64), k % 2 == 0);
        }
        5 => {
            let _ = p.count_nodes();
        }
        6 => {
            let _ = p.cached_semantic_hash(b.order(), &rsdd::repr::create_semantic_hash_map::<{ rsdd::constants::primes::U64_LARGEST }>(n));
        }
        7 => {
            let _ = rsdd::serialize::BDDSerializer::from_bdd(p);
        }
        8 => {
            let _ = p.marginal_map(&qv[1..], n, dreal);
            let _ = b.exists(p, VarLabel::new(0));
        }
        _ => {}
    })
}

fn rep_json(r: &Rep) -> Value {
    match r {
        Rep::Bdd(o) => json!({"bdd_order": o}),
        Rep::Sdd(v) => json!({"sdd_vtree": v.show()}),
        Rep::TopDown(o, sem) => json!({"topdown_order": o, "semantic_store": sem}),
    }
}

fn run_rep(rep: &Rep, n: usize, ctx: &Ctx, fstep: usize) -> Report {
    let mut r = Report::default();
    r.exhaustive = true;
    let suites = Suites::new(n, ctx.tier);
    let total = 1u64 << (1u64 << n);
    let mut ev = 0u64;
    let viol = |r: &mut Report, f: u64, neg: bool, what: String| {
        r.violation("count:wrong", format!("n={} {} function {:#x}{}: {}", n, rep_json(rep), f, if neg { " (negated pointer)" } else { "" }, what), json!({"kind": "count", "n": n, "rep": rep_json(rep), "function": format!("{:#x}", f)}));
    };
    match rep {
        Rep::Bdd(order) => {
            let b = small_builder(order, 2);
            // arbitrary (non-normalised) integer weights: a fixed product alphabet
            let alpha: [(f64, f64); 4] = [(1.0, 2.0), (3.0, 0.0), (0.0, 1.0), (2.0, 2.0)];
            let mut arb: Vec<(Vec<(f64, f64)>, WmcParams<RealSemiring>)> = Vec::new();
            let mut prod: Vec<Vec<(f64, f64)>> = vec![vec![]];
            for _ in 0..n {
                let mut nx = Vec::new();
                for w in prod.iter() {
                    for a in alpha.iter() {
                        let mut x = w.clone();
                        x.push(*a);
                        nx.push(x);
                    }
                }
                prod = nx;
            }
            for (k, w) in prod.into_iter().step_by(if n >= 5 { 37 } else if n >= 4 { 7 } else { 1 }).enumerate() {
                let tw: Vec<(RealSemiring, RealSemiring)> = w.iter().map(|&(l, h)| (RealSemiring(l), RealSemiring(h))).collect();
                arb.push((w, crate::props::wparams::build_params(&tw, k + 1)));
            }
            // calls of OTHER feature families on the diagram right before it is counted, rotating with the
            // function (an optimisation query, smoothing, conditioning, hashing, node counting, evaluation,
            // serialisation): whatever they leave on the nodes or in the builder meets the counts
            let dreal: WmcParams<RealSemiring> = crate::props::wparams::build_params(&(0..n).map(|v| (RealSemiring(0.125 + 0.0625 * v as f64), RealSemiring(0.875 - 0.0625 * v as f64))).collect::<Vec<_>>(), 3);
            let deu: WmcParams<rsdd::util::semirings::ExpectedUtility> = crate::props::wparams::build_params(&(0..n).map(|v| (rsdd::util::semirings::ExpectedUtility(0.25, 0.0), rsdd::util::semirings::ExpectedUtility(0.75, 0.75 * (v as f64 + 1.0)))).collect::<Vec<_>>(), 5);
            let mut f = 0;
            while f < total {
                let p = build_bdd(&b, f, n);
                if bdd_tt(p, n) == f {
                    r.transitions += 2;
                    r.states += 1;
                    if (f / fstep as u64) % 3 == 1 {
                        crate::props::bddutil::interloper((f / fstep as u64) as usize / 3);
                    }
                    if !crate::core::disabled("crossfeature") {
                        if let Err(e) = disturb_bdd(&b, p, f / fstep as u64, n, &dreal, &deu) {
                            viol(&mut r, f, false, format!("a query of another feature family before the counts panicked: {}", e));
                        }
                        r.add_extra("diagrams_disturbed_before_counting", 1);
                    }
                    if let Some(e) = check_all(p, f, n, &suites, &mut ev) {
                        viol(&mut r, f, false, e);
                    }
                    if let Some(e) = check_all(p.neg(), tt::not(f, n), n, &suites, &mut ev) {
                        viol(&mut r, f, true, e);
                    }
                    // the smoothed diagram (nodes with two equal children) denotes the same
                    // function and is counted under every weight table in turn
                    let sp = match guarded(|| b.smooth(p, n)) {
                        Ok(x) => x,
                        Err(e) => {
                            viol(&mut r, f, false, format!("smooth panicked: {}", e));
                            p
                        }
                    };
                    if bdd_tt(sp, n) == f {
                        r.transitions += 1;
                        if let Some(e) = check_all(sp, f, n, &suites, &mut ev) {
                            viol(&mut r, f, false, format!("smoothed diagram: {}", e));
                        }
                    }
                    for (w, prm) in arb.iter() {
                        ev += 1;
                        let got = match guarded(|| p.unsmoothed_wmc(prm).0) {
                            Ok(g) => g,
                            Err(e) => {
                                viol(&mut r, f, false, format!("count under unnormalised weights panicked: {}", e));
                                break;
                            }
                        };
                        let want = depends_on_count(f, n, order, 0, w);
                        if got != want {
                            viol(&mut r, f, false, format!("unnormalised weights {:?}: count {}, sum over the variables each sub-function depends on {}", w, got, want));
                        }
                    }
                }
                if r.n_violations > 16 {
                    break;
                }
                f += fstep as u64;
            }
        }
        Rep::Sdd(vt) => {
            rsdd::verif::set_table_capacity(2);
            let b = CompressionSddBuilder::new(vt.to_rsdd());
            rsdd::verif::set_table_capacity(0);
            fn sh<'a>(b: &'a CompressionSddBuilder<'a>, t: TT, v: usize, n: usize) -> SddPtr<'a> {
                if t == 0 {
                    return SddPtr::PtrFalse;
                }
                if t == tt::mask(n) {
                    return SddPtr::PtrTrue;
                }
                if !tt::depends_on(t, v, n) {
                    return sh(b, t, v + 1, n);
                }
                let hi = sh(b, tt::cofactor(t, v, true, n), v + 1, n);
                let lo = sh(b, tt::cofactor(t, v, false, n), v + 1, n);
                b.ite(SddPtr::Var(VarLabel::new(v as u64), true), hi, lo)
            }
            let mut f = 0;
            while f < total {
                let p = sh(&b, f, 0, n);
                if sdd_tt(p, n) == f {
                    r.transitions += 2;
                    r.states += 1;
                    if let Some(e) = check_all(p, f, n, &suites, &mut ev) {
                        viol(&mut r, f, false, e);
                    }
                    if let Some(e) = check_all(p.neg(), tt::not(f, n), n, &suites, &mut ev) {
                        viol(&mut r, f, true, e);
                    }
                }
                if r.n_violations > 16 {
                    break;
                }
                f += fstep as u64;
            }
        }
        Rep::TopDown(order, semantic) => {
            let mut f = 0;
            while f < total {
                let cl = cnf_of(f, n);
                if num_vars(&cl) == n {
                    let cnf = to_cnf(&cl);
                    rsdd::verif::set_table_capacity(8);
                    macro_rules! go {
                        ($b:expr) => {{
                            let b = $b;
                            rsdd::verif::set_table_capacity(0);
                            let p = b.compile_cnf_topdown(&cnf);
                            if bdd_tt(p, n) == f {
                                r.transitions += 2;
                                r.states += 1;
                                if let Some(e) = check_all(p, f, n, &suites, &mut ev) {
                                    viol(&mut r, f, false, e);
                                }
                                if let Some(e) = check_all(p.neg(), tt::not(f, n), n, &suites, &mut ev) {
                                    viol(&mut r, f, true, e);
                                }
                            }
                        }};
                    }
                    if *semantic {
                        go!(SemanticDecisionNNFBuilder::<{ primes::U64_LARGEST }>::new(order_of(order)))
                    } else {
                        go!(StandardDecisionNNFBuilder::new(order_of(order)))
                    }
                }
                if r.n_violations > 16 {
                    break;
                }
                f += (fstep * 5) as u64;
            }
        }
    }
    r.evaluations = ev;
    r.traces = r.states;
    r
}

/// 2^127 - 1 (prime), the upper end of the moduli the finite-field type documents
pub const M127: u128 = (1u128 << 127) - 1;

pub fn run(ctx: &Ctx) -> Report {
    let mut rep = Report::new(
        "every Boolean function of n variables (n = 3; n = 4 in thorough; n = 1, 2 always) in every representation (BDD in every order, SDD in every vtree, top-down decision-DNNF in every order x both stores; both polarities of every pointer, nodes shared inside one builder) x 10 semiring instances (real, 4 finite fields incl. a ~2^96 prime, Boolean, expected utility, complex, rational, polynomial) x the full product of a 3-4 element alphabet of weights with low + high = one; plus BDDs with unnormalised integer weights against the depends-on recursion; plus evaluate() on every assignment; oracle = the harness's own exact arithmetic; distinct = (representation, function, polarity); non-trivial = non-constant function",
    );
    let mut items: Vec<(Rep, usize, usize)> = Vec::new();
    for n in 1..=4usize {
        // n = 4: a stride over the 65 536 functions (every 8th per BDD order and every 32nd per
        // vtree in thorough; every 64th / 512th in quick)
        let (bstep, sstep) = if n == 4 { (ctx.tier.pick(64, 8), ctx.tier.pick(512, 32)) } else { (1, 1) };
        for o in permutations(n) {
            items.push((Rep::Bdd(o.clone()), n, bstep));
            if n <= 3 {
                items.push((Rep::TopDown(o.clone(), false), n, if ctx.tier == Tier::Quick { 5 } else { 1 }));
                items.push((Rep::TopDown(o, true), n, if ctx.tier == Tier::Quick { 5 } else { 1 }));
            }
        }
        for v in all_vtrees(n) {
            items.push((Rep::Sdd(v), n, sstep));
        }
    }
    // n = 5: an arithmetic progression through the 2^32 truth tables (about 100 functions per
    // representation in quick, 600 in thorough) on vtrees whose labels and positions disagree
    // (every shape x rotated / shuffled / identity / reversed leaf order) and three BDD orders
    {
        let step5: usize = ctx.tier.pick(44_278_013, 7_158_271);
        let leaf_orders: Vec<[usize; 5]> = if ctx.tier == Tier::Quick { vec![[4, 0, 1, 2, 3], [2, 4, 0, 3, 1]] } else { vec![[4, 0, 1, 2, 3], [2, 4, 0, 3, 1], [0, 1, 2, 3, 4], [4, 3, 2, 1, 0]] };
        for lo in leaf_orders.iter() {
            for v in vtrees_over(lo) {
                items.push((Rep::Sdd(v), 5, step5));
            }
        }
        for o in [vec![0usize, 1, 2, 3, 4], vec![4, 3, 2, 1, 0], vec![2, 4, 0, 3, 1]] {
            items.push((Rep::Bdd(o), 5, step5));
        }
    }
    // longest first for a better parallel schedule
    items.reverse();
    let r = par_run(ctx, &items, |_, (rp, n, step)| run_rep(rp, *n, ctx, *step));
    rep.merge(r);
    let th = table_histories(ctx);
    rep.merge(th);
    rep.distinct_nontrivial = rep.transitions;
    rep.bound("functions", json!(match ctx.tier { Tier::Quick => "all of F(1), F(2), F(3); every 64th function of F(4) for the 24 BDD orders, every 512th for the 120 SDD vtrees; about 100 functions of F(5) on 28 shuffled vtrees and 3 orders", Tier::Thorough => "all of F(1..3); every 8th function of F(4) for the 24 BDD orders, every 32nd for the 120 SDD vtrees; about 600 functions of F(5) on 56 vtrees and 3 orders" }));
    rep.bound("semirings", json!(["RealSemiring", "FiniteField<7>", "FiniteField<U32_TINY>", "FiniteField<U64_LARGEST>", "FiniteField<U128_LARGE_1>", "FiniteField<2^127-1>", "BooleanSemiring", "ExpectedUtility", "Complex", "RationalSemiring(0/1 weights)", "Polynomial<RealSemiring>"]));
    rep.sample(json!({"rep": {"sdd_vtree": "((0 2) 1)"}, "function": "0x96", "semiring": "Polynomial<RealSemiring>", "weights": "x_i -> (1 - x, x)"}));
    rep.assumptions.push("weights are drawn from alphabets on which f64 arithmetic is exact; polynomial results are compared coefficient-wise (the len field is a representation detail)".into());
    rep.assumptions.push("RationalSemiring can only be constructed as 0 or 1 from outside the crate".into());
    // wide managers: labels that collide modulo 32 / 64 and straddle 2^5 .. 2^8 (wide.rs)
    if !disabled("wide") {
        let w = crate::props::wide::counts(ctx);
        rep.merge(w);
    }
    rep
}

pub fn replay(ctx: &Ctx, case: &Value) -> Report {
    if let Some(r) = crate::props::wide::replay(ctx, case) {
        return r;
    }
    if case["kind"].as_str() == Some("weight_table") {
        return table_histories(ctx);
    }
    let n = case["n"].as_u64().unwrap_or(3) as usize;
    let rp = &case["rep"];
    let arr = |v: &Value| -> Vec<usize> { v.as_array().map(|a| a.iter().filter_map(|x| x.as_u64()).map(|x| x as usize).collect()).unwrap_or_default() };
    let rep = if let Some(o) = rp.get("bdd_order") {
        Rep::Bdd(arr(o))
    } else if let Some(v) = rp.get("sdd_vtree") {
        Rep::Sdd(VT::parse(v.as_str().unwrap_or("0")).unwrap_or(VT::Leaf(0)))
    } else {
        Rep::TopDown(arr(&rp["topdown_order"]), rp["semantic_store"].as_bool().unwrap_or(false))
    };
    let mut c2 = ctx.clone();
    c2.tier = Tier::Thorough;
    run_rep(&rep, n, &c2, 1)
}

#[allow(dead_code)]
fn _t(_: BddPtr) {}
