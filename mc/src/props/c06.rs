//! C06 – top-down CNF compilation to decision-DNNF is exact; conditioning results and their
//! negations gives the restricted function. Input-space enumeration over CNFs x orders x stores.

use crate::core::*;
use crate::enumerate::*;
use crate::props::bddutil::order_of;
use crate::tt::{self, TT};
use crate::walk::*;
use rsdd::builder::decision_nnf::{DecisionNNFBuilder, SemanticDecisionNNFBuilder, StandardDecisionNNFBuilder};
use rsdd::constants::primes;
use rsdd::repr::{BddPtr, DDNNFPtr, VarLabel};
use serde_json::{json, Value};

#[derive(Default)]
struct Counters {
    compiles: u64,
    conds: u64,
    unsat: u64,
    compl_roots: u64,
}

/// compile one CNF with the given builder and check everything the statement says;
/// `map[i]` is the label that table variable i carries in the builder (identity for the
/// ordinary families, sparse large labels for the wide-manager family)
fn check_with<'a, B: DecisionNNFBuilder<'a>>(
    b: &'a B,
    clauses: &[Clause],
    nv: usize,
    cn: &mut Counters,
) -> Option<(String, String)> {
    let id: Vec<usize> = (0..nv).collect();
    check_with_map(b, clauses, nv, &id, cn)
}

fn check_with_map<'a, B: DecisionNNFBuilder<'a>>(
    b: &'a B,
    clauses: &[Clause],
    nv: usize,
    map: &[usize],
    cn: &mut Counters,
) -> Option<(String, String)> {
    let wide: Vec<Clause> = clauses.iter().map(|c| c.iter().map(|&(v, p)| (map[v], p)).collect()).collect();
    let cnf = to_cnf(&wide);
    let idx = |l: usize| map.iter().position(|&m| m == l);
    let tt_of = |p: BddPtr| -> Result<TT, String> { bdd_tt_mapped(p, nv, &idx) };
    let want: TT = tt::of_cnf(clauses, nv);
    let d = match guarded(|| b.compile_cnf_topdown(&cnf)) {
        Ok(d) => d,
        Err(p) => return Some(("panic".into(), format!("compile_cnf_topdown panicked: {}", p))),
    };
    cn.compiles += 1;
    if d.is_false() != (want == 0) {
        return Some((
            "false-constant".into(),
            format!("result is the false constant = {} but the CNF is unsatisfiable = {}", d.is_false(), want == 0),
        ));
    }
    if d.is_false() {
        cn.unsat += 1;
    }
    if matches!(d, BddPtr::Compl(_)) {
        cn.compl_roots += 1;
    }
    let got = match tt_of(d) {
        Ok(g) => g,
        Err(e) => return Some(("wrong-models".into(), e)),
    };
    if got != want {
        return Some(("wrong-models".into(), format!("models {:#x}, the CNF has {:#x}", got, want)));
    }
    for path in bdd_paths(d) {
        let mut seen = std::collections::HashSet::new();
        for v in path.iter() {
            if !seen.insert(*v) {
                return Some(("variable-twice".into(), format!("a path decides variable {} twice: {:?}", v + 1, path)));
            }
        }
    }
    // conditioning the result and its negation on every literal
    for (which, p, f) in [("result", d, want), ("negated result", d.neg(), tt::not(want, nv))] {
        for v in 0..nv {
            // only variables of the manager (a sparse label map may name labels beyond the CNF's width)
            if map[v] >= cnf.num_vars() {
                continue;
            }
            for val in [true, false] {
                let r = match guarded(|| b.condition(p, VarLabel::new(map[v] as u64), val)) {
                    Ok(r) => r,
                    Err(e) => return Some(("panic".into(), format!("condition panicked: {}", e))),
                };
                cn.conds += 1;
                let w = tt::cofactor(f, v, val, nv);
                let g = tt_of(r).unwrap_or(!w);
                if g != w {
                    return Some((
                        "condition-wrong".into(),
                        format!("condition({}, x{} = {}) denotes {:#x}, the restricted function is {:#x}", which, map[v] + 1, val, g, w),
                    ));
                }
                if !p.is_scratch_cleared() || !r.is_scratch_cleared() {
                    return Some(("scratch-left".into(), format!("condition({}, x{} = {}) left scratch data behind", which, map[v] + 1, val)));
                }
            }
        }
    }
    None
}

/// the CNF relabelled into a wide manager: decision orders identity / reversed / rotated by
/// half over all labels of the manager, both stores
fn check_sparse(clauses: &[Clause], map: &[usize], cn: &mut Counters) -> Option<(String, String)> {
    let k = map.len();
    // the statement speaks of orders over the CNF's variables: the manager is exactly as wide
    // as the relabelled CNF (largest occurring label + 1), not as the label map
    let nn = match clauses.iter().flat_map(|c| c.iter().map(|l| map[l.0])).max() {
        Some(m) => m + 1,
        None => return None,
    };
    let orders: Vec<(&str, Vec<usize>)> = vec![
        ("identity", (0..nn).collect()),
        ("reversed", (0..nn).rev().collect()),
        ("rotated", (0..nn).map(|i| (i + nn / 2) % nn).collect()),
    ];
    for (oname, order) in orders {
        for store in ["standard", "semantic64"] {
            rsdd::verif::set_table_capacity(8);
            let r = if store == "standard" {
                let b = StandardDecisionNNFBuilder::new(order_of(&order));
                rsdd::verif::set_table_capacity(0);
                check_with_map(&b, clauses, k, map, cn)
            } else {
                let b = SemanticDecisionNNFBuilder::<{ primes::U64_LARGEST }>::new(order_of(&order));
                rsdd::verif::set_table_capacity(0);
                check_with_map(&b, clauses, k, map, cn)
            };
            if let Some((key, what)) = r {
                return Some((key, format!("labels {:?}, {} order, store {}: {}", map, oname, store, what)));
            }
        }
    }
    None
}

const SPARSE_MAPS: [[usize; 3]; 3] = [[0, 64, 1], [63, 64, 127], [128, 0, 64]];

fn case_json(clauses: &[Clause], order: &[usize], store: &str) -> Value {
    json!({"kind": "topdown", "cnf": cnf_json(clauses), "order": order, "store": store})
}

fn check_case(clauses: &[Clause], order: &[usize], store: &str, cn: &mut Counters) -> Option<(String, String)> {
    let nv = order.len();
    rsdd::verif::set_table_capacity(8);
    let r = if store == "standard" {
        let b = StandardDecisionNNFBuilder::new(order_of(order));
        rsdd::verif::set_table_capacity(0);
        check_with(&b, clauses, nv, cn)
    } else {
        let b = SemanticDecisionNNFBuilder::<{ primes::U64_LARGEST }>::new(order_of(order));
        rsdd::verif::set_table_capacity(0);
        check_with(&b, clauses, nv, cn)
    };
    r
}

use crate::props::c05::neighbours;

/// two compilations on one fresh builder: `a`, then a formula one edit away from it. A builder that
/// remembers compilations (a last-result slot, a component cache reached from the top) under a key
/// that is too coarse confuses exactly such look-alikes.
fn neighbour_pairs(a: &[Clause], order: &[usize], store: &str, cn: &mut Counters, rep: &mut Report) {
    let nv = order.len();
    for bcnf in neighbours(a, nv) {
        rsdd::verif::set_table_capacity(8);
        macro_rules! go {
            ($b:expr) => {{
                let b = $b;
                rsdd::verif::set_table_capacity(0);
                // (models and the false constant only; the full set of checks on a single compilation is
                // what the other regimes do)
                let mut r: Option<(String, String)> = None;
                for (which, c) in [("the first formula", a), ("the second formula", &bcnf[..])] {
                    let want = tt::of_cnf(c, nv);
                    cn.compiles += 1;
                    match guarded(|| b.compile_cnf_topdown(&to_cnf(c))) {
                        Ok(d) => {
                            let got = bdd_tt(d, nv);
                            if got != want || d.is_false() != (want == 0) {
                                r = Some(("wrong-models".into(), format!("{}: models {:#x} (false constant: {}), the CNF has {:#x}", which, got, d.is_false(), want)));
                                break;
                            }
                        }
                        Err(p) => {
                            r = Some(("panic".into(), format!("{}: compile_cnf_topdown panicked: {}", which, p)));
                            break;
                        }
                    }
                }
                r
            }};
        }
        let r = if store == "standard" { go!(StandardDecisionNNFBuilder::new(order_of(order))) } else { go!(SemanticDecisionNNFBuilder::<{ primes::U64_LARGEST }>::new(order_of(order))) };
        rep.transitions += 2;
        rep.add_extra("look_alike_pairs", 1);
        if let Some((key, what)) = r {
            rep.violation(
                format!("topdown:{}", key),
                format!("one builder, order {:?}, store {}: compile {} then {}: {}", order, store, cnf_json(a), cnf_json(&bcnf), what),
                json!({"kind": "topdown_pair", "cnf": cnf_json(a), "second": cnf_json(&bcnf), "order": order, "store": store}),
            );
            return;
        }
    }
}

/// long-lived builders: every CNF of the chunk compiled in one builder per (order, store)
fn history_chunk(cnfs: &[Vec<Clause>], order: &[usize], store: &str, cn: &mut Counters, rep: &mut Report) {
    let nv = order.len();
    rsdd::verif::set_table_capacity(2);
    macro_rules! go {
        ($b:expr) => {{
            let b = $b;
            rsdd::verif::set_table_capacity(0);
            // the CNF of all 2^nv full-width clauses: unsatisfiable, which only the search finds
            // (no unit clause, no conflict in the initial propagation); it is compiled first and
            // again after every eighth CNF, so that whatever a failed search leaves behind in the
            // builder meets the next compilation
            let poison: Vec<Clause> = (0..(1usize << nv)).map(|a| (0..nv).map(|v| (v, (a >> v) & 1 == 1)).collect()).collect();
            let mut since = 8usize;
            for c in cnfs.iter() {
                if num_vars(c) != nv {
                    continue;
                }
                if since >= 8 && nv <= 4 {
                    since = 0;
                    if let Some((key, what)) = check_with(&b, &poison, nv, cn) {
                        rep.violation(format!("topdown:{}", key), format!("cnf {} order {:?} store {} (long-lived builder): {}", cnf_json(&poison), order, store, what), case_json(&poison, order, store));
                    }
                }
                since += 1;
                rep.transitions += 1;
                // between two compilations of the long-lived builder: the builder's statistics
                // queries (they hash every node of the table)
                if rep.transitions % 2 == 1 {
                    let _ = guarded(|| (b.num_logically_redundant(), b.stats().num_nodes_alloc));
                }
                if rep.transitions % 3 == 2 {
                    crate::props::bddutil::interloper(rep.transitions as usize / 3);
                }
                if let Some((key, what)) = check_with(&b, c, nv, cn) {
                    rep.violation(
                        format!("topdown:{}", key),
                        format!("cnf {} order {:?} store {} (long-lived builder): {}", cnf_json(c), order, store, what),
                        case_json(c, order, store),
                    );
                    if rep.n_violations > 16 {
                        break;
                    }
                }
            }
        }};
    }
    if store == "standard" {
        go!(StandardDecisionNNFBuilder::new(order_of(order)))
    } else {
        go!(SemanticDecisionNNFBuilder::<{ primes::U64_LARGEST }>::new(order_of(order)))
    }
}

pub fn run(ctx: &Ctx) -> Report {
    let mut rep = Report::new(
        "every CNF of the family (clause types: each variable absent/positive/negative/both; includes empty, unit, duplicate and tautological clauses) x every permutation of its variables as decision order x {standard, semantic<2^64>} store, each in a fresh builder and again in one long-lived builder per (order, store); result false iff unsatisfiable, models equal, no variable twice on a path, all 2*#vars conditionings of the result and of its negation equal the cofactor; distinct = (CNF, order, store), non-trivial = CNF satisfiable and not valid",
    );
    let mut families: Vec<(usize, Vec<Vec<usize>>, &str)> = Vec::new();
    match ctx.tier {
        Tier::Quick => {
            families.push((3, sequences(64, 2), "n3_sequences_le2"));
            // three-clause CNFs: a rule-defined slice (every 23rd multiset)
            let ms: Vec<Vec<usize>> = multisets(64, 3).into_iter().filter(|m| m.len() == 3).step_by(23).collect();
            families.push((3, ms, "n3_multisets_3_every_23rd"));
        }
        Tier::Thorough => {
            families.push((3, sequences(64, 2), "n3_sequences_le2"));
            families.push((3, multisets(64, 3).into_iter().filter(|m| m.len() == 3).collect(), "n3_multisets_3"));
            // n = 4: two clauses of width <= 3
            let t4: Vec<usize> = clause_types(4).iter().enumerate().filter(|(_, c)| { let mut v: Vec<usize> = c.iter().map(|l| l.0).collect(); v.dedup(); v.len() <= 3 }).map(|(i, _)| i).collect();
            let ms: Vec<Vec<usize>> = multisets(t4.len(), 2).into_iter().map(|m| m.into_iter().map(|i| t4[i]).collect()).collect();
            families.push((4, ms, "n4_multisets_le2_width_le3"));
        }
    }
    // unit clauses on one variable plus four clauses over the other two (incl. the four binary
    // clauses that are unsatisfiable together without any unit being derivable): unsatisfiability
    // that neither the initial propagation nor a single decision reveals
    {
        let t3 = clause_types(3);
        for u in 0..3usize {
            let others: Vec<usize> = (0..64).filter(|&i| !t3[i].is_empty() && t3[i].iter().all(|l| l.0 != u) && !t3[i].iter().any(|&(v, p)| t3[i].contains(&(v, !p)))).collect();
            let units: Vec<usize> = (0..64).filter(|&i| t3[i].len() == 1 && t3[i][0].0 == u).collect();
            let mut sets: Vec<Vec<usize>> = Vec::new();
            for ms in multisets(others.len(), 4).into_iter().filter(|m| m.len() == 4) {
                for &un in units.iter() {
                    let mut s: Vec<usize> = vec![un];
                    s.extend(ms.iter().map(|&i| others[i]));
                    sets.push(s);
                }
            }
            if ctx.tier == Tier::Quick {
                sets = sets.into_iter().step_by(3).collect();
            }
            families.push((3, sets, ["n3_unit_x1_plus_4_clauses", "n3_unit_x2_plus_4_clauses", "n3_unit_x3_plus_4_clauses"][u]));
        }
    }
    // four variables, clauses over exactly two variables each (24 types): independent components,
    // component-cache hits between branches
    {
        let t4 = clause_types(4);
        let bin: Vec<usize> = (0..256).filter(|&i| t4[i].len() == 2 && t4[i][0].0 != t4[i][1].0).collect();
        let mut sets: Vec<Vec<usize>> = multisets(bin.len(), 2).into_iter().filter(|m| m.len() == 2).map(|m| m.into_iter().map(|i| bin[i]).collect()).collect();
        let three: Vec<Vec<usize>> = multisets(bin.len(), 3).into_iter().filter(|m| m.len() == 3).map(|m| m.into_iter().map(|i| bin[i]).collect()).collect();
        sets.extend(three.into_iter().step_by(ctx.tier.pick(29, 1)));
        sets.retain(|s| {
            let mut m = 0u32;
            for &i in s.iter() {
                for l in t4[i].iter() {
                    m |= 1 << l.0;
                }
            }
            m == 0b1111
        });
        families.push((4, sets, "n4_binary_clauses_covering_all_four_variables"));
    }
    let mut explicit: Vec<(usize, Vec<Vec<Clause>>, String)> = Vec::new();
    for (n, mut sets, name) in families {
        let types = clause_types(n);
        ctx.rotate(&mut sets);
        explicit.push((n, sets.iter().map(|s| s.iter().map(|&i| types[i].clone()).collect()).collect(), name.to_string()));
    }
    // five variables: one clause of width 4 plus two binary clauses linking the fifth variable
    // (a single decision falsifies two literals of the open wide clause), every decision order
    {
        let pats: Vec<usize> = if ctx.tier == Tier::Quick { vec![0b1111, 0b0101] } else { (0..16).collect() };
        let mut cnfs = crate::props::c09::wide_family(&pats);
        if ctx.tier == Tier::Quick {
            cnfs = cnfs.into_iter().step_by(2).collect();
        }
        explicit.push((5, cnfs, "n5_wide4_plus_2_binary".to_string()));
    }
    // long inputs: clauses with up to maxk literals and lists of up to maxk unit clauses
    explicit.push((3, long_lists(ctx.tier.pick(9, 14)), "n3_long_clauses_and_long_unit_lists".to_string()));
    explicit.push((3, long_unit_lists(&ctx.tier.pick(vec![32, 33], vec![16, 17, 31, 32, 33, 48, 64, 65])).into_iter().step_by(ctx.tier.pick(4, 1)).collect(), "n3_unit_lists_around_powers_of_two".to_string()));
    // five variables: the same literal occurrences grouped differently under x and under !x
    // (two residual formulas over the same assigned variables whose literals coincide)
    {
        let (xs, pats): (Vec<usize>, Vec<usize>) = if ctx.tier == Tier::Quick { (vec![0, 4], vec![0b1111, 0b0110]) } else { ((0..5).collect(), (0..16).collect()) };
        explicit.push((5, crate::props::c09::regroup_family(&xs, &pats), "n5_regrouped_literals".to_string()));
    }
    for (n, sets, name) in explicit {
        let chunks: Vec<&[Vec<Clause>]> = sets.chunks(if n >= 5 { 8 } else { 48 }).collect();
        let fam = par_run(ctx, &chunks, |_, chunk| {
            let mut r = Report::default();
            r.exhaustive = true;
            let mut cn = Counters::default();
            let cnfs: Vec<Vec<Clause>> = chunk.to_vec();
            for c in cnfs.iter() {
                let nv = num_vars(c);
                r.states += 1;
                let f = tt::of_cnf(c, nv);
                for order in permutations(nv) {
                    for store in ["standard", "semantic64"] {
                        r.transitions += 1;
                        r.traces += 1;
                        if f != 0 && f != tt::mask(nv) {
                            r.distinct_nontrivial += 1;
                        }
                        if let Some((key, what)) = check_case(c, &order, store, &mut cn) {
                            r.violation(
                                format!("topdown:{}", key),
                                format!("cnf {} order {:?} store {}: {}", cnf_json(c), order, store, what),
                                case_json(c, &order, store),
                            );
                        }
                    }
                }
                // look-alike pairs (the two-clause families; every second order in quick)
                // (a top-down compilation costs about a millisecond in this build, so the quick tier takes every
                // sixth formula under one order and one store, rotating; the thorough tier takes all)
                if c.len() <= 2 && nv <= 3 && nv >= 1 && !crate::core::disabled("lookalike") && (ctx.tier == Tier::Thorough || r.states % 6 == 1) {
                    let perms = permutations(nv);
                    for (oi, order) in perms.iter().enumerate() {
                        if ctx.tier == Tier::Quick && oi != (r.states as usize / 6) % perms.len() {
                            continue;
                        }
                        for (si, store) in ["standard", "semantic64"].into_iter().enumerate() {
                            if ctx.tier == Tier::Quick && si != (r.states as usize / 6 / perms.len()) % 2 {
                                continue;
                            }
                            neighbour_pairs(c, order, store, &mut cn, &mut r);
                        }
                    }
                }
                if r.n_violations > 16 {
                    break;
                }
            }
            // history regime over the chunk
            for nv in 1..=n {
                for order in permutations(nv) {
                    for store in ["standard", "semantic64"] {
                        history_chunk(&cnfs, &order, store, &mut cn, &mut r);
                    }
                }
            }
            r.evaluations += cn.compiles + cn.conds;
            r.add_extra("compilations", cn.compiles);
            r.add_extra("conditionings", cn.conds);
            r.add_extra("unsat_results", cn.unsat);
            r.add_extra("complemented_roots", cn.compl_roots);
            r
        });
        rep.add_extra(&format!("{}_cnfs", name), fam.states);
        rep.bound(&name, json!({"variables": n, "cnfs": sets.len()}));
        rep.merge(fam);
    }
    // sparse, large labels in wide managers: every sequence of <= 2 clauses over 3 variables
    {
        let types = clause_types(3);
        let mut sets = sequences(64, 2);
        if ctx.tier == Tier::Quick {
            sets = sets.into_iter().step_by(3).collect();
        }
        let chunks: Vec<&[Vec<usize>]> = sets.chunks(32).collect();
        let fam = par_run(ctx, &chunks, |_, chunk| {
            let mut r = Report::default();
            r.exhaustive = true;
            let mut cn = Counters::default();
            for s in chunk.iter() {
                let clauses: Vec<Clause> = s.iter().map(|&i| types[i].clone()).collect();
                for m in SPARSE_MAPS.iter() {
                    r.states += 1;
                    r.transitions += 6;
                    r.traces += 6;
                    if let Some((key, what)) = check_sparse(&clauses, m, &mut cn) {
                        r.violation(format!("topdown:{}", key), format!("cnf {} relabelled: {}", cnf_json(&clauses), what), json!({"kind": "topdown_sparse", "cnf": cnf_json(&clauses), "map": m.to_vec()}));
                    }
                }
                if r.n_violations > 16 {
                    break;
                }
            }
            r.evaluations += cn.compiles + cn.conds;
            r.add_extra("compilations", cn.compiles);
            r.add_extra("conditionings", cn.conds);
            r
        });
        rep.add_extra("sparse_label_cnfs", fam.states);
        rep.bound("sparse_labels", json!({"label_maps": SPARSE_MAPS.iter().map(|m| m.to_vec()).collect::<Vec<_>>(), "cnfs": sets.len(), "orders": ["identity", "reversed", "rotated by half"], "stores": 2}));
        rep.merge(fam);
    }
    let unsat = rep.extra.get("unsat_results").and_then(|v| v.as_u64()).unwrap_or(0);
    let compl = rep.extra.get("complemented_roots").and_then(|v| v.as_u64()).unwrap_or(0);
    rep.floor("unsatisfiable CNFs compiled", unsat, 1);
    rep.floor("results with a complemented root", compl, 1);
    rep.sample(json!({"cnf": [[1, 2], [-2, 3]], "order": [0, 1, 2], "store": "standard", "checks": "models, paths, 12 conditionings of d and of not d"}));
    rep.assumptions.push("orders are permutations of exactly the CNF's variables 0..max index (the builder's precondition)".into());
    rep.assumptions.push("the semantic store is exercised with the shipped seed over the 64-bit field; a hash collision between different functions would show up as a wrong model set".into());
    // long formulas: 9 to 70 clauses over 6 to 10 variables (longcnf.rs)
    if !disabled("longcnf") {
        let w = crate::props::longcnf::top_down(ctx);
        rep.merge(w);
        rep.merge(crate::props::longcnf::top_down_wide(ctx));
    }
    rep
}

pub fn replay(_ctx: &Ctx, case: &Value) -> Report {
    if let Some(r) = crate::props::longcnf::replay(_ctx, case, true) {
        return r;
    }
    let mut rep = Report::default();
    let clauses = cnf_from_json(&case["cnf"]);
    let order: Vec<usize> = case["order"].as_array().map(|a| a.iter().filter_map(|x| x.as_u64()).map(|x| x as usize).collect()).unwrap_or_default();
    let store = case["store"].as_str().unwrap_or("standard");
    let mut cn = Counters::default();
    if case["kind"].as_str() == Some("topdown_pair") {
        neighbour_pairs(&clauses, &order, store, &mut cn, &mut rep);
        return rep;
    }
    if case["kind"].as_str() == Some("topdown_sparse") {
        let m: Vec<usize> = case["map"].as_array().map(|a| a.iter().filter_map(|x| x.as_u64()).map(|x| x as usize).collect()).unwrap_or_default();
        if m.len() == 3 {
            if let Some((key, what)) = check_sparse(&clauses, &m, &mut cn) {
                rep.violation(format!("topdown:{}", key), what, case.clone());
            }
        }
        return rep;
    }
    if let Some((key, what)) = check_case(&clauses, &order, store, &mut cn) {
        rep.violation(format!("topdown:{}", key), what, case.clone());
    }
    rep
}
