//! C14 – orders, dtrees and vtrees derived from a formula are well formed.
//! Input-space enumeration over CNFs x elimination orders, and over all vtrees x node pairs.

use crate::core::*;
use crate::enumerate::*;
use rsdd::repr::{Cnf, DTree, Literal, VTree, VTreeManager, VarLabel, VarOrder};
use serde_json::{json, Value};
use std::collections::BTreeSet;

// ---------------------------------------------------------------------------------------------
// orders

fn check_order(o: &VarOrder, nv: usize, what: &str) -> Option<String> {
    if o.num_vars() != nv {
        return Some(format!("{}: order has {} variables, the formula has {}", what, o.num_vars(), nv));
    }
    let mut seen = vec![false; nv];
    for pos in 0..nv {
        let v = match guarded(|| o.var_at_level(pos)) {
            Ok(v) => v.value_usize(),
            Err(p) => return Some(format!("{}: var_at_level({}) panicked: {}", what, pos, p)),
        };
        if v >= nv || seen[v] {
            return Some(format!("{}: not a permutation (level {} holds label {})", what, pos, v));
        }
        seen[v] = true;
        if o.get(VarLabel::new(v as u64)) != pos {
            return Some(format!("{}: get(var_at_level({})) = {}", what, pos, o.get(VarLabel::new(v as u64))));
        }
    }
    for v in 0..nv {
        let pos = o.get(VarLabel::new(v as u64));
        if pos >= nv || o.var_at_level(pos).value_usize() != v {
            return Some(format!("{}: var_at_level(get({})) != {}", what, v, v));
        }
    }
    let it: Vec<usize> = o.in_order_iter().map(|v| v.value_usize()).collect();
    let want: Vec<usize> = (0..nv).map(|p| o.var_at_level(p).value_usize()).collect();
    if it != want {
        return Some(format!("{}: in_order_iter {:?} disagrees with var_at_level {:?}", what, it, want));
    }
    // the other views of the same two maps (read as part of "position and label maps are mutually
    // inverse": they are how the maps are enumerated and compared)
    if !crate::core::disabled("order_views") {
        let r = guarded(|| -> Option<String> {
            let rev: Vec<usize> = o.reverse_in_order_iter().map(|v| v.value_usize()).collect();
            let mut wr = want.clone();
            wr.reverse();
            if rev != wr {
                return Some(format!("reverse_in_order_iter {:?} is not the reverse of the levels {:?}", rev, want));
            }
            if nv > 0 && o.last_var().value_usize() != want[nv - 1] {
                return Some(format!("last_var = {}, the last level holds {}", o.last_var().value_usize(), want[nv - 1]));
            }
            for p in 0..nv {
                let v = VarLabel::new(want[p] as u64);
                let ab = o.above(v).map(|x| x.value_usize());
                let be = o.below(v).map(|x| x.value_usize());
                if ab != (if p == 0 { None } else { Some(want[p - 1]) }) || be != (if p + 1 == nv { None } else { Some(want[p + 1]) }) {
                    return Some(format!("above / below of the variable at level {} are {:?} / {:?}, the levels are {:?}", p, ab, be, want));
                }
                for q in 0..nv {
                    let w = VarLabel::new(want[q] as u64);
                    if o.lt(v, w) != (p < q) || o.lte(v, w) != (p <= q) {
                        return Some(format!("lt / lte of the variables at levels {} and {} = {} / {}", p, q, o.lt(v, w), o.lte(v, w)));
                    }
                }
            }
            for lo in 0..=nv {
                for hi in lo..=nv {
                    // (documented as "all variables between [low_level..high_level)": compared as a set)
                    let mut got: Vec<usize> = o.between_iter(lo, hi).map(|v| v.value_usize()).collect();
                    let mut w: Vec<usize> = want[lo..hi].to_vec();
                    got.sort();
                    w.sort();
                    if got != w {
                        return Some(format!("between_iter({}, {}) yields {:?}, levels {}..{} hold {:?}", lo, hi, got, lo, hi, w));
                    }
                }
            }
            None
        });
        match r {
            Ok(Some(e)) => return Some(format!("{}: {}", what, e)),
            Err(p) => return Some(format!("{}: a view of the order (reverse_in_order_iter / last_var / above / below / lt / lte / between_iter) panicked: {}", what, p)),
            Ok(None) => {}
        }
    }
    None
}

// ---------------------------------------------------------------------------------------------
// dtrees

fn vs(s: &rsdd::repr::VarSet) -> BTreeSet<usize> {
    s.iter().map(|v| v.value_usize()).collect()
}

/// returns (vars recomputed from the leaves, leaf clauses in left-to-right order)
fn check_dtree(t: &DTree, above: &BTreeSet<usize>, leaves: &mut Vec<Vec<(usize, bool)>>) -> Result<BTreeSet<usize>, String> {
    match t {
        DTree::Leaf { clause, cutset: _, vars } => {
            let c: Vec<(usize, bool)> = clause.iter().map(|l| (l.label().value_usize(), l.polarity())).collect();
            let mine: BTreeSet<usize> = c.iter().map(|l| l.0).collect();
            if vs(vars) != mine {
                return Err(format!("leaf {:?}: vars {:?} but the clause mentions {:?}", c, vs(vars), mine));
            }
            leaves.push(c);
            Ok(mine)
        }
        DTree::Node { l, r, cutset, vars } => {
            // expected cutset needs the children's variables first
            let mut tmp = Vec::new();
            let lv = vars_of(l, &mut tmp);
            let rv = vars_of(r, &mut tmp);
            let want_cut: BTreeSet<usize> = lv.intersection(&rv).filter(|v| !above.contains(v)).cloned().collect();
            let mut below = above.clone();
            below.extend(want_cut.iter().cloned());
            let lv2 = check_dtree(l, &below, leaves)?;
            let rv2 = check_dtree(r, &below, leaves)?;
            let union: BTreeSet<usize> = lv2.union(&rv2).cloned().collect();
            if vs(vars) != union {
                return Err(format!("node: vars {:?} but the children have {:?} and {:?}", vs(vars), lv2, rv2));
            }
            if vs(cutset) != want_cut {
                return Err(format!(
                    "node over {:?}: cutset {:?}, shared by the children and not cut above is {:?}",
                    union,
                    vs(cutset),
                    want_cut
                ));
            }
            Ok(union)
        }
    }
}

fn vars_of(t: &DTree, _tmp: &mut Vec<()>) -> BTreeSet<usize> {
    match t {
        DTree::Leaf { clause, .. } => clause.iter().map(|l| l.label().value_usize()).collect(),
        DTree::Node { l, r, .. } => {
            let mut a = vars_of(l, _tmp);
            a.extend(vars_of(r, _tmp));
            a
        }
    }
}

/// the clause list the CNF holds, recomputed: stable sort by label, exact duplicates removed
fn normalise(clauses: &[Clause]) -> Vec<Vec<(usize, bool)>> {
    clauses
        .iter()
        .map(|c| {
            let mut c = c.clone();
            c.sort_by_key(|l| l.0);
            c.dedup();
            c
        })
        .collect()
}

fn check_cnf_case(clauses: &[Clause], elim: &[usize]) -> Option<(String, String)> {
    let cnf = to_cnf(clauses);
    let nv = cnf.num_vars();
    let order = crate::props::bddutil::order_of(elim);
    let dt = match guarded(|| DTree::from_cnf(&cnf, &order)) {
        Ok(d) => d,
        Err(p) => return Some(("dtree-panic".into(), format!("DTree::from_cnf panicked: {}", p))),
    };
    let mut leaves = Vec::new();
    match check_dtree(&dt, &BTreeSet::new(), &mut leaves) {
        Err(e) => return Some(("dtree-annotation".into(), e)),
        Ok(_) => (),
    }
    let mut got = leaves.clone();
    let mut want = normalise(clauses);
    got.sort();
    want.sort();
    if got != want {
        return Some(("dtree-leaves".into(), format!("leaves {:?} are not the CNF's clauses {:?}", got, want)));
    }
    // vtree derived from the dtree
    let occurring: BTreeSet<usize> = clauses.iter().flat_map(|c| c.iter().map(|l| l.0)).collect();
    let vt = match guarded(|| VTree::from_dtree(&dt)) {
        Ok(v) => v,
        Err(p) => return Some(("vtree-panic".into(), format!("VTree::from_dtree panicked: {}", p))),
    };
    match vt {
        None => {
            if !occurring.is_empty() {
                return Some(("vtree-missing".into(), format!("no vtree although the CNF mentions {:?}", occurring)));
            }
        }
        Some(v) => {
            let mut lv = VT::from_rsdd(&v).leaves();
            lv.sort();
            let want: Vec<usize> = occurring.iter().cloned().collect();
            if lv != want {
                return Some(("vtree-leaves".into(), format!("vtree leaves {:?}, CNF variables {:?}", lv, want)));
            }
        }
    }
    let _ = nv;
    None
}

fn check_orders_of(clauses: &[Clause], derived: bool) -> Option<(String, String)> {
    let cnf: Cnf = to_cnf(clauses);
    if let Some(e) = check_orders_obj(&cnf, clauses) {
        return Some(e);
    }
    // formulas have histories: the orders of a formula obtained by conditioning a parent that
    // has already produced its orders (above), and the orders asked for a second time, must be
    // as well formed as those of a fresh formula
    if !derived {
        return None;
    }
    // (every occurring variable and one that does not occur; wide managers have > 100 of those)
    let mut vars: Vec<usize> = clauses.iter().flat_map(|c| c.iter().map(|l| l.0)).collect::<BTreeSet<usize>>().into_iter().collect();
    if let Some(free) = (0..cnf.num_vars()).find(|v| !vars.contains(v)) {
        vars.push(free);
    }
    for v in vars {
        for pol in [true, false] {
            let child = match guarded(|| cnf.condition(Literal::new(VarLabel::new(v as u64), pol))) {
                Ok(c) => c,
                Err(_) => continue, // conditioning itself is C15's
            };
            let cl: Vec<Clause> = child.clauses().iter().map(|c| c.iter().map(|l| (l.label().value_usize(), l.polarity())).collect()).collect();
            if cl.is_empty() {
                continue;
            }
            if let Some((k, e)) = check_orders_obj(&child, &cl) {
                return Some((k, format!("formula obtained by condition(x{}={}) from the queried parent (it holds {}): {}", v + 1, pol, cnf_json(&cl), e)));
            }
        }
    }
    if let Some((k, e)) = check_orders_obj(&cnf, clauses) {
        return Some((k, format!("second round of order queries on the same formula: {}", e)));
    }
    None
}

fn check_orders_obj(cnf: &Cnf, clauses: &[Clause]) -> Option<(String, String)> {
    let nv = cnf.num_vars();
    if let Some(e) = check_order(&cnf.linear_order(), nv, "linear_order") {
        return Some(("order-linear".into(), e));
    }
    match guarded(|| cnf.min_fill_order()) {
        Ok(o) => {
            if let Some(e) = check_order(&o, nv, "min_fill_order") {
                return Some(("order-min-fill".into(), e));
            }
            // run-time extension
            let mut o2 = o.clone();
            for k in 0..3 {
                let l = o2.new_last();
                if l.value_usize() != nv + k {
                    return Some(("order-extension".into(), format!("new_last returned label {} for an order of {} variables", l.value(), nv + k)));
                }
                if let Some(e) = check_order(&o2, nv + k + 1, "min_fill_order + new_last") {
                    return Some(("order-extension".into(), e));
                }
                if o2.get(l) != nv + k {
                    return Some(("order-extension".into(), format!("new variable is at level {} instead of last", o2.get(l))));
                }
            }
        }
        Err(p) => return Some(("order-min-fill".into(), format!("min_fill_order panicked: {}", p))),
    }
    if !clauses.is_empty() && clauses.iter().all(|c| !c.is_empty()) {
        match guarded(|| cnf.force_order()) {
            Ok(o) => {
                if let Some(e) = check_order(&o, nv, "force_order") {
                    return Some(("order-force".into(), e));
                }
            }
            Err(p) => return Some(("order-force".into(), format!("force_order panicked: {}", p))),
        }
    }
    None
}

// ---------------------------------------------------------------------------------------------
// vtree manager

struct Shape {
    /// per in-order index: (subtree, parent index, is left child)
    nodes: Vec<VT>,
    parent: Vec<Option<usize>>,
    left: Vec<Option<usize>>,
    right: Vec<Option<usize>>,
}

fn shape_of(t: &VT) -> Shape {
    fn rec(t: &VT, s: &mut Shape) -> usize {
        match t {
            VT::Leaf(_) => {
                s.nodes.push(t.clone());
                s.parent.push(None);
                s.left.push(None);
                s.right.push(None);
                s.nodes.len() - 1
            }
            VT::Node(l, r) => {
                let li = rec(l, s);
                s.nodes.push(t.clone());
                s.parent.push(None);
                s.left.push(Some(li));
                s.right.push(None);
                let me = s.nodes.len() - 1;
                let ri = rec(r, s);
                s.right[me] = Some(ri);
                s.parent[li] = Some(me);
                s.parent[ri] = Some(me);
                me
            }
        }
    }
    let mut s = Shape { nodes: vec![], parent: vec![], left: vec![], right: vec![] };
    rec(t, &mut s);
    s
}

impl Shape {
    fn ancestors(&self, mut i: usize) -> Vec<usize> {
        let mut v = vec![i];
        while let Some(p) = self.parent[i] {
            v.push(p);
            i = p;
        }
        v
    }
    fn lca(&self, a: usize, b: usize) -> usize {
        let aa = self.ancestors(a);
        let ab = self.ancestors(b);
        *aa.iter().find(|x| ab.contains(x)).unwrap()
    }
    fn in_subtree(&self, root: Option<usize>, x: usize) -> bool {
        match root {
            None => false,
            Some(r) => self.ancestors(x).contains(&r),
        }
    }
    /// a is prime to b: at their lca, a lies on the left side (or is the lca with b on its right,
    /// or b is the lca with a on its left)
    fn is_prime(&self, a: usize, b: usize) -> bool {
        if a == b {
            return false;
        }
        let c = self.lca(a, b);
        if c == a {
            self.in_subtree(self.right[a], b)
        } else if c == b {
            self.in_subtree(self.left[b], a)
        } else {
            self.in_subtree(self.left[c], a) && self.in_subtree(self.right[c], b)
        }
    }
}

fn check_vtree(t: &VT, evals: &mut u64) -> Option<(String, String)> {
    let man = match guarded(|| VTreeManager::new(t.to_rsdd())) {
        Ok(m) => m,
        Err(p) => return Some(("vtree-manager-panic".into(), format!("VTreeManager::new panicked: {}", p))),
    };
    let sh = shape_of(t);
    let leaves = t.leaves();
    let n = leaves.len();
    // variable count
    *evals += 1;
    match guarded(|| man.num_vars()) {
        Ok(k) => {
            if k != n {
                return Some(("num-vars".into(), format!("num_vars() = {} for a vtree over the {} variables {:?}", k, n, leaves)));
            }
        }
        Err(p) => return Some(("num-vars".into(), format!("num_vars panicked: {}", p))),
    }
    // in-order index of every leaf
    let mut idx_of_node: Vec<Option<rsdd::repr::VTreeIndex>> = vec![None; sh.nodes.len()];
    for (i, nd) in sh.nodes.iter().enumerate() {
        if let VT::Leaf(v) = nd {
            let vi = man.var_index(VarLabel::new(*v as u64));
            *evals += 1;
            if vi.value() != i {
                return Some(("var-index".into(), format!("var_index({}) = {}, in-order position is {}", v, vi.value(), i)));
            }
            idx_of_node[i] = Some(vi);
        }
    }
    // internal indices: every internal node is the lca of a leaf pair
    for a in 0..sh.nodes.len() {
        for b in 0..sh.nodes.len() {
            if let (Some(ia), Some(ib), VT::Leaf(_), VT::Leaf(_)) = (idx_of_node[a], idx_of_node[b], &sh.nodes[a], &sh.nodes[b]) {
                let c = sh.lca(a, b);
                let got = match guarded(|| man.lca(ia, ib)) {
                    Ok(g) => g,
                    Err(p) => return Some(("lca".into(), format!("lca panicked: {}", p))),
                };
                *evals += 1;
                if got.value() != c {
                    return Some(("lca".into(), format!("lca of leaves at {} and {} = {}, the shape gives {}", a, b, got.value(), c)));
                }
                idx_of_node[c] = Some(got);
            }
        }
    }
    // all node pairs
    for a in 0..sh.nodes.len() {
        let ia = match idx_of_node[a] {
            Some(x) => x,
            None => return Some(("lca".into(), format!("node {} never appeared as an lca", a))),
        };
        let sub = VT::from_rsdd(man.vtree(ia));
        *evals += 1;
        if sub != sh.nodes[a] {
            return Some(("vtree-lookup".into(), format!("vtree({}) = {}, the subtree at that position is {}", a, sub.show(), sh.nodes[a].show())));
        }
        for b in 0..sh.nodes.len() {
            let ib = idx_of_node[b].unwrap_or(ia);
            let c = sh.lca(a, b);
            let got = match guarded(|| man.lca(ia, ib)) {
                Ok(g) => g,
                Err(p) => return Some(("lca".into(), format!("lca panicked: {}", p))),
            };
            *evals += 2;
            if idx_of_node[b].is_some() && got.value() != c {
                return Some(("lca".into(), format!("lca({}, {}) = {}, the shape gives {}", a, b, got.value(), c)));
            }
            if a != b && idx_of_node[b].is_some() && man.is_prime_index(ia, ib) != sh.is_prime(a, b) {
                return Some(("prime-relation".into(), format!("is_prime_index({}, {}) = {}, the shape says {}", a, b, man.is_prime_index(ia, ib), sh.is_prime(a, b))));
            }
            if let (VT::Leaf(x), VT::Leaf(y)) = (&sh.nodes[a], &sh.nodes[b]) {
                if a != b && man.is_prime_var(VarLabel::new(*x as u64), VarLabel::new(*y as u64)) != sh.is_prime(a, b) {
                    return Some(("prime-relation".into(), format!("is_prime_var({}, {}) disagrees with the shape", x, y)));
                }
            }
        }
    }
    if VT::from_rsdd(man.vtree_root()) != *t {
        return Some(("vtree-root".into(), "vtree_root() is not the tree the manager was built from".into()));
    }
    None
}

/// query sequences on fresh managers: every ordered pair (every triple for <= 3 leaves) of queries from
/// {lca of two leaves, is_prime_var of two leaves}, each sequence on a manager of its own - the nested
/// loops of check_vtree ask every pair low-index-first before high-index-first on ONE manager, which is
/// exactly the order in which a manager that remembers answers is right
fn check_vtree_queries(t: &VT, evals: &mut u64) -> Option<(String, String)> {
    let sh = shape_of(t);
    let leaves: Vec<(usize, usize)> = sh.nodes.iter().enumerate().filter_map(|(i, nd)| if let VT::Leaf(v) = nd { Some((i, *v)) } else { None }).collect();
    let n = leaves.len();
    if n < 2 {
        return None;
    }
    // query = (kind, leaf a, leaf b)
    let mut qs: Vec<(u8, usize, usize)> = Vec::new();
    for a in 0..n {
        for b in 0..n {
            qs.push((0, a, b));
            if a != b {
                qs.push((1, a, b));
            }
        }
    }
    let len = if n <= 3 { 3 } else { 2 };
    let total = qs.len().pow(len as u32);
    for code in 0..total {
        let mut c = code;
        let mut seq = Vec::new();
        for _ in 0..len {
            seq.push(qs[c % qs.len()]);
            c /= qs.len();
        }
        let man = match guarded(|| VTreeManager::new(t.to_rsdd())) {
            Ok(m) => m,
            Err(p) => return Some(("vtree-manager-panic".into(), format!("VTreeManager::new panicked: {}", p))),
        };
        for (step, &(kind, a, b)) in seq.iter().enumerate() {
            let (na, va) = leaves[a];
            let (nb, vb) = leaves[b];
            *evals += 1;
            let r = guarded(|| {
                if kind == 0 {
                    let (ia, ib) = (man.var_index(VarLabel::new(va as u64)), man.var_index(VarLabel::new(vb as u64)));
                    Ok(man.lca(ia, ib).value())
                } else {
                    Err(man.is_prime_var(VarLabel::new(va as u64), VarLabel::new(vb as u64)))
                }
            });
            match r {
                Ok(Ok(got)) => {
                    if got != sh.lca(na, nb) {
                        return Some(("lca".into(), format!("fresh manager, query {} of {:?} (0 = lca, 1 = is_prime_var; leaves by position): lca of the leaves x{} and x{} = {}, the shape gives {}", step + 1, seq, va, vb, got, sh.lca(na, nb))));
                    }
                }
                Ok(Err(got)) => {
                    if got != sh.is_prime(na, nb) {
                        return Some(("prime-relation".into(), format!("fresh manager, query {} of {:?}: is_prime_var(x{}, x{}) = {}, the shape says {}", step + 1, seq, va, vb, got, sh.is_prime(na, nb))));
                    }
                }
                Err(p) => return Some(("lca".into(), format!("fresh manager, query {} of {:?} panicked: {}", step + 1, seq, p))),
            }
        }
    }
    None
}

/// elimination orders: all permutations for small variable sets; identity, reversed and
/// rotated-by-half for wide ones
/// a vtree for a message (the whole text is in the replay file)
fn short_vt(t: &VT) -> String {
    let s = t.show();
    if s.len() > 80 { format!("{} ... {} ({} leaves)", &s[..30], &s[s.len() - 30..], t.leaves().len()) } else { s }
}

fn elims_for(nv: usize) -> Vec<Vec<usize>> {
    if nv <= 8 {
        permutations(nv)
    } else {
        vec![(0..nv).collect(), (0..nv).rev().collect(), (0..nv).map(|i| (i + nv / 2) % nv).collect()]
    }
}

pub fn run(ctx: &Ctx) -> Report {
    let mut rep = Report::new(
        "CNFs (every sequence/multiset of clause types over <= 3-4 variables: unit, duplicate, tautological, empty clauses, unused indices, disconnected components) x every elimination order: linear/min-fill/FORCE/extended orders are inverse permutations, dtree leaves = clauses, vars = union of children, cutset = shared and not cut above, derived vtree has every CNF variable exactly once; every vtree (all shapes x all labellings, <= 4 leaves quick / 5 thorough) x every node pair: in-order index, lca, prime relation, subtree lookup, variable count; distinct = (input, order); non-trivial = CNF with >= 2 clauses / vtree with >= 3 leaves",
    );
    // CNF side
    let mut fams: Vec<(usize, Vec<Vec<usize>>, &str)> = Vec::new();
    match ctx.tier {
        Tier::Quick => {
            fams.push((3, sequences(64, 2), "n3_sequences_le2"));
            fams.push((3, multisets(64, 3).into_iter().filter(|m| m.len() == 3).step_by(11).collect(), "n3_multisets_3_every_11th"));
        }
        Tier::Thorough => {
            fams.push((3, sequences(64, 2), "n3_sequences_le2"));
            fams.push((3, multisets(64, 3).into_iter().filter(|m| m.len() == 3).collect(), "n3_multisets_3"));
            fams.push((3, multisets(64, 4).into_iter().filter(|m| m.len() == 4).step_by(7).collect(), "n3_multisets_4_every_7th"));
            fams.push((4, multisets(256, 2), "n4_multisets_le2"));
        }
    }
    let mut explicit: Vec<(usize, Vec<Vec<Clause>>, String)> = Vec::new();
    for (n, mut sets, name) in fams {
        let types = clause_types(n);
        ctx.rotate(&mut sets);
        explicit.push((n, sets.iter().map(|s| s.iter().map(|&i| types[i].clone()).collect()).collect(), name.to_string()));
    }
    // many clauses: every multiset of 5..7 binary clauses over 3 variables (12 types), so that
    // one eliminated variable gathers 5 and more subtrees; stars and disconnected components
    {
        let t3 = clause_types(3);
        let bin: Vec<Clause> = t3.iter().filter(|c| c.len() == 2 && c[0].0 != c[1].0).cloned().collect();
        for (k, step) in [(5usize, ctx.tier.pick(3, 1)), (6, ctx.tier.pick(17, 1)), (7, ctx.tier.pick(67, 1))] {
            let sets: Vec<Vec<Clause>> = multisets(bin.len(), k).into_iter().filter(|m| m.len() == k).step_by(step).map(|m| m.into_iter().map(|i| bin[i].clone()).collect()).collect();
            explicit.push((3, sets, format!("n3_{}_binary_clauses{}", k, if step > 1 { format!("_every_{}th", step) } else { String::new() })));
        }
        let mut stars: Vec<Vec<Clause>> = Vec::new();
        let maxk = ctx.tier.pick(6, 7);
        for k in 5..=maxk {
            // star: x0 with k spokes; components: k unit clauses on distinct variables; both polarities of the hub
            for pol in [true, false] {
                stars.push((1..=k).map(|i| vec![(0usize, pol), (i, true)]).collect());
            }
            stars.push((0..k).map(|i| vec![(i, i % 2 == 0)]).collect());
            // k copies of one clause plus a second clause
            let mut c: Vec<Clause> = vec![vec![(0, true), (1, false)]; k];
            c.push(vec![(1, true), (2, true)]);
            stars.push(c);
        }
        explicit.push((maxk + 1, stars, "stars_components_duplicates_5plus".to_string()));
    }
    // sparse, large labels: every sequence of <= 2 clauses (and a slice of the 3-clause multisets)
    // over 3 variables relabelled into wide label spaces
    {
        let t3 = clause_types(3);
        let mut sets = sequences(64, 2);
        sets.extend(multisets(64, 3).into_iter().filter(|m| m.len() == 3).step_by(ctx.tier.pick(41, 5)));
        let mut wide: Vec<Vec<Clause>> = Vec::new();
        for m in [[0usize, 64, 1], [63, 64, 127], [128, 0, 64]] {
            for s in sets.iter() {
                wide.push(s.iter().map(|&i| t3[i].iter().map(|&(v, p)| (m[v], p)).collect()).collect());
            }
        }
        explicit.push((4, wide, "n3_relabelled_into_wide_label_spaces".to_string()));
    }
    for (n, sets, name) in explicit {
        let chunks: Vec<&[Vec<Clause>]> = sets.chunks(if n > 4 { 1 } else { 256 }).collect();
        let fam = par_run(ctx, &chunks, |_, chunk| {
            let mut r = Report::default();
            r.exhaustive = true;
            for clauses in chunk.iter() {
                r.states += 1;
                r.transitions += 1;
                if let Some((k, w)) = check_orders_of(clauses, ctx.tier == Tier::Thorough || r.states % 4 == 1) {
                    r.violation(format!("wellformed:{}", k), format!("cnf {}: {}", cnf_json(clauses), w), json!({"kind": "orders", "cnf": cnf_json(clauses)}));
                }
                if clauses.is_empty() {
                    r.add_extra("excluded_empty_formula_for_dtree", 1);
                    continue;
                }
                let nv = num_vars(clauses);
                for elim in elims_for(nv) {
                    r.transitions += 1;
                    r.traces += 1;
                    if clauses.len() >= 2 {
                        r.distinct_nontrivial += 1;
                    }
                    if let Some((k, w)) = check_cnf_case(clauses, &elim) {
                        r.violation(
                            format!("wellformed:{}", k),
                            format!("cnf {} elimination order {:?}: {}", cnf_json(clauses), elim, w),
                            json!({"kind": "dtree", "cnf": cnf_json(clauses), "elim": elim}),
                        );
                        if r.n_violations > 64 {
                            break;
                        }
                    }
                }
                if r.n_violations > 64 {
                    break;
                }
            }
            r
        });
        rep.add_extra(&format!("{}_cnfs", name), fam.states);
        rep.bound(&name, json!({"max_variables": n, "cnfs": sets.len(), "elimination_orders": "all permutations"}));
        rep.merge(fam);
    }
    // long and wide formulas: the long-formula families of C05 (9 to 70 clauses over 6 to 10 variables) and chain /
    // ladder / star formulas over 33 to 260 variables: every order the library derives, and the dtree and its
    // vtree under three elimination orders (by label, reversed, interleaved halves)
    if !disabled("longorders") {
        let mut forms: Vec<(String, Vec<Clause>)> = crate::props::longcnf::families(ctx).into_iter().map(|(n, _, c)| (n, c)).collect();
        for &n in ctx.tier.pick(vec![33usize, 65, 130, 260], vec![17, 33, 64, 65, 129, 130, 256, 257, 260, 300]).iter() {
            forms.push((format!("implication chain over {} variables", n), (0..n - 1).map(|i| vec![(i, false), (i + 1, true)]).collect()));
            forms.push((format!("ladder over {} variables", n), (0..n - 2).map(|i| vec![(i, i % 2 == 0), (i + 1, true), (i + 2, false)]).collect()));
            forms.push((format!("star over {} variables", n), (1..n).map(|i| vec![(0, i % 3 == 0), (n - i, true)]).collect()));
        }
        let lf = par_run(ctx, &forms, |_, (name, clauses)| {
            let mut r = Report::default();
            r.exhaustive = true;
            r.states += 1;
            r.traces += 1;
            let nv = num_vars(clauses);
            if let Some((k, w)) = check_orders_of(clauses, false) {
                r.violation(format!("wellformed:{}", k), format!("{} ({} clauses): {}", name, clauses.len(), w), json!({"kind": "long_orders"}));
            }
            let id: Vec<usize> = (0..nv).collect();
            let rev: Vec<usize> = (0..nv).rev().collect();
            let mut inter: Vec<usize> = Vec::new();
            for i in 0..(nv + 1) / 2 {
                inter.push(i);
                if i + (nv + 1) / 2 < nv {
                    inter.push(i + (nv + 1) / 2);
                }
            }
            for elim in [id, rev, inter] {
                r.transitions += 1;
                if let Some((k, w)) = check_cnf_case(clauses, &elim) {
                    r.violation(format!("wellformed:{}", k), format!("{} ({} clauses), elimination order starting {:?}: {}", name, clauses.len(), &elim[..elim.len().min(6)], w.chars().take(400).collect::<String>()), json!({"kind": "long_orders"}));
                    break;
                }
            }
            r
        });
        rep.add_extra("long_and_wide_formulas", lf.states);
        rep.bound("long_and_wide_formulas", json!({"formulas": forms.len(), "families": "long-formula families of C05; implication chains, ladders and stars over 33 to 260 (17 to 300) variables", "elimination_orders": "by label, reversed, interleaved halves"}));
        rep.merge(lf);
    }
    // vtree side
    let maxn = ctx.tier.pick(4, 5);
    let mut trees: Vec<VT> = Vec::new();
    for n in 1..=maxn {
        trees.extend(all_vtrees(n));
    }
    if ctx.tier == Tier::Thorough {
        // 6 leaves: every shape with the identity labelling and with the reversed labelling
        trees.extend(vtrees_over(&[0, 1, 2, 3, 4, 5]));
        trees.extend(vtrees_over(&[5, 4, 3, 2, 1, 0]));
    }
    // large vtrees: 17 to 300 leaves around the powers of two (index, table and depth thresholds inside the
    // manager), right-linear, left-linear, balanced, and balanced over a scrambled labelling
    let mut big_trees: Vec<VT> = Vec::new();
    if !disabled("bigvtrees") {
        use crate::props::sddmid::{balanced, left_linear, mixed, right_linear};
        for &n in ctx.tier.pick(vec![11usize, 37, 65, 100, 129, 130, 257], vec![11, 13, 17, 31, 32, 33, 37, 63, 64, 65, 90, 100, 127, 128, 129, 130, 200, 255, 256, 257, 300]).iter() {
            let id: Vec<usize> = (0..n).collect();
            let scr: Vec<usize> = (0..n).map(|i| (i * 7 + 3) % n).collect();
            let scr_ok = {
                let mut t = scr.clone();
                t.sort();
                t == id
            };
            big_trees.push(right_linear(&id));
            big_trees.push(left_linear(&id));
            big_trees.push(balanced(&id));
            big_trees.push(mixed(&id));
            if scr_ok {
                if ctx.tier == Tier::Thorough {
                    big_trees.push(mixed(&scr));
                }
                big_trees.push(balanced(&scr));
            }
        }
    }
    rep.add_extra("large_vtrees", big_trees.len() as u64);
    let nsmall = trees.len();
    trees.extend(big_trees);
    let mut chunks: Vec<&[VT]> = trees[..nsmall].chunks(32).collect();
    chunks.extend(trees[nsmall..].chunks(1));
    let vt = par_run(ctx, &chunks, |_, chunk| {
        let mut r = Report::default();
        r.exhaustive = true;
        for t in chunk.iter() {
            r.states += 1;
            r.traces += 1;
            r.transitions += (t.size() * t.size()) as u64;
            if t.leaves().len() >= 3 {
                r.distinct_nontrivial += 1;
            }
            let mut ev = 0;
            if let Some((k, w)) = check_vtree(t, &mut ev) {
                r.violation(format!("wellformed:{}", k), format!("vtree {}: {}", short_vt(t), w), json!({"kind": "vtree", "vtree": t.show()}));
            }
            if t.leaves().len() <= 4 && !crate::core::disabled("vtq") {
                if let Some((k, w)) = check_vtree_queries(t, &mut ev) {
                    r.violation(format!("wellformed:{}", k), format!("vtree {}: {}", short_vt(t), w), json!({"kind": "vtree", "vtree": t.show()}));
                }
                r.add_extra("vtrees_with_query_sequences_on_fresh_managers", 1);
            }
            r.evaluations += ev;
        }
        r
    });
    rep.add_extra("vtrees", vt.states);
    rep.bound("vtrees", json!({"max_leaves_all_labellings": maxn, "six_leaves": if ctx.tier == Tier::Thorough {"all 42 shapes x {identity, reversed} labelling"} else {"-"}}));
    rep.merge(vt);
    rep.evaluations += rep.transitions;
    rep.sample(json!({"cnf": [[1], [1], [2]], "elim": [0, 1], "expect": "root vars = {1,2}"}));
    rep.sample(json!({"vtree": "(0 (1 2))", "expect": "num_vars = 3, var_index = 0,2,4"}));
    rep.assumptions.push("force_order is only called on CNFs with >= 1 clause and no empty clause; DTree::from_cnf only on non-empty clause lists (preconditions, counted as excluded)".into());
    rep.assumptions.push("variable count is checked on vtrees whose leaves are labelled 0..n-1, where 'number of variables' is unambiguous".into());
    rep
}

pub fn replay(_ctx: &Ctx, case: &Value) -> Report {
    if case["kind"].as_str() == Some("long_orders") {
        // the long / wide formula regime is cheap: re-run the whole check
        return run(_ctx);
    }
    let mut rep = Report::default();
    match case["kind"].as_str() {
        Some("orders") => {
            let c = cnf_from_json(&case["cnf"]);
            if let Some((k, w)) = check_orders_of(&c, true) {
                rep.violation(format!("wellformed:{}", k), w, case.clone());
            }
        }
        Some("dtree") => {
            let c = cnf_from_json(&case["cnf"]);
            let elim: Vec<usize> = case["elim"].as_array().map(|a| a.iter().filter_map(|x| x.as_u64()).map(|x| x as usize).collect()).unwrap_or_default();
            if let Some((k, w)) = check_cnf_case(&c, &elim) {
                rep.violation(format!("wellformed:{}", k), w, case.clone());
            }
        }
        Some("vtree") => {
            if let Some(t) = VT::parse(case["vtree"].as_str().unwrap_or("")) {
                let mut ev = 0;
                if let Some((k, w)) = check_vtree(&t, &mut ev).or_else(|| if t.leaves().len() <= 4 { check_vtree_queries(&t, &mut ev) } else { None }) {
                    rep.violation(format!("wellformed:{}", k), w, case.clone());
                }
            }
        }
        _ => {}
    }
    rep
}
