//! C03 – SDD operations compute the function they name (shared engine, see sddsweep).
use crate::core::*;
use serde_json::Value;
pub fn run(ctx: &Ctx) -> Report {
    let mut r = crate::props::sddsweep::run_all(ctx, false);
    crate::props::sddsweep::filter_for(&mut r, "C03");
    r
}
pub fn replay(ctx: &Ctx, case: &Value) -> Report {
    crate::props::sddsweep::replay_for(ctx, "C03", case)
}
