//! Shared SDD-builder history engine. Violations are tagged with the property they contradict:
//!   C03 – wrong function / earlier result changed;
//!   C04 – a reachable node is not vtree-normalised / compressed / trimmed, or two pointers
//!         denote one function (compressing builder only);
//!   C11 – (semantic builder) wrong function or `eq` disagreeing with function equality;
//!   C16 – the result differs structurally from the same operation in a cold builder.

use crate::core::*;
use crate::enumerate::*;
use crate::tt::{self, TT};
use crate::walk::*;
use rsdd::builder::sdd::{CompressionSddBuilder, SddBuilder, SemanticSddBuilder};
use rsdd::constants::primes;
use rsdd::repr::{DDNNFPtr, SddPtr, VarLabel};
use serde_json::{json, Value};
use std::collections::{HashMap, HashSet};

#[derive(Clone, Debug)]
pub struct SCfg {
    pub n: usize,
    pub vtree: VT,
    pub compress: bool,
    pub semantic: bool,
    pub table_cap: usize,
    pub issue: usize,
    pub ite_pool: usize,
    /// pairs: 0 = all pairs of all functions, k > 0 = every k-th right operand
    pub pair_stride: usize,
    pub cold_stride: usize,
    /// 0 = all functions of n variables; 1 = cubes, clauses and all functions of <= 2 variables
    pub pool: u8,
    /// also check the semantic hash (64-bit field) of every result against the defining sum
    pub hash: bool,
    /// (k, m): with pool = 0 only the functions t with t % m == k are operands (m = 1: all)
    pub slice: (usize, usize),
}

impl SCfg {
    pub fn json(&self) -> Value {
        json!({"n": self.n, "vtree": self.vtree.show(), "compress": self.compress, "semantic": self.semantic, "table_cap": self.table_cap, "issue": self.issue, "ite_pool": self.ite_pool, "pair_stride": self.pair_stride, "cold_stride": self.cold_stride, "pool": self.pool, "hash": self.hash, "slice": [self.slice.0, self.slice.1]})
    }
    pub fn from_json(v: &Value) -> Option<SCfg> {
        Some(SCfg {
            n: v["n"].as_u64()? as usize,
            vtree: VT::parse(v["vtree"].as_str()?)?,
            compress: v["compress"].as_bool()?,
            semantic: v["semantic"].as_bool()?,
            table_cap: v["table_cap"].as_u64()? as usize,
            issue: v["issue"].as_u64()? as usize,
            ite_pool: v["ite_pool"].as_u64()? as usize,
            pair_stride: v["pair_stride"].as_u64()? as usize,
            cold_stride: v["cold_stride"].as_u64()? as usize,
            pool: v["pool"].as_u64().unwrap_or(0) as u8,
            hash: v["hash"].as_bool().unwrap_or(false),
            slice: (v["slice"][0].as_u64().unwrap_or(0) as usize, v["slice"][1].as_u64().unwrap_or(1).max(1) as usize),
        })
    }
    fn prop_fn(&self) -> &'static str {
        if self.semantic {
            "C11"
        } else {
            "C03"
        }
    }
}

#[derive(Clone, Debug)]
pub enum SOp {
    And(TT, TT),
    Or(TT, TT),
    Xor(TT, TT),
    Iff(TT, TT),
    Ite(TT, TT, TT),
    Neg(TT),
    Cond(TT, usize, bool),
    Exists(TT, usize),
    Compose(TT, usize, TT),
    Materialise(TT),
}

/// build a function by Shannon expansion on label order with and/or/negate (works for every
/// SddBuilder, including the semantic one whose ite is unimplemented)
fn shannon<'a, B: SddBuilder<'a>>(b: &'a B, t: TT, v: usize, n: usize, use_ite: bool) -> SddPtr<'a> {
    if t == 0 {
        return SddPtr::PtrFalse;
    }
    if t == tt::mask(n) {
        return SddPtr::PtrTrue;
    }
    if !tt::depends_on(t, v, n) {
        return shannon(b, t, v + 1, n, use_ite);
    }
    let hi = shannon(b, tt::cofactor(t, v, true, n), v + 1, n, use_ite);
    let lo = shannon(b, tt::cofactor(t, v, false, n), v + 1, n, use_ite);
    let x = b.var(VarLabel::new(v as u64), true);
    if use_ite {
        b.ite(x, hi, lo)
    } else {
        let a = b.and(x, hi);
        let c = b.and(x.neg(), lo);
        b.or(a, c)
    }
}

struct Sw<'a, B: SddBuilder<'a>> {
    b: &'a B,
    cfg: SCfg,
    n: usize,
    shape: VtShape,
    canon: HashMap<TT, (u8, usize, bool)>,
    checked_nodes: HashSet<usize>,
    f: FStore<SddPtr<'a>>,
    rep: Report,
    opno: u64,
    stop: bool,
    nodes_walked: u64,
    noncanonical_uncompressed: u64,
    cases: [u64; 4],
    mat: Vec<usize>,
    hmap: Option<(rsdd::repr::WmcParams<rsdd::util::semirings::FiniteField<{ primes::U64_LARGEST }>>, Vec<(u128, u128)>)>,
    hash_memo: HashMap<TT, u128>,
    hash_checks: u64,
    /// semantic builder: first pointer seen for each function, and the function seen before
    sem_rep: HashMap<TT, SddPtr<'a>>,
    sem_last: Option<TT>,
    sem_eq_checks: u64,
    /// wrong results already re-run in a cold builder (see check)
    cold_blames: u32,
}

impl<'a, B: SddBuilder<'a>> Sw<'a, B> {
    /// builder-level statistics between operations (configurations with interleaved read-only
    /// queries): their own answer is not compared, their effect on later answers is
    fn builder_stats_query(&mut self) {
        if self.cfg.issue % 2 == 1 {
            let b = self.b;
            if let Err(e) = guarded(|| {
                let _ = b.stats();
            }) {
                self.viol(self.cfg.prop_fn(), "panic", format!("stats() panicked: {}", e), &SOp::Materialise(0));
            }
            self.rep.evaluations += 1;
        }
    }

    fn viol(&mut self, prop: &str, key: &str, what: String, op: &SOp) {
        let case = json!({"kind": "sdd_sweep", "cfg": self.cfg.json(), "op_number": self.opno, "op": format!("{:?}", op)});
        self.rep.violation(format!("{}:{}", prop, key), what, case);
        if self.rep.n_violations > 48 {
            self.stop = true;
        }
    }

    /// C04: every node reachable from `p` is well formed w.r.t. the vtree
    fn walk_normal_form(&mut self, p: SddPtr<'a>) -> Option<String> {
        let n = self.n;
        match p {
            SddPtr::PtrTrue | SddPtr::PtrFalse | SddPtr::Var(_, _) => None,
            SddPtr::BDD(bn) | SddPtr::ComplBDD(bn) => {
                let addr = bn as *const _ as usize;
                if !self.checked_nodes.insert(addr) {
                    return None;
                }
                self.nodes_walked += 1;
                let idx = bn.index().value();
                if idx >= self.shape.nodes.len() || self.shape.is_leaf[idx] {
                    return Some(format!("binary node normalised for vtree position {} which is not an internal node", idx));
                }
                let lbl = bn.label().value_usize();
                // a binary node is the two-element decision {(x, high), (not x, low)}: its primes
                // are the literals of `label`, which must lie under the LEFT child of the node's
                // vtree position (the left child itself need not be a leaf)
                if (self.shape.left_mask[idx] >> lbl) & 1 == 0 {
                    return Some(format!("binary node on x{} at vtree position {} whose left side is {:#b}", lbl + 1, idx, self.shape.left_mask[idx]));
                }
                let (lo, hi) = (sdd_tt(bn.low(), n), sdd_tt(bn.high(), n));
                let rm = self.shape.right_mask[idx];
                for (nm, t) in [("low", lo), ("high", hi)] {
                    let s = tt::support_mask(t, n);
                    if s & !rm != 0 {
                        return Some(format!("{} sub of a binary node at vtree position {} mentions variables {:#b} outside the right side {:#b}", nm, idx, s, rm));
                    }
                }
                if lo == hi {
                    return Some(format!("binary node at position {} with equal subs (not compressed/trimmed)", idx));
                }
                if (lo == 0 && hi == tt::mask(n)) || (hi == 0 && lo == tt::mask(n)) {
                    return Some(format!("binary node at position {} is a literal in disguise (not trimmed)", idx));
                }
                self.walk_normal_form(bn.low()).or_else(|| self.walk_normal_form(bn.high()))
            }
            SddPtr::Reg(or) | SddPtr::Compl(or) => {
                let addr = or as *const _ as usize;
                if !self.checked_nodes.insert(addr) {
                    return None;
                }
                self.nodes_walked += 1;
                let idx = or.index().value();
                if idx >= self.shape.nodes.len() || self.shape.is_leaf[idx] {
                    return Some(format!("decision node normalised for vtree position {} which is not an internal node", idx));
                }
                let (lm, rm) = (self.shape.left_mask[idx], self.shape.right_mask[idx]);
                let els: Vec<(SddPtr<'a>, SddPtr<'a>, TT, TT)> = or.iter().map(|a| (a.prime, a.sub, sdd_tt(a.prime, n), sdd_tt(a.sub, n))).collect();
                if els.is_empty() {
                    return Some(format!("decision node at position {} without elements", idx));
                }
                let mut union = 0;
                for (i, e) in els.iter().enumerate() {
                    if e.2 == 0 {
                        return Some(format!("decision node at position {}: prime {} is false", idx, i));
                    }
                    if tt::support_mask(e.2, n) & !lm != 0 {
                        return Some(format!("decision node at position {}: prime {} mentions variables {:#b} outside the left side {:#b}", idx, i, tt::support_mask(e.2, n), lm));
                    }
                    if tt::support_mask(e.3, n) & !rm != 0 {
                        return Some(format!("decision node at position {}: sub {} mentions variables {:#b} outside the right side {:#b}", idx, i, tt::support_mask(e.3, n), rm));
                    }
                    for (j, e2) in els.iter().enumerate().skip(i + 1) {
                        if e.2 & e2.2 != 0 {
                            return Some(format!("decision node at position {}: primes {} and {} overlap", idx, i, j));
                        }
                        if e.3 == e2.3 {
                            return Some(format!("decision node at position {}: subs {} and {} denote the same function (not compressed)", idx, i, j));
                        }
                    }
                    union |= e.2;
                }
                if union != tt::mask(n) {
                    return Some(format!("decision node at position {}: primes are not exhaustive", idx));
                }
                if els.len() == 1 {
                    return Some(format!("decision node at position {} with the single element (true, s) (not trimmed)", idx));
                }
                if els.len() == 2 {
                    let (s0, s1) = (els[0].3, els[1].3);
                    if (s0 == 0 && s1 == tt::mask(n)) || (s1 == 0 && s0 == tt::mask(n)) {
                        return Some(format!("decision node at position {} of the form (p, true), (not p, false) (not trimmed)", idx));
                    }
                }
                for e in els.iter() {
                    if let Some(d) = self.walk_normal_form(e.0) {
                        return Some(d);
                    }
                    if let Some(d) = self.walk_normal_form(e.1) {
                        return Some(d);
                    }
                }
                None
            }
        }
    }

    fn check(&mut self, r: Result<SddPtr<'a>, String>, want: TT, op: &SOp) -> Option<SddPtr<'a>> {
        self.opno += 1;
        self.rep.transitions += 1;
        let pf = self.cfg.prop_fn();
        let r = match r {
            Ok(r) => r,
            Err(p) => {
                self.viol(pf, "panic", format!("{:?} [{}] panicked: {}", op, self.cfg.json(), p), op);
                return None;
            }
        };
        let got = sdd_tt(r, self.n);
        if got != want {
            self.viol(pf, "wrong-function", format!("{:?} [{}] returned the function {:#x}, the definition gives {:#x}", op, self.cfg.json(), got, want), op);
            // is the builder's history to blame? The same operation on the same arguments in a cold builder
            // (first 8 wrong results of a configuration): a different answer there means that what earlier
            // calls left in the builder's caches changed this result - which is also C16's business
            if self.cold_blames < 8 && self.cfg.n <= 5 && self.cfg.vtree.leaves().iter().all(|&l| l < self.cfg.n) {
                self.cold_blames += 1;
                if let Some(cold) = cold_tt(&self.cfg, op) {
                    if cold != got {
                        self.viol("C16", "cache-changes-result", format!("{:?} [{}]: the long-lived builder returns the function {:#x}, a cold builder with only the arguments rebuilt returns {:#x}", op, self.cfg.json(), got, cold), op);
                    }
                }
            }
        }
        let id = sdd_id(r);
        if self.hmap.is_some() {
            let p = primes::U64_LARGEST;
            let want = match self.hash_memo.get(&got) {
                Some(w) => *w,
                None => {
                    let w = crate::props::c11::defining_sum(got, self.n, &self.hmap.as_ref().unwrap().1, p);
                    self.hash_memo.insert(got, w);
                    w
                }
            };
            let wneg = crate::props::c13::submod_ref(1, want, p);
            let (map, _) = self.hmap.as_ref().unwrap();
            let vm = self.b.vtree_manager();
            let hs = guarded(|| {
                (
                    r.cached_semantic_hash(vm, map).value(),
                    r.semantic_hash(map).value(),
                    r.neg().cached_semantic_hash(vm, map).value(),
                    r.neg().semantic_hash(map).value(),
                )
            });
            self.hash_checks += 4;
            match hs {
                Ok((a, b2, c, d)) => {
                    if a != want || b2 != want || c != wneg || d != wneg {
                        self.viol("C11", "hash-not-denotational", format!("{:?} [{}]: result denotes {:#x} with defining sum {}; cached/recomputed hash = {}/{}, of the negation {}/{} (expected {})", op, self.cfg.json(), got, want, a, b2, c, d, wneg), op);
                    }
                }
                Err(e) => self.viol("C11", "panic", format!("{:?}: hashing panicked: {}", op, e), op),
            }
        }
        if self.cfg.semantic {
            // builder statistics directly after the operation, while the result's own hash memo
            // is still empty (every one of the first 2000 operations of a configuration, every
            // 64th afterwards; configurations with interleaved queries only)
            if self.opno < 2000 || self.opno % 64 == 0 {
                self.builder_stats_query();
            }
            // the builder's equality must agree with function equality against the recorded
            // representative of this function (never judge two equal functions different) and
            // against the representative of the function seen before this one
            let b = self.b;
            let mut others: Vec<(TT, SddPtr<'a>)> = Vec::new();
            if let Some(&old) = self.sem_rep.get(&got) {
                others.push((got, old));
            }
            if let Some(l) = self.sem_last {
                if l != got {
                    others.push((l, self.sem_rep[&l]));
                }
            }
            for (t, q) in others {
                self.sem_eq_checks += 1;
                match guarded(|| b.eq(r, q)) {
                    Ok(e) => {
                        if e != (t == got) {
                            self.viol("C11", "eq-disagrees-with-function", format!("{:?} [{}]: eq(result denoting {:#x}, earlier diagram denoting {:#x}) = {}", op, self.cfg.json(), got, t, e), op);
                        }
                    }
                    Err(p) => self.viol("C11", "panic", format!("{:?}: eq panicked: {}", op, p), op),
                }
            }
            self.sem_rep.entry(got).or_insert(r);
            self.sem_last = Some(got);
        }
        if !self.cfg.semantic && self.cfg.compress {
            match self.canon.get(&got) {
                Some(&old) => {
                    if old != id {
                        self.viol("C04", "two-pointers-one-function", format!("{:?} [{}] returned a second, different pointer for the function {:#x}", op, self.cfg.json(), got), op);
                    }
                }
                None => {
                    self.canon.insert(got, id);
                    self.canon.insert(tt::not(got, self.n), sdd_id(r.neg()));
                }
            }
            if let Some(d) = self.walk_normal_form(r) {
                self.viol("C04", "ill-formed-node", format!("{:?} [{}]: {}", op, self.cfg.json(), d), op);
            }
            if got == tt::mask(self.n) && !r.is_true() || got == 0 && !r.is_false() {
                self.viol("C04", "non-constant-pointer-for-constant", format!("{:?}: constant function not represented by the constant pointer", op), op);
            }
        } else if !self.cfg.semantic {
            match self.canon.get(&got) {
                Some(&old) => {
                    if old != id {
                        self.noncanonical_uncompressed += 1;
                    }
                }
                None => {
                    self.canon.insert(got, id);
                }
            }
        }
        Some(r)
    }

    fn recheck_pool(&mut self) {
        self.builder_stats_query();
        let pf = self.cfg.prop_fn();
        for k in 0..self.mat.len() {
            let t = self.mat[k];
            let got = sdd_tt(self.f[t], self.n);
            self.rep.evaluations += 1;
            if got != t as TT {
                self.viol(pf, "earlier-result-changed", format!("function {:#x} built earlier now evaluates to {:#x} [{}]", t, got, self.cfg.json()), &SOp::Materialise(t as TT));
            }
        }
    }

    /// which of the four vtree-relative apply cases a pair of operands exercises
    fn classify(&mut self, x: SddPtr<'a>, y: SddPtr<'a>) {
        let idx = |p: SddPtr<'a>| -> Option<usize> {
            match p {
                SddPtr::Var(l, _) => self.shape.nodes.iter().position(|nd| *nd == VT::Leaf(l.value_usize())),
                SddPtr::BDD(b) | SddPtr::ComplBDD(b) => Some(b.index().value()),
                SddPtr::Reg(o) | SddPtr::Compl(o) => Some(o.index().value()),
                _ => None,
            }
        };
        if let (Some(a), Some(b)) = (idx(x), idx(y)) {
            if a == b {
                self.cases[0] += 1;
            } else {
                let (ma, mb) = (self.shape.nodes[a].leaf_mask(), self.shape.nodes[b].leaf_mask());
                if ma & mb == 0 {
                    self.cases[3] += 1; // independent
                } else if ma & mb == mb {
                    self.cases[1] += 1; // b below a
                } else {
                    self.cases[2] += 1;
                }
            }
        }
    }

    fn issue(&mut self, op: SOp) -> Option<SddPtr<'a>> {
        // another object of the library is created, used and dropped on this thread now and then
        if self.opno % 509 == 17 {
            crate::props::bddutil::interloper((self.opno / 509) as usize);
        }
        let n = self.n;
        let b = self.b;
        let f = &self.f;
        let (res, want): (Result<SddPtr<'a>, String>, TT) = match &op {
            SOp::And(x, y) => {
                let (px, py) = (f[*x as usize], f[*y as usize]);
                (guarded(|| b.and(px, py)), x & y)
            }
            SOp::Or(x, y) => {
                let (px, py) = (f[*x as usize], f[*y as usize]);
                (guarded(|| b.or(px, py)), x | y)
            }
            SOp::Xor(x, y) => {
                let (px, py) = (f[*x as usize], f[*y as usize]);
                (guarded(|| b.xor(px, py)), x ^ y)
            }
            SOp::Iff(x, y) => {
                let (px, py) = (f[*x as usize], f[*y as usize]);
                (guarded(|| b.iff(px, py)), tt::iff(*x, *y, n))
            }
            SOp::Ite(x, y, z) => {
                let (px, py, pz) = (f[*x as usize], f[*y as usize], f[*z as usize]);
                (guarded(|| b.ite(px, py, pz)), tt::ite(*x, *y, *z, n))
            }
            SOp::Neg(x) => {
                let px = f[*x as usize];
                (guarded(|| b.negate(px)), tt::not(*x, n))
            }
            SOp::Cond(x, v, val) => {
                let px = f[*x as usize];
                (guarded(|| b.condition(px, VarLabel::new(*v as u64), *val)), tt::cofactor(*x, *v, *val, n))
            }
            SOp::Exists(x, v) => {
                let px = f[*x as usize];
                (guarded(|| b.exists(px, VarLabel::new(*v as u64))), tt::exists(*x, *v, n))
            }
            SOp::Compose(x, v, g) => {
                let (px, pg) = (f[*x as usize], f[*g as usize]);
                (guarded(|| b.compose(px, VarLabel::new(*v as u64), pg)), tt::compose_def(*x, *v, *g, n))
            }
            SOp::Materialise(t) => (Ok(f[*t as usize]), *t),
        };
        if let SOp::And(x, y) | SOp::Or(x, y) = &op {
            let (px, py) = (self.f[*x as usize], self.f[*y as usize]);
            self.classify(px, py);
        }
        self.check(res, want, &op)
    }
}

fn issue_perm(k: usize, m: usize) -> Vec<usize> {
    match k % 3 {
        0 => (0..m).collect(),
        1 => (0..m).rev().collect(),
        _ => {
            let bits = (m as f64).log2().ceil() as u32;
            let v: Vec<usize> = (0..m).map(|i| ((i as u32).reverse_bits() >> (32 - bits.max(1))) as usize).collect();
            if v.iter().all(|&x| x < m) {
                v
            } else {
                (0..m).collect()
            }
        }
    }
}

/// run `$body` with `$b` bound to a fresh SDD builder of the configuration
#[macro_export]
macro_rules! with_sdd_builder {
    ($cfg:expr, |$b:ident| $body:expr) => {{
        rsdd::verif::set_table_capacity($cfg.table_cap);
        if $cfg.semantic {
            let $b = rsdd::builder::sdd::SemanticSddBuilder::<{ rsdd::constants::primes::U64_LARGEST }>::new($cfg.vtree.to_rsdd());
            rsdd::verif::set_table_capacity(0);
            $body
        } else {
            let mut bb = rsdd::builder::sdd::CompressionSddBuilder::new($cfg.vtree.to_rsdd());
            rsdd::verif::set_table_capacity(0);
            rsdd::builder::sdd::SddBuilder::set_compression(&mut bb, $cfg.compress);
            let $b = bb;
            $body
        }
    }};
}

/// the same single binary operation in a cold builder in which only the arguments are rebuilt
fn cold_result(cfg: &SCfg, op: &SOp) -> Option<String> {
    fn go<'a, B: SddBuilder<'a>>(b: &'a B, cfg: &SCfg, op: &SOp) -> Option<String> {
        let n = cfg.n;
        let ui = !cfg.semantic;
        let r = guarded(|| match op {
            SOp::And(x, y) => {
                let (px, py) = (shannon(b, *x, 0, n, ui), shannon(b, *y, 0, n, ui));
                b.and(px, py)
            }
            SOp::Or(x, y) => {
                let (px, py) = (shannon(b, *x, 0, n, ui), shannon(b, *y, 0, n, ui));
                b.or(px, py)
            }
            SOp::Xor(x, y) => {
                let (px, py) = (shannon(b, *x, 0, n, ui), shannon(b, *y, 0, n, ui));
                b.xor(px, py)
            }
            SOp::Iff(x, y) => {
                let (px, py) = (shannon(b, *x, 0, n, ui), shannon(b, *y, 0, n, ui));
                b.iff(px, py)
            }
            SOp::Ite(x, y, z) => {
                let (px, py, pz) = (shannon(b, *x, 0, n, ui), shannon(b, *y, 0, n, ui), shannon(b, *z, 0, n, ui));
                b.ite(px, py, pz)
            }
            _ => SddPtr::PtrTrue,
        });
        r.ok().map(sdd_canon)
    }
    with_sdd_builder!(cfg, |b| go(&b, cfg, op))
}

/// the function a COLD builder (same vtree and mode, nothing but the rebuilt arguments in it) returns
/// for one operation; None if it panics or the operation has no arguments to rebuild
fn cold_tt(cfg: &SCfg, op: &SOp) -> Option<TT> {
    fn go<'a, B: SddBuilder<'a>>(b: &'a B, cfg: &SCfg, op: &SOp) -> Option<TT> {
        let n = cfg.n;
        let ui = !cfg.semantic;
        let lbl = |v: usize| VarLabel::new(v as u64);
        let r = guarded(|| match op {
            SOp::And(x, y) => Some(b.and(shannon(b, *x, 0, n, ui), shannon(b, *y, 0, n, ui))),
            SOp::Or(x, y) => Some(b.or(shannon(b, *x, 0, n, ui), shannon(b, *y, 0, n, ui))),
            SOp::Xor(x, y) if ui => Some(b.xor(shannon(b, *x, 0, n, ui), shannon(b, *y, 0, n, ui))),
            SOp::Iff(x, y) if ui => Some(b.iff(shannon(b, *x, 0, n, ui), shannon(b, *y, 0, n, ui))),
            SOp::Ite(x, y, z) if ui => Some(b.ite(shannon(b, *x, 0, n, ui), shannon(b, *y, 0, n, ui), shannon(b, *z, 0, n, ui))),
            SOp::Neg(x) => Some(b.negate(shannon(b, *x, 0, n, ui))),
            SOp::Cond(x, v, val) => Some(b.condition(shannon(b, *x, 0, n, ui), lbl(*v), *val)),
            SOp::Exists(x, v) => Some(b.exists(shannon(b, *x, 0, n, ui), lbl(*v))),
            SOp::Compose(x, v, g) if ui => Some(b.compose(shannon(b, *x, 0, n, ui), lbl(*v), shannon(b, *g, 0, n, ui))),
            _ => None,
        });
        r.ok().flatten().map(|p| sdd_tt(p, n))
    }
    with_sdd_builder!(cfg, |b| go(&b, cfg, op))
}

fn sweep<'a, B: SddBuilder<'a>>(b: &'a B, cfg: &SCfg, ctx: &Ctx) -> Report {
    let n = cfg.n;
    let mut s = Sw {
        b,
        cfg: cfg.clone(),
        n,
        shape: VtShape::new(&cfg.vtree),
        canon: HashMap::new(),
        checked_nodes: HashSet::new(),
        f: FStore::empty(SddPtr::PtrFalse),
        rep: Report::default(),
        opno: 0,
        stop: false,
        nodes_walked: 0,
        noncanonical_uncompressed: 0,
        cases: [0; 4],
        mat: Vec::new(),
        hmap: if cfg.hash {
            let m = rsdd::repr::create_semantic_hash_map::<{ primes::U64_LARGEST }>(n);
            let w = crate::props::c11::weights_of(&m, n);
            Some((m, w))
        } else {
            None
        },
        hash_memo: HashMap::new(),
        hash_checks: 0,
        sem_rep: HashMap::new(),
        sem_last: None,
        sem_eq_checks: 0,
        cold_blames: 0,
    };
    s.rep.exhaustive = true;
    s.canon.insert(tt::mask(n), (0, 0, false));
    s.canon.insert(0, (0, 0, true));
    let total = 1usize << (1usize << n);
    // the functions used as operands: all of them, or a rule-defined pool
    let mut dom: Vec<usize> = if cfg.pool == 0 {
        (0..total).filter(|t| t % cfg.slice.1.max(1) == cfg.slice.0).collect()
    } else {
        let mut v: Vec<usize> = vec![0, total - 1];
        // cubes (products of literals) and clauses (their negations)
        for code in 0..3usize.pow(n as u32) {
            let mut c = code;
            let mut t = tt::mask(n);
            for x in 0..n {
                match c % 3 {
                    1 => t &= tt::var(x, n),
                    2 => t &= tt::not(tt::var(x, n), n),
                    _ => (),
                }
                c /= 3;
            }
            v.push(t as usize);
            v.push(tt::not(t, n) as usize);
        }
        // every function of at most two variables
        for a in 0..n {
            for c in (a + 1)..n {
                for t2 in 0..16u64 {
                    let mut t = 0u64;
                    for asg in 0..(1usize << n) {
                        let i2 = ((asg >> a) & 1) | (((asg >> c) & 1) << 1);
                        if (t2 >> i2) & 1 == 1 {
                            t |= 1 << asg;
                        }
                    }
                    v.push(t as usize);
                }
            }
        }
        v.sort();
        v.dedup();
        v
    };
    s.f = FStore::new(total, SddPtr::PtrFalse, cfg.pool != 0 || cfg.slice.1 > 1);
    // materialise every operand (checked like any other result)
    for (k, &t) in dom.iter().enumerate() {
        let r = guarded(|| shannon(b, t as TT, 0, n, !cfg.semantic));
        let op = SOp::Materialise(t as TT);
        match r {
            Ok(p) => {
                s.f[t] = p;
                s.check(Ok(p), t as TT, &op);
            }
            Err(e) => {
                s.check(Err(e), t as TT, &op);
            }
        }
        s.mat.push(t);
        if s.stop {
            break;
        }
        if k % 4096 == 4095 && (ctx.over_time() || ctx.over_mem()) {
            s.rep.cap("wall-clock or memory cap while materialising functions");
            s.stop = true;
        }
    }
    {
        let k = cfg.issue % dom.len().max(1);
        dom.rotate_left(k);
        if cfg.issue % 2 == 1 {
            dom.reverse();
        }
    }
    let total = dom.len();
    let perm: Vec<usize> = if cfg.pool == 0 { issue_perm(cfg.issue, total).into_iter().map(|i| dom[i]).collect() } else { dom.clone() };
    // read-only queries between construction and use (every second configuration): cached
    // semantic hash (the one 64-bit field and map a builder is used with), a weighted count and
    // the node count visit every materialised diagram and leave their memos behind
    if cfg.issue % 2 == 1 && !s.stop {
        use rsdd::repr::DDNNFPtr;
        let hmap = rsdd::repr::create_semantic_hash_map::<{ primes::U64_LARGEST }>(n);
        let wmap: rsdd::repr::WmcParams<rsdd::util::semirings::RealSemiring> = rsdd::repr::WmcParams::new(
            (0..n).map(|v| (VarLabel::new(v as u64), (rsdd::util::semirings::RealSemiring(0.25), rsdd::util::semirings::RealSemiring(0.75)))).collect::<HashMap<_, _>>(),
        );
        for &t in dom.iter() {
            let p = s.f[t];
            let r = guarded(|| {
                let _ = p.cached_semantic_hash(b.vtree_manager(), &hmap);
                let _ = p.unsmoothed_wmc(&wmap);
                let _ = p.count_nodes();
            });
            s.rep.evaluations += 3;
            if let Err(e) = r {
                s.viol(cfg.prop_fn(), "panic", format!("a read-only query on {:#x} panicked: {}", t, e), &SOp::Materialise(t as TT));
            }
        }
        s.recheck_pool();
        s.rep.add_extra("configurations_with_interleaved_queries", 1);
    }
    // semantic builder: eq must agree with function equality over a pool
    if cfg.semantic && !s.stop {
        let pool: Vec<usize> = perm.iter().cloned().step_by((total / 64).max(1)).collect();
        for &i in pool.iter() {
            for &j in pool.iter() {
                let e = guarded(|| b.eq(s.f[i], s.f[j]));
                s.rep.evaluations += 1;
                match e {
                    Ok(e) => {
                        if e != (i == j) {
                            s.viol("C11", "eq-disagrees-with-function", format!("eq({:#x}, {:#x}) = {} [{}]", i, j, e, cfg.json()), &SOp::Materialise(i as TT));
                        }
                    }
                    Err(p) => s.viol("C11", "panic", format!("eq panicked: {}", p), &SOp::Materialise(i as TT)),
                }
            }
        }
    }
    // pairs
    if !s.stop {
        let stride = cfg.pair_stride.max(1);
        let mut count = 0u64;
        'outer: for (ii, &i) in perm.iter().enumerate() {
            for (jj, &j) in perm.iter().enumerate() {
                if cfg.pair_stride > 0 && (ii + jj) % stride != 0 {
                    continue;
                }
                // operand-pool configurations split by residue class of the pair index
                if cfg.pool == 1 && cfg.slice.1 > 1 && (ii + jj) % cfg.slice.1 != cfg.slice.0 {
                    continue;
                }
                let (x, y) = (i as TT, j as TT);
                let mut ops = vec![SOp::And(x, y), SOp::Or(x, y)];
                if !cfg.semantic {
                    ops.push(SOp::Xor(x, y));
                    ops.push(SOp::Iff(x, y));
                }
                for op in ops {
                    let r = s.issue(op.clone());
                    count += 1;
                    // warm-vs-cold differential on a rule-defined slice
                    if cfg.cold_stride > 0 && count % cfg.cold_stride as u64 == 0 && !cfg.semantic && cfg.compress {
                        if let Some(r) = r {
                            let warm = sdd_canon(r);
                            s.rep.evaluations += 1;
                            s.rep.add_extra("cold_builder_comparisons", 1);
                            if let Some(cold) = cold_result(cfg, &op) {
                                if cold != warm {
                                    s.viol("C16", "cache-changes-result", format!("{:?} [{}]: the long-lived builder returned {} but a cold builder returns {}", op, cfg.json(), warm, cold), &op);
                                }
                            }
                        }
                    }
                }
                if s.stop {
                    break 'outer;
                }
            }
            if ii % (total / 16).max(1) == 0 {
                s.recheck_pool();
                if ctx.over_time() || ctx.over_mem() {
                    s.rep.cap("wall-clock or memory cap inside the SDD pair sweep");
                    break;
                }
            }
        }
    }
    // unary
    if !s.stop {
        for &i in perm.iter() {
            let x = i as TT;
            s.issue(SOp::Neg(x));
            for v in 0..n {
                s.issue(SOp::Cond(x, v, true));
                s.issue(SOp::Cond(x, v, false));
                s.issue(SOp::Exists(x, v));
            }
            if s.stop {
                break;
            }
        }
        s.recheck_pool();
    }
    // every ordered pair of conditioning / quantification operations on the same function, back to
    // back (operand sets of at most 1024 functions; every 8th function of the 5-variable pools)
    if !s.stop && total <= 1024 {
        let fstep = if n >= 5 { 8 } else { 1 };
        'p: for &i in perm.iter().step_by(fstep) {
            let x = i as TT;
            let mut ops: Vec<SOp> = Vec::new();
            for v in 0..n {
                ops.push(SOp::Cond(x, v, true));
                ops.push(SOp::Cond(x, v, false));
                ops.push(SOp::Exists(x, v));
            }
            for o1 in ops.iter() {
                for o2 in ops.iter() {
                    s.issue(o1.clone());
                    s.issue(o2.clone());
                }
                if s.stop {
                    break 'p;
                }
            }
        }
        s.recheck_pool();
    }
    // A(f), D(degenerate operand), B(f): two conditioning / quantification operations on one function with
    // the same kind of operation on a constant or a literal in between. A call on a degenerate operand takes
    // the early exits of the implementation; whatever bookkeeping (a tag, a "current variable", a memo that
    // is cleared on one path only) it leaves half-updated meets B
    if !s.stop && total <= 256 && !crate::core::disabled("adb") {
        let have: std::collections::HashSet<usize> = perm.iter().cloned().collect();
        let m = tt::mask(n);
        let mut degenerate: Vec<SOp> = Vec::new();
        for v in 0..n {
            let other = (v + 1) % n;
            for c in [if v % 2 == 0 { m } else { 0 as TT }, if v % 2 == 0 { tt::var(other, n) } else { tt::var(v, n) }] {
                if !have.contains(&(c as usize)) {
                    continue;
                }
                degenerate.push(SOp::Cond(c, v, true));
                degenerate.push(SOp::Cond(c, v, false));
                degenerate.push(SOp::Exists(c, v));
            }
        }
        // (quick: every 4th function, rotating with the configuration)
        let astep = if ctx.tier == Tier::Quick { 4 } else { 1 };
        'adb: for &i in perm.iter().skip(cfg.issue % astep).step_by(astep) {
            let x = i as TT;
            let mut ops: Vec<SOp> = Vec::new();
            for v in 0..n {
                ops.push(SOp::Cond(x, v, true));
                ops.push(SOp::Cond(x, v, false));
                ops.push(SOp::Exists(x, v));
            }
            for a in ops.iter() {
                for d in degenerate.iter() {
                    for b in ops.iter() {
                        s.issue(a.clone());
                        s.issue(d.clone());
                        s.issue(b.clone());
                    }
                }
                if s.stop {
                    break 'adb;
                }
            }
            if ctx.over_time() || ctx.over_mem() {
                s.rep.cap("wall-clock or memory cap inside the A-D-B triples");
                break;
            }
        }
        s.recheck_pool();
    }
    // compose and ite (not implemented by the semantic builder)
    if !s.stop && !cfg.semantic {
        // (strided operand-pool configurations, i.e. the quick n = 5 ones, compose a thinner slice)
        let light = cfg.pool == 1 && cfg.pair_stride > 0;
        let gpool: Vec<usize> = if total <= 256 { perm.clone() } else { perm.iter().cloned().step_by(total / if light { 16 } else { 64 }).collect() };
        let fpool: Vec<usize> = if total <= 256 { perm.clone() } else { perm.iter().cloned().step_by(total / if light { 128 } else { 256 }).collect() };
        'c: for &i in fpool.iter() {
            for v in 0..n {
                for &j in gpool.iter() {
                    s.issue(SOp::Compose(i as TT, v, j as TT));
                    if s.stop {
                        break 'c;
                    }
                }
            }
        }
        let pool: Vec<usize> = perm.iter().cloned().step_by((total / cfg.ite_pool.max(1)).max(1)).collect();
        let mut count = 0u64;
        'i: for &i in pool.iter() {
            for &j in pool.iter() {
                for &k in pool.iter() {
                    let op = SOp::Ite(i as TT, j as TT, k as TT);
                    let r = s.issue(op.clone());
                    count += 1;
                    if cfg.cold_stride > 0 && cfg.compress && count % (cfg.cold_stride as u64 * 4) == 0 {
                        if let Some(r) = r {
                            let warm = sdd_canon(r);
                            s.rep.add_extra("cold_builder_comparisons", 1);
                            if let Some(cold) = cold_result(cfg, &op) {
                                if cold != warm {
                                    s.viol("C16", "cache-changes-result", format!("{:?} [{}]: warm {} vs cold {}", op, cfg.json(), warm, cold), &op);
                                }
                            }
                        }
                    }
                }
                if s.stop {
                    break 'i;
                }
            }
            if ctx.over_time() || ctx.over_mem() {
                s.rep.cap("wall-clock or memory cap inside the SDD ite sweep");
                break;
            }
        }
        // literal guards: for every materialised function f and variable v the Shannon re-join of its two
        // cofactors in both arrangements and under both guard polarities, ite(+-v, f|v=1, f|v=0) and
        // ite(+-v, f|v=0, f|v=1) - after the quantification / conditioning phases above have visited the
        // same cofactors (whatever those phases filed in the ite cache meets its mirror image here);
        // with compression on every result is also compared with a cold builder's
        if !s.stop && !crate::core::disabled("litguard") {
            let have: std::collections::HashSet<usize> = perm.iter().cloned().collect();
            let fstep = if total <= 256 { 1 } else { 4 };
            'g: for &i in perm.iter().step_by(fstep) {
                let f = i as TT;
                for v in 0..n {
                    let (hi, lo) = (tt::cofactor(f, v, true, n), tt::cofactor(f, v, false, n));
                    if hi == lo || !have.contains(&(hi as usize)) || !have.contains(&(lo as usize)) {
                        continue;
                    }
                    for pol in [true, false] {
                        let g = tt::lit(v, pol, n);
                        if !have.contains(&(g as usize)) {
                            continue;
                        }
                        for (a, b) in [(hi, lo), (lo, hi)] {
                            let op = SOp::Ite(g, a, b);
                            let r = s.issue(op.clone());
                            if cfg.cold_stride > 0 && cfg.compress {
                                if let Some(r) = r {
                                    let warm = sdd_canon(r);
                                    s.rep.add_extra("cold_builder_comparisons", 1);
                                    if let Some(cold) = cold_result(cfg, &op) {
                                        if cold != warm {
                                            s.viol("C16", "cache-changes-result", format!("{:?} [{}]: warm {} vs cold {}", op, cfg.json(), warm, cold), &op);
                                        }
                                    }
                                }
                            }
                            if s.stop {
                                break 'g;
                            }
                        }
                    }
                }
                if ctx.over_time() || ctx.over_mem() {
                    s.rep.cap("wall-clock or memory cap inside the SDD literal-guard ite sweep");
                    break;
                }
            }
            s.recheck_pool();
        }
    }
    let mut rep = s.rep;
    rep.traces = 1;
    rep.states = s.canon.len() as u64;
    rep.evaluations += rep.transitions;
    rep.add_extra("sdd_nodes_walked", s.nodes_walked);
    rep.add_extra("noncanonical_but_correct_results_without_compression", s.noncanonical_uncompressed);
    rep.add_extra("apply_case_same_vtree_node", s.cases[0]);
    rep.add_extra("apply_case_descendant_a", s.cases[1]);
    rep.add_extra("apply_case_descendant_b", s.cases[2]);
    rep.add_extra("apply_case_independent", s.cases[3]);
    rep.add_extra("semantic_hash_checks", s.hash_checks);
    rep.add_extra("semantic_eq_checks_on_results", s.sem_eq_checks);
    rep.add_extra("configurations", 1);
    rep
}

pub fn run_cfg(cfg: &SCfg, ctx: &Ctx) -> Report {
    let t0 = std::time::Instant::now();
    let mut r = with_sdd_builder!(cfg, |b| sweep(&b, cfg, ctx));
    if std::env::var("VERIF_TRACE").is_ok() {
        eprintln!("TRACE done n={} pool={} slice={:?} compress={} semantic={} cap={} ms={} rss={:.1} ops={}", cfg.n, cfg.pool, cfg.slice, cfg.compress, cfg.semantic, cfg.table_cap, t0.elapsed().as_millis(), rss_gib(), r.transitions);
    }
    if !r.caps_hit.is_empty() {
        r.add_extra(&format!("capped_configurations_n{}_{}", cfg.n, if cfg.compress { "compressed" } else if cfg.semantic { "semantic" } else { "uncompressed" }), 1);
    }
    r.add_extra(&format!("busy_ms_n{}_{}", cfg.n, if cfg.pool == 1 { "pool" } else if cfg.slice.1 > 1 { "all_sliced" } else if cfg.pair_stride > 0 { "all_strided" } else { "all" }), t0.elapsed().as_millis() as u64);
    r
}

pub fn configs(ctx: &Ctx, semantic: bool, hash: bool) -> Vec<SCfg> {
    let mut out = Vec::new();
    let quick = ctx.tier == Tier::Quick;
    let base = SCfg { n: 3, vtree: VT::Leaf(0), compress: true, semantic, table_cap: 2, issue: 0, ite_pool: 16, pair_stride: 0, cold_stride: 0, pool: 0, hash, slice: (0, 1) };
    let modes: Vec<bool> = if semantic { vec![false] } else { vec![true, false] };
    // n = 3: every vtree, every function, every ordered pair
    for (i, vt) in all_vtrees(3).into_iter().enumerate() {
        for &compress in modes.iter() {
            out.push(SCfg { vtree: vt.clone(), compress, issue: i + ctx.seed as usize, ite_pool: if quick { 16 } else { 48 }, cold_stride: if quick { 997 } else { 211 }, ..base.clone() });
        }
    }
    // default table capacity: right-linear, left-linear, balanced
    if !hash {
        for (i, s) in ["(0 (1 2))", "((0 1) 2)", "(1 (0 2))"].iter().enumerate() {
            out.push(SCfg { vtree: VT::parse(s).unwrap(), table_cap: 0, issue: i, ite_pool: 12, ..base.clone() });
        }
    }
    // n = 2
    for vt in all_vtrees(2) {
        for &compress in modes.iter() {
            out.push(SCfg { n: 2, vtree: vt.clone(), compress, cold_stride: 7, ..base.clone() });
        }
    }
    // n = 4, operand pool (cubes, clauses, all functions of <= 2 variables): every ordered pair
    // on every one of the 120 vtrees
    for (i, vt) in all_vtrees(4).into_iter().enumerate() {
        for &compress in modes.iter() {
            if quick && !compress && !semantic && i % 4 != 0 {
                continue;
            }
            out.push(SCfg { n: 4, vtree: vt.clone(), compress, issue: i + ctx.seed as usize, ite_pool: 10, pool: 1, ..base.clone() });
        }
    }
    // n = 5 (quick): operand pool with a stride over the pairs, every shape under four leaf orders
    // (identity, reversed, a rotation and a shuffle: labels and vtree positions disagree)
    if quick {
        let mut v5: Vec<VT> = Vec::new();
        for lo in [[0usize, 1, 2, 3, 4], [4, 3, 2, 1, 0], [4, 0, 1, 2, 3], [2, 4, 0, 3, 1]] {
            v5.extend(vtrees_over(&lo));
        }
        for (i, vt) in v5.into_iter().enumerate() {
            for &compress in modes.iter() {
                if !compress && !semantic && (i % 4 != 0 || hash) {
                    continue;
                }
                out.push(SCfg { n: 5, vtree: vt.clone(), compress, issue: i + ctx.seed as usize, ite_pool: 6, pool: 1, pair_stride: 31, ..base.clone() });
            }
        }
    }
    // n = 5 (thorough): operand pool on every shape with the identity and the reversed leaf order
    // and on a slice of the other labellings
    if !quick {
        let mut v5: Vec<VT> = vtrees_over(&[0, 1, 2, 3, 4]);
        v5.extend(vtrees_over(&[4, 3, 2, 1, 0]));
        v5.extend(all_vtrees(5).into_iter().skip(7).step_by(97));
        for (i, vt) in v5.into_iter().enumerate() {
            for &compress in modes.iter() {
                // all ordered pairs, split over 8 builders by residue class of the pair index (one
                // builder holding all 1.7 million results of 5-variable operations needs several GiB)
                // (without compression diagrams over left-leaning vtrees grow by orders of
                // magnitude: those configurations take every 5th pair)
                for k in 0..8 {
                    out.push(SCfg { n: 5, vtree: vt.clone(), compress, issue: i + ctx.seed as usize, ite_pool: 8, pool: 1, slice: (k, 8), pair_stride: if compress || semantic { 0 } else { 5 }, ..base.clone() });
                }
            }
        }
    }
    // n = 4, all 65 536 functions with a stride over the pairs
    let v4 = all_vtrees(4);
    if quick {
        // all 65 536 functions of 4 variables on 6 of the 120 vtrees, split into 16 residue
        // classes of the truth table that run as separate configurations (a whole vtree takes
        // about half a minute in one builder; whole-vtree builders are in the thorough tier)
        if !hash {
            for (i, vt) in v4.into_iter().enumerate().filter(|(i, _)| i % 20 == 3) {
                for k in 0..16 {
                    out.push(SCfg { n: 4, vtree: vt.clone(), compress: !semantic, issue: i, ite_pool: 6, pair_stride: 509, slice: ((k + ctx.seed as usize) % 16, 16), ..base.clone() });
                }
            }
        }
    } else {
        // all 120 vtrees x all 65 536 functions, in 16 residue-class builders per (vtree, mode):
        // a single builder holding all functions and tens of millions of results needs tens of
        // GiB (nothing is ever freed inside a builder); the residue classes keep every builder
        // below 1 GiB and use all cores
        for (i, vt) in v4.into_iter().enumerate() {
            for &compress in modes.iter() {
                // (without compression diagrams over left-leaning vtrees grow by orders of magnitude:
                // those builders get 64 residue classes of 1024 functions instead of 16 of 4096)
                let classes = if compress || semantic { 16 } else { 64 };
                for k in 0..classes {
                    out.push(SCfg { n: 4, vtree: vt.clone(), compress, issue: i, ite_pool: 10, pair_stride: 127, slice: ((k + ctx.seed as usize) % classes, classes), ..base.clone() });
                }
            }
        }
    }
    out
}

pub fn run_all(ctx: &Ctx, semantic: bool) -> Report {
    run_all_h(ctx, semantic, false)
}

pub fn run_all_h(ctx: &Ctx, semantic: bool, hash: bool) -> Report {
    if std::env::var("VERIF_ONLY").map(|v| v == "midscale").unwrap_or(false) {
        // development aid (never set by the registered commands): the mid-scale / wide regime alone
        return crate::props::sddmid::run(ctx, semantic);
    }
    let mut rep = Report::new(
        "SDD-builder histories on the real code against truth tables: per configuration (vtree x compression on/off x table capacity) all functions of n variables are built in one long-lived builder, every ordered pair (n = 3; a stride slice for n = 4) is combined by and/or/xor/iff, every function negated/conditioned/quantified, composed with every function on every variable, ite over a pool; every node reachable from every result is checked for the vtree normal form (compression on); a slice of operations is repeated in a cold builder and compared structurally; distinct = (configuration, operation, arguments)",
    );
    let mut cfgs = configs(ctx, semantic, hash);
    // longest first: the all-functions n = 4 configurations dominate the critical path
    cfgs.sort_by_key(|c| std::cmp::Reverse(if c.n == 4 && c.pool == 0 { 3 } else if c.n == 5 { 2 } else if c.n == 4 { 1 } else { 0 }));
    let r = if ctx.tier == Tier::Thorough {
        run_in_workers(ctx, &cfgs)
    } else {
        par_run(ctx, &cfgs, |_, c| run_cfg(c, ctx))
    };
    rep.merge(r);
    if !hash {
        let md = crate::props::sddmid::run(ctx, semantic);
        rep.add_extra("sdd_mid_transitions", md.transitions);
        rep.merge(md);
        let w = run_wide(ctx, semantic);
        rep.merge(w);
        let m = run_mux(ctx, semantic);
        rep.merge(m);
    }
    rep.distinct_nontrivial = rep.transitions;
    rep.bound("vtrees", json!({"n=3": "all 12, all functions, all ordered pairs", "n=2": "both", "n=4 operand pool (cubes, clauses, functions of <= 2 variables), all ordered pairs": "all 120 vtrees", "n=4 all functions": if ctx.tier == Tier::Quick {"6 of 120 vtrees, all functions in 16 residue-class builders each, pair stride 509"} else {"all 120 vtrees, compression on/off, all functions in 16 residue-class builders each, pair stride 127 inside a class"}, "n=5 operand pool": if ctx.tier == Tier::Quick {"56 vtrees (14 shapes x 4 leaf orders), all unary operations, pair stride 31"} else {"14 shapes x identity/reversed leaf order + every 97th other vtree, all ordered pairs"}}));
    rep.bound("compression", json!(if semantic {"n/a (semantic builder)"} else {"on and off"}));
    rep.sample(json!({"cfg": {"vtree": "((0 2) 1)", "compress": true, "table_cap": 2}, "ops": ["And(0x96, 0xe8)", "Compose(0xca, 1, 0x3c)", "Ite(0x1b, 0xd8, 0x27)"]}));
    for k in ["apply_case_same_vtree_node", "apply_case_descendant_a", "apply_case_descendant_b", "apply_case_independent"] {
        let v = rep.extra.get(k).and_then(|v| v.as_u64()).unwrap_or(0);
        rep.floor(k, v, 1);
    }
    rep.assumptions.push("truth tables read through BinarySDD::{label,low,high} and SddOr::iter; vtree sides recomputed from the vtree value".into());
    rep
}

pub fn filter_for(rep: &mut Report, prop: &str) {
    crate::props::bddsweep::filter_for(rep, prop)
}

// ---------------------------------------------------------------------------------------------
// wide label space: the n = 3 regime with sparse, large labels (function and canonicity oracle)

fn relabel(vt: &VT, map: &[usize]) -> VT {
    match vt {
        VT::Leaf(i) => VT::Leaf(map[*i]),
        VT::Node(l, r) => VT::Node(Box::new(relabel(l, map)), Box::new(relabel(r, map))),
    }
}

fn wide_sweep<'a, B: SddBuilder<'a>>(b: &'a B, cfg: &SCfg, map: &[usize]) -> Report {
    let n = 3usize;
    let mut rep = Report::default();
    rep.exhaustive = true;
    let pf = cfg.prop_fn();
    let case = |what: &str| json!({"kind": "sdd_wide", "cfg": cfg.json(), "map": map, "op": what});
    let idx = |l: usize| map.iter().position(|&m| m == l);
    let lbl = |v: usize| VarLabel::new(map[v] as u64);
    fn sh<'a, B: SddBuilder<'a>>(b: &'a B, t: TT, v: usize, map: &[usize], ite: bool) -> SddPtr<'a> {
        let n = 3;
        if t == 0 {
            return SddPtr::PtrFalse;
        }
        if t == tt::mask(n) {
            return SddPtr::PtrTrue;
        }
        if !tt::depends_on(t, v, n) {
            return sh(b, t, v + 1, map, ite);
        }
        let hi = sh(b, tt::cofactor(t, v, true, n), v + 1, map, ite);
        let lo = sh(b, tt::cofactor(t, v, false, n), v + 1, map, ite);
        let x = b.var(VarLabel::new(map[v] as u64), true);
        if ite {
            b.ite(x, hi, lo)
        } else {
            let a = b.and(x, hi);
            let c = b.and(x.neg(), lo);
            b.or(a, c)
        }
    }
    let mut canon: HashMap<TT, (u8, usize, bool)> = HashMap::new();
    let mut f: Vec<SddPtr<'a>> = Vec::with_capacity(256);
    let check = |r: Result<SddPtr<'a>, String>, want: TT, what: String, rep: &mut Report, canon: &mut HashMap<TT, (u8, usize, bool)>| {
        rep.transitions += 1;
        match r {
            Err(p) => rep.violation(format!("{}:panic", pf), format!("{} [{} labels {:?}] panicked: {}", what, cfg.json(), map, p), case(&what)),
            Ok(r) => match sdd_tt_mapped(r, n, &idx) {
                Err(e) => rep.violation(format!("{}:wrong-function", pf), format!("{} [{} labels {:?}]: {}", what, cfg.json(), map, e), case(&what)),
                Ok(g) => {
                    if g != want {
                        rep.violation(format!("{}:wrong-function", pf), format!("{} [{} labels {:?}] returned the function {:#x}, the definition gives {:#x}", what, cfg.json(), map, g, want), case(&what));
                    } else if cfg.compress && !cfg.semantic {
                        let id = sdd_id(r);
                        match canon.get(&g) {
                            Some(&old) if old != id => rep.violation("C04:two-pointers-one-function", format!("{} [{} labels {:?}] returned a second, different pointer for the function {:#x}", what, cfg.json(), map, g), case(&what)),
                            Some(_) => (),
                            None => {
                                canon.insert(g, id);
                            }
                        }
                    }
                }
            },
        }
    };
    for t in 0..256u64 {
        let r = guarded(|| sh(b, t, 0, map, !cfg.semantic));
        f.push(r.clone().unwrap_or(SddPtr::PtrFalse));
        check(r, t, format!("building {:#x}", t), &mut rep, &mut canon);
    }
    for i in 0..256usize {
        for j in 0..256usize {
            let (x, y) = (i as TT, j as TT);
            check(guarded(|| b.and(f[i], f[j])), x & y, format!("And({:#x}, {:#x})", x, y), &mut rep, &mut canon);
            check(guarded(|| b.or(f[i], f[j])), x | y, format!("Or({:#x}, {:#x})", x, y), &mut rep, &mut canon);
            if !cfg.semantic {
                check(guarded(|| b.xor(f[i], f[j])), x ^ y, format!("Xor({:#x}, {:#x})", x, y), &mut rep, &mut canon);
                check(guarded(|| b.iff(f[i], f[j])), tt::iff(x, y, n), format!("Iff({:#x}, {:#x})", x, y), &mut rep, &mut canon);
            }
        }
        if rep.n_violations > 32 {
            return rep;
        }
    }
    for i in 0..256usize {
        let x = i as TT;
        check(guarded(|| b.negate(f[i])), tt::not(x, n), format!("Neg({:#x})", x), &mut rep, &mut canon);
        for v in 0..n {
            check(guarded(|| b.condition(f[i], lbl(v), true)), tt::cofactor(x, v, true, n), format!("Cond({:#x}, {}, true)", x, v), &mut rep, &mut canon);
            check(guarded(|| b.condition(f[i], lbl(v), false)), tt::cofactor(x, v, false, n), format!("Cond({:#x}, {}, false)", x, v), &mut rep, &mut canon);
            check(guarded(|| b.exists(f[i], lbl(v))), tt::exists(x, v, n), format!("Exists({:#x}, {})", x, v), &mut rep, &mut canon);
            if !cfg.semantic {
                for j in (0..256usize).step_by(5) {
                    check(guarded(|| b.compose(f[i], lbl(v), f[j])), tt::compose_def(x, v, j as TT, n), format!("Compose({:#x}, {}, {:#x})", x, v, j), &mut rep, &mut canon);
                }
            }
        }
    }
    rep.states = canon.len() as u64;
    rep.traces = 1;
    rep.evaluations += rep.transitions;
    rep.add_extra("configurations", 1);
    rep
}

const WIDE_MAPS: [[usize; 3]; 4] = [[0, 64, 1], [63, 64, 127], [5, 69, 133], [128, 0, 64]];

pub fn run_wide_cfg(cfg: &SCfg, map: &[usize]) -> Report {
    let t0 = std::time::Instant::now();
    let mut r = with_sdd_builder!(cfg, |b| wide_sweep(&b, cfg, map));
    r.add_extra("busy_ms_wide", t0.elapsed().as_millis() as u64);
    r
}

/// all 12 vtrees over the three mapped labels x compression on/off (or the semantic builder)
pub fn run_wide(ctx: &Ctx, semantic: bool) -> Report {
    let maps: Vec<Vec<usize>> = WIDE_MAPS.iter().take(ctx.tier.pick(2, 4)).map(|m| m.to_vec()).collect();
    let mut items: Vec<(SCfg, Vec<usize>)> = Vec::new();
    for m in maps.iter() {
        for (i, vt) in all_vtrees(3).into_iter().enumerate() {
            for &compress in (if semantic { vec![false] } else { vec![true, false] }).iter() {
                items.push((SCfg { n: 3, vtree: relabel(&vt, m), compress, semantic, table_cap: 2, issue: i, ite_pool: 0, pair_stride: 0, cold_stride: 0, pool: 0, hash: false, slice: (0, 1) }, m.clone()));
            }
        }
    }
    let mut r = par_run(ctx, &items, |_, (c, m)| run_wide_cfg(c, m));
    r.bound("wide_label_space", json!({"variables": 3, "label_maps": maps, "vtrees": "all 12 over the mapped labels", "operations": "all ordered pairs x and/or/xor/iff, all unary operations, compose with every 5th function"}));
    r.add_extra("wide_label_operations", r.transitions);
    r
}

/// the configurations that carry warm-vs-cold comparisons (C16): n = 2, 3 as in the full sweep
/// plus every 8th n = 4 operand-pool configuration with a cold stride
pub fn run_cold_only(ctx: &Ctx) -> Report {
    let mut rep = Report::new("");
    let mut cfgs: Vec<SCfg> = configs(ctx, false, false).into_iter().filter(|c| c.compress && (c.cold_stride > 0 || (c.n == 4 && c.pool == 1 && c.issue % 8 == (ctx.seed as usize) % 8))).collect();
    for c in cfgs.iter_mut() {
        if c.cold_stride == 0 {
            c.cold_stride = ctx.tier.pick(499, 97);
        }
    }
    cfgs.sort_by_key(|c| std::cmp::Reverse(c.n));
    let r = par_run(ctx, &cfgs, |_, c| run_cfg(c, ctx));
    rep.merge(r);
    rep.merge(crate::props::sddmid::run_cold(ctx));
    rep.bound("sdd_warm_vs_cold", json!({"configurations": cfgs.len(), "n=3": "all vtrees, compression on (without compression diagrams are not canonical and their structure may depend on allocation addresses; only their function is promised, which C03 checks)", "n=4": "every 8th operand-pool configuration"}));
    rep
}

/// thorough tier: the configurations run in batches in single-threaded worker processes (as
/// many at a time as there are cores). rsdd's SDD decision nodes own heap vectors that the
/// builder's bump arena never drops, so a long-lived process that creates thousands of SDD
/// builders keeps all their element vectors; a worker's memory returns to the system when its
/// batch ends. A worker that dies is a machinery failure (engine_panic), never a verdict.
fn run_in_workers(ctx: &Ctx, cfgs: &[SCfg]) -> Report {
    // batch = consecutive configurations of one weight class, sized for roughly half a minute
    let size = |c: &SCfg| if c.n == 5 { 4 } else if c.n == 4 && c.pool == 0 { 8 } else { 12 };
    let mut batches: Vec<Vec<SCfg>> = Vec::new();
    for c in cfgs.iter() {
        match batches.last_mut() {
            Some(b) if b.len() < size(c) && b[0].n == c.n && b[0].pool == c.pool => b.push(c.clone()),
            _ => batches.push(vec![c.clone()]),
        }
    }
    let per_worker_cap = (1.25 * rss_cap_gib() / ctx.threads.max(1) as f64).max(1.5);
    let items: Vec<(usize, Vec<SCfg>)> = batches.into_iter().enumerate().collect();
    let mut r = par_run(ctx, &items, |_, (i, b)| {
        let input = json!(b.iter().map(|c| c.json()).collect::<Vec<_>>());
        match run_worker("sdd", &input, ctx, &format!("{}", i), per_worker_cap) {
            Ok(r) => r,
            Err(e) => {
                let mut r = Report::default();
                r.exhaustive = true;
                r.extra.insert("engine_panic".into(), json!(e));
                r
            }
        }
    });
    r.add_extra("worker_processes", items.len() as u64);
    r
}

/// body of `mc __worker sdd <file>`: the configurations of one batch, one after the other
pub fn worker_batch(ctx: &Ctx, input: &Value) -> Report {
    let mut rep = Report::default();
    rep.exhaustive = true;
    for v in input.as_array().cloned().unwrap_or_default() {
        match SCfg::from_json(&v) {
            Some(c) => rep.merge(run_cfg(&c, ctx)),
            None => {
                rep.extra.insert("engine_panic".into(), json!("worker: unreadable configuration"));
            }
        }
        if ctx.over_time() {
            rep.cap("wall-clock cap inside a worker batch");
            break;
        }
    }
    rep
}

// ---------------------------------------------------------------------------------------------
// many-element decision nodes: multiplexers over 8 variables (6 on the prime side of the root,
// 2 on the sub side), so that one apply hands 64 products to the compression step

fn mux_sweep<'a, B: SddBuilder<'a>>(b: &'a B, cfg: &SCfg) -> Report {
    let mut rep = Report::default();
    rep.exhaustive = true;
    let pf = cfg.prop_fn();
    let lit = |v: usize, pol: bool| b.var(VarLabel::new(v as u64), pol);
    // g_k(x6, x7): the 2-variable function with table k
    let g2 = |k: usize| -> SddPtr<'a> {
        let mut acc = SddPtr::PtrFalse;
        for r in 0..4usize {
            if (k >> r) & 1 == 1 {
                let m = b.and(lit(6, r & 1 == 1), lit(7, r & 2 == 2));
                acc = b.or(acc, m);
            }
        }
        acc
    };
    // mux over the selector variables base..base+2 with data functions g_{(s*mul+off) % 16}
    let mux = |base: usize, mul: usize, off: usize| -> SddPtr<'a> {
        let mut acc = SddPtr::PtrFalse;
        for s in 0..8usize {
            let sel = b.and(b.and(lit(base, s & 1 == 1), lit(base + 1, s & 2 == 2)), lit(base + 2, s & 4 == 4));
            acc = b.or(acc, b.and(sel, g2((s * mul + off) % 16)));
        }
        acc
    };
    let mux_val = |a: u64, base: usize, mul: usize, off: usize| -> bool {
        let s = ((a >> base) & 7) as usize;
        let k = (s * mul + off) % 16;
        let r = (((a >> 6) & 1) | (((a >> 7) & 1) << 1)) as usize;
        (k >> r) & 1 == 1
    };
    let check = |r: Result<SddPtr<'a>, String>, want: &dyn Fn(u64) -> bool, what: String, rep: &mut Report| {
        rep.transitions += 1;
        let case = json!({"kind": "sdd_mux", "cfg": cfg.json(), "op": what});
        match r {
            Err(p) => rep.violation(format!("{}:panic", pf), format!("{} [{}] panicked: {}", what, cfg.json(), p), case),
            Ok(r) => {
                // memoised reader (one 256-bit table per node): a walk per assignment without a memo is
                // exponential in the depth of a diagram with shared nodes
                match crate::bigtt::sdd_big(r, 8, &|l| Some(l)) {
                    Err(e) => rep.violation(format!("{}:wrong-function", pf), format!("{} [{}]: {}", what, cfg.json(), e), case),
                    Ok(t) => {
                        for a in 0..256u64 {
                            if t.eval(a as usize) != want(a) {
                                rep.violation(format!("{}:wrong-function", pf), format!("{} [{}]: the result is {} under assignment {:#010b}, the definition gives {}", what, cfg.json(), t.eval(a as usize), a, want(a)), case);
                                break;
                            }
                        }
                    }
                }
            }
        }
    };
    for c in 0..4usize {
        let f = match guarded(|| mux(0, 5, c)) {
            Ok(x) => x,
            Err(e) => {
                rep.violation(format!("{}:panic", pf), format!("building a multiplexer panicked: {}", e), json!({"kind": "sdd_mux", "cfg": cfg.json(), "op": "build"}));
                return rep;
            }
        };
        check(Ok(f), &|a| mux_val(a, 0, 5, c), format!("mux(x0..x2; {})", c), &mut rep);
        for d in 0..4usize {
            let h = match guarded(|| mux(3, 3, d)) {
                Ok(x) => x,
                Err(e) => {
                    rep.violation(format!("{}:panic", pf), format!("building a multiplexer panicked: {}", e), json!({"kind": "sdd_mux", "cfg": cfg.json(), "op": "build"}));
                    return rep;
                }
            };
            let (fv, hv) = (|a: u64| mux_val(a, 0, 5, c), |a: u64| mux_val(a, 3, 3, d));
            check(guarded(|| b.and(f, h)), &|a| fv(a) && hv(a), format!("And(mux {}, mux' {})", c, d), &mut rep);
            check(guarded(|| b.or(f, h)), &|a| fv(a) || hv(a), format!("Or(mux {}, mux' {})", c, d), &mut rep);
            check(guarded(|| b.and(f.neg(), h)), &|a| !fv(a) && hv(a), format!("And(!mux {}, mux' {})", c, d), &mut rep);
            if !cfg.semantic {
                check(guarded(|| b.xor(f, h)), &|a| fv(a) != hv(a), format!("Xor(mux {}, mux' {})", c, d), &mut rep);
                check(guarded(|| b.iff(f, h)), &|a| fv(a) == hv(a), format!("Iff(mux {}, mux' {})", c, d), &mut rep);
                check(guarded(|| b.ite(f, h, h.neg())), &|a| fv(a) == hv(a), format!("Ite(mux {}, mux' {}, !mux')", c, d), &mut rep);
            }
            for v in [0usize, 4, 6] {
                let l = VarLabel::new(v as u64);
                let fh = guarded(|| b.and(f, h));
                if let Ok(fh) = fh {
                    check(guarded(|| b.condition(fh, l, true)), &|a| { let a1 = a | (1 << v); fv(a1) && hv(a1) }, format!("Cond(And(mux {}, mux' {}), {}, true)", c, d, v), &mut rep);
                    check(guarded(|| b.exists(fh, l)), &|a| { let (a0, a1) = (a & !(1 << v), a | (1 << v)); (fv(a0) && hv(a0)) || (fv(a1) && hv(a1)) }, format!("Exists(And(mux {}, mux' {}), {})", c, d, v), &mut rep);
                }
            }
            if rep.n_violations > 8 {
                return rep;
            }
        }
    }
    rep.states = 16;
    rep.traces = 1;
    rep.evaluations = rep.transitions * 256;
    rep.add_extra("configurations", 1);
    rep
}

pub fn run_mux_cfg(cfg: &SCfg) -> Report {
    with_sdd_builder!(cfg, |b| mux_sweep(&b, cfg))
}

pub fn run_mux(ctx: &Ctx, semantic: bool) -> Report {
    let lefts = ["(0 (1 (2 (3 (4 5)))))", "(((((0 1) 2) 3) 4) 5)", "((0 (1 2)) (3 (4 5)))", "((3 (0 4)) (1 (5 2)))"];
    let mut items: Vec<SCfg> = Vec::new();
    for (i, l) in lefts.iter().enumerate() {
        let vt = VT::parse(&format!("({} (6 7))", l)).unwrap();
        for &compress in (if semantic { vec![false] } else { vec![true, false] }).iter() {
            items.push(SCfg { n: 8, vtree: vt.clone(), compress, semantic, table_cap: 2, issue: i, ite_pool: 0, pair_stride: 0, cold_stride: 0, pool: 0, hash: false, slice: (0, 1) });
        }
    }
    let mut r = par_run(ctx, &items, |_, c| run_mux_cfg(c));
    r.bound("multiplexers_8_variables", json!({"vtrees": lefts.len(), "prime_side_variables": 6, "sub_side_variables": 2, "function_pairs": 16, "operations": "and/or/xor/iff/ite, condition, exists; every result evaluated on all 256 assignments"}));
    r.add_extra("mux8_operations", r.transitions);
    r
}

pub fn replay_for(ctx: &Ctx, prop: &str, case: &Value) -> Report {
    let mut rep = Report::default();
    if case["kind"].as_str() == Some("sdd_mid") {
        rep.merge(crate::props::sddmid::replay(ctx, case));
    } else if let Some(cfg) = SCfg::from_json(&case["cfg"]) {
        if case["kind"].as_str() == Some("sdd_mux") {
            rep.merge(run_mux_cfg(&cfg));
        } else if case["kind"].as_str() == Some("sdd_wide") {
            let m: Vec<usize> = case["map"].as_array().map(|a| a.iter().filter_map(|x| x.as_u64()).map(|x| x as usize).collect()).unwrap_or_default();
            if m.len() == 3 {
                rep.merge(run_wide_cfg(&cfg, &m));
            }
        } else {
            rep.merge(run_cfg(&cfg, ctx));
        }
    }
    filter_for(&mut rep, prop);
    rep
}

#[allow(dead_code)]
fn _unused(_: &CompressionSddBuilder, _: &SemanticSddBuilder<{ primes::U64_LARGEST }>) {}
