//! C08 – smoothing keeps the function and makes counting exact for arbitrary weights.
//! Input-space enumeration: every function of n variables x every order x every smoothing depth.

use crate::core::*;
use crate::props::bddutil::*;
use crate::tt::{self, TT};
use crate::walk::*;
use rsdd::builder::BottomUpBuilder;
use rsdd::repr::{DDNNFPtr, VarLabel, WmcParams};
use rsdd::util::semirings::RealSemiring;
use serde_json::{json, Value};


const W: [(u32, u32); 7] = [(1, 1), (1, 2), (2, 3), (3, 5), (5, 2), (0, 3), (2, 0)];

fn weight_sets(nv: usize, tier: Tier) -> Vec<Vec<(u32, u32)>> {
    // full product of the alphabet for <= 3 variables, a fixed slice above
    let mut out: Vec<Vec<(u32, u32)>> = vec![vec![]];
    for _ in 0..nv {
        let mut next = Vec::new();
        for w in out.iter() {
            for a in W.iter() {
                let mut x = w.clone();
                x.push(*a);
                next.push(x);
            }
        }
        out = next;
    }
    if nv > 3 || (tier == Tier::Quick && nv > 2) {
        // rule: unit weights, then every k-th element of the product
        let step = out.len() / 12;
        let unit = vec![(1, 1); nv];
        let mut sel: Vec<Vec<(u32, u32)>> = vec![unit];
        sel.extend(out.into_iter().skip(1).step_by(step.max(1)));
        return sel;
    }
    out
}

fn brute(t: TT, nv: usize, w: &[(u32, u32)]) -> u64 {
    let mut total = 0u64;
    for a in 0..(1usize << nv) {
        if tt::eval(t, a) {
            let mut p = 1u64;
            for v in 0..nv {
                p *= if (a >> v) & 1 == 1 { w[v].1 } else { w[v].0 } as u64;
            }
            total += p;
        }
    }
    total
}

pub struct Case {
    pub n: usize,
    pub extra: usize,
    pub order: Vec<usize>,
    pub f: TT,
    pub k: usize,
    /// the last `appended` variables of `order` were added with new_var after construction
    pub appended: usize,
}

/// check one (function, order, depth) case in the given builder; returns a violation text
fn check_case<'a>(b: &'a AllBuilder<'a>, c: &Case, params: &[(Vec<(u32, u32)>, WmcParams<RealSemiring>)], evals: &mut u64) -> Option<(String, String)> {
    let nv = c.n + c.extra;
    let t = tt::extend(c.f, c.n, nv);
    let p = build_bdd(b, c.f, c.n);
    if bdd_tt(p, nv) != t {
        return None; // construction is C01's business; never blame smoothing for it
    }
    let levels = levels_of(&c.order);
    let s = match guarded(|| b.smooth(p, c.k)) {
        Ok(s) => s,
        Err(e) => return Some(("panic".into(), format!("smooth panicked: {}", e))),
    };
    *evals += 1;
    let got = bdd_tt(s, nv);
    if got != t {
        return Some(("function-changed".into(), format!("smooth(f, {}) denotes {:#x} instead of {:#x}", c.k, got, t)));
    }
    for path in bdd_paths(s) {
        let lv: Vec<usize> = path.iter().map(|&v| levels[v]).collect();
        // the first k tested variables are exactly levels 0..k-1, in order
        if lv.len() < c.k || (0..c.k).any(|i| lv[i] != i) {
            return Some((
                "path-misses-level".into(),
                format!("smooth(f, {}): a path tests variables at levels {:?} (labels {:?}); levels 0..{} must each be tested exactly once, in order", c.k, lv, path, c.k),
            ));
        }
        // below the smoothed prefix the path is still ordered
        for i in c.k.max(1)..lv.len() {
            if lv[i] <= lv[i - 1] {
                return Some(("path-order".into(), format!("smooth(f, {}): path levels {:?} not increasing", c.k, lv)));
            }
        }
    }
    // smoothing over a proper prefix: when the function depends only on variables of the first k
    // levels, the smoothed diagram is a diagram over exactly those variables and its count is the
    // brute-force sum over their assignments (the other variables' weights do not enter)
    if c.k < nv {
        let prefix: Vec<usize> = (0..nv).filter(|&v| levels[v] < c.k).collect();
        let sup = tt::support_mask(t, nv);
        if (0..nv).all(|v| (sup >> v) & 1 == 0 || levels[v] < c.k) {
            for (w, prm) in params.iter() {
                let mut want = 0u64;
                for a in 0..(1usize << prefix.len()) {
                    // assignment of all variables: prefix variables from `a`, the others false
                    let mut full = 0usize;
                    let mut p = 1u64;
                    for (i, &v) in prefix.iter().enumerate() {
                        let bit = (a >> i) & 1 == 1;
                        if bit {
                            full |= 1 << v;
                        }
                        p *= if bit { w[v].1 } else { w[v].0 } as u64;
                    }
                    if tt::eval(t, full) {
                        want += p;
                    }
                }
                let gotw = match guarded(|| s.unsmoothed_wmc(prm)) {
                    Ok(x) => x.0,
                    Err(e) => return Some(("panic".into(), format!("wmc of the smoothed diagram panicked: {}", e))),
                };
                *evals += 1;
                if gotw != want as f64 {
                    return Some((
                        "count-wrong".into(),
                        format!("count of smooth(f, {}) (f depends only on the first {} levels) under (low, high) weights {:?} is {} but the sum over the assignments of those levels' variables is {}", c.k, c.k, w, gotw, want),
                    ));
                }
            }
        }
    }
    // widening: smoothing the already smoothed diagram again over a larger prefix must give the
    // diagram smoothed over that prefix (function kept, every path tests levels 0..k2-1 once,
    // in order; exact counts at the full width)
    for k2 in (c.k + 1)..=nv {
        let s2 = match guarded(|| b.smooth(s, k2)) {
            Ok(x) => x,
            Err(e) => return Some(("panic".into(), format!("smooth(smooth(f, {}), {}) panicked: {}", c.k, k2, e))),
        };
        *evals += 1;
        if bdd_tt(s2, nv) != t {
            return Some(("function-changed".into(), format!("smooth(smooth(f, {}), {}) denotes {:#x} instead of {:#x}", c.k, k2, bdd_tt(s2, nv), t)));
        }
        for path in bdd_paths(s2) {
            let lv: Vec<usize> = path.iter().map(|&v| levels[v]).collect();
            if lv.len() < k2 || (0..k2).any(|i| lv[i] != i) {
                return Some(("path-misses-level".into(), format!("smooth(smooth(f, {}), {}): a path tests variables at levels {:?}; levels 0..{} must each be tested exactly once, in order", c.k, k2, lv, k2)));
            }
        }
        if k2 == nv {
            if let Some((w, prm)) = params.iter().nth(1).or(params.first()) {
                let want = brute(t, nv, w);
                if let Ok(x) = guarded(|| s2.unsmoothed_wmc(prm)) {
                    *evals += 1;
                    if x.0 != want as f64 {
                        return Some(("count-wrong".into(), format!("count of smooth(smooth(f, {}), {}) under weights {:?} is {} but the sum over models is {}", c.k, k2, w, x.0, want)));
                    }
                }
            }
        }
    }
    if c.k == nv {
        for (w, prm) in params.iter() {
            let want = brute(t, nv, w);
            let gotw = match guarded(|| s.unsmoothed_wmc(prm)) {
                Ok(x) => x.0,
                Err(e) => return Some(("panic".into(), format!("wmc of the smoothed diagram panicked: {}", e))),
            };
            *evals += 1;
            if gotw != want as f64 {
                return Some((
                    "count-wrong".into(),
                    format!("count of smooth(f, {}) under (low, high) weights {:?} is {} but the sum over models is {}", c.k, w, gotw, want),
                ));
            }
        }
    }
    None
}

/// smooth, disturb the builder with another kind of call on the same diagram, smooth again: the second
/// smoothing must still be right (function, every path testing levels 0..k-1 once in order, exact count at
/// full width). Disturbances: conditioning on every literal, quantifying every variable, conjoining with
/// every positive literal, negation.
fn check_disturbed<'a>(b: &'a AllBuilder<'a>, c: &Case, params: &[(Vec<(u32, u32)>, WmcParams<RealSemiring>)], evals: &mut u64) -> Option<(String, String)> {
    let nv = c.n + c.extra;
    let t = tt::extend(c.f, c.n, nv);
    let p = build_bdd(b, c.f, c.n);
    if bdd_tt(p, nv) != t {
        return None;
    }
    let levels = levels_of(&c.order);
    let mut dist: Vec<(String, usize, u8)> = Vec::new();
    for v in 0..nv {
        dist.push((format!("condition(f, x{}, true)", v), v, 0));
        dist.push((format!("condition(f, x{}, false)", v), v, 1));
        dist.push((format!("exists(f, x{})", v), v, 2));
        dist.push((format!("and(f, x{})", v), v, 3));
    }
    dist.push(("negate(f)".to_string(), 0, 4));
    dist.push(("builder statistics (stats, num_recursive_calls)".to_string(), 0, 5));
    dist.push(("count_nodes / model count queries on f".to_string(), 0, 6));
    dist.push(("another object of the library created, used and dropped".to_string(), c.k + c.f as usize, 7));
    for (name, v, kind) in dist.iter() {
        let r = guarded(|| {
            let first = b.smooth(p, c.k);
            let lbl = VarLabel::new(*v as u64);
            let _ = match kind {
                0 => b.condition(p, lbl, true),
                1 => b.condition(p, lbl, false),
                2 => b.exists(p, lbl),
                3 => b.and(p, b.var(lbl, true)),
                4 => b.negate(p),
                5 => {
                    let _ = (b.stats(), b.num_recursive_calls());
                    p
                }
                6 => {
                    let _ = p.count_nodes();
                    p
                }
                _ => {
                    crate::props::bddutil::interloper(*v);
                    p
                }
            };
            (first, b.smooth(p, c.k))
        });
        *evals += 2;
        let (first, s) = match r {
            Ok(x) => x,
            Err(e) => return Some(("panic".into(), format!("smooth(f, {}); {}; smooth(f, {}) panicked: {}", c.k, name, c.k, e))),
        };
        let got = bdd_tt(s, nv);
        if got != t {
            return Some(("function-changed".into(), format!("smooth(f, {}); {}; smooth(f, {}): the second smoothing denotes {:#x} instead of {:#x}", c.k, name, c.k, got, t)));
        }
        if bdd_tt(first, nv) != t {
            return Some(("function-changed".into(), format!("smooth(f, {}) denotes {:#x} instead of {:#x}", c.k, bdd_tt(first, nv), t)));
        }
        for path in bdd_paths(s) {
            let lv: Vec<usize> = path.iter().map(|&x| levels[x]).collect();
            if lv.len() < c.k || (0..c.k).any(|i| lv[i] != i) {
                return Some(("path-misses-level".into(), format!("smooth(f, {}); {}; smooth(f, {}): a path of the second result tests levels {:?}; levels 0..{} must each be tested exactly once, in order", c.k, name, c.k, lv, c.k)));
            }
        }
        if c.k == nv {
            if let Some((w, prm)) = params.iter().nth(1).or(params.first()) {
                let want = brute(t, nv, w);
                if let Ok(x) = guarded(|| s.unsmoothed_wmc(prm)) {
                    *evals += 1;
                    if x.0 != want as f64 {
                        return Some(("count-wrong".into(), format!("smooth(f, {}); {}; smooth(f, {}): the count of the second result under weights {:?} is {} but the sum over models is {}", c.k, name, c.k, w, x.0, want)));
                    }
                }
            }
        }
    }
    None
}

fn make_params(nv: usize, tier: Tier) -> Vec<(Vec<(u32, u32)>, WmcParams<RealSemiring>)> {
    weight_sets(nv, tier)
        .into_iter()
        .enumerate()
        .map(|(k, w)| {
            // table k is reached through construction history k (see wparams.rs)
            let tw: Vec<(RealSemiring, RealSemiring)> = w.iter().map(|&(l, h)| (RealSemiring(l as f64), RealSemiring(h as f64))).collect();
            (w, crate::props::wparams::build_params(&tw, k))
        })
        .collect()
}

fn case_json(c: &Case) -> Value {
    json!({"kind": "smooth", "n": c.n, "extra_vars": c.extra, "order": c.order, "function": format!("{:#x}", c.f), "depth": c.k, "appended": c.appended, "smooth_while_growing": c.appended > 0})
}

/// add `appended` variables to a live manager with new_var
fn grow<'a>(b: &'a AllBuilder<'a>, appended: usize) {
    for _ in 0..appended {
        b.new_var(true);
    }
}

/// the same, but the manager is used for smoothing before every growth step (smooth, new_var,
/// smooth, new_var, ...): whatever smoothing derives from the order must follow the order
fn grow_with_smoothing<'a>(b: &'a AllBuilder<'a>, initial: usize, order: &[usize], appended: usize) {
    for step in 0..appended {
        let m = initial + step;
        let mut ps: Vec<rsdd::repr::BddPtr<'a>> = vec![rsdd::repr::BddPtr::PtrTrue, rsdd::repr::BddPtr::PtrFalse];
        if m >= 1 {
            ps.push(b.var(VarLabel::new(order[m - 1] as u64), true));
        }
        if m >= 2 {
            let x = b.var(VarLabel::new(order[0] as u64), false);
            let y = b.var(VarLabel::new(order[m - 1] as u64), true);
            ps.push(b.and(x, y));
        }
        for p in ps {
            for k in 0..=m {
                let _ = b.smooth(p, k);
            }
        }
        b.new_var(true);
    }
}

#[allow(clippy::too_many_arguments)]
fn run_config_h(n: usize, extra: usize, order: &[usize], table_cap: usize, ctx: &Ctx, fstep: usize, appended: usize, smooth_while_growing: bool) -> Report {
    let mut rep = Report::default();
    rep.exhaustive = true;
    let nv = n + extra;
    let params = make_params(nv, ctx.tier);
    let total = 1u64 << (1u64 << n);
    let b = small_builder(&order[..nv - appended], table_cap);
    let disturb = (order.iter().enumerate().map(|(i, v)| i * v).sum::<usize>() + appended) % 2 == 0 || ctx.tier == Tier::Thorough;
    if let Err(e) = guarded(|| if smooth_while_growing { grow_with_smoothing(&b, nv - appended, order, appended) } else { grow(&b, appended) }) {
        rep.violation("smooth:panic", format!("adding {} variables to a {}-variable manager panicked: {}", appended, nv - appended, e), json!({"kind": "smooth", "n": n, "extra_vars": extra, "order": order, "function": "0x0", "depth": 0, "appended": appended}));
        return rep;
    }
    let mut skipped_mid = 0u64;
    let levels = levels_of(order);
    let mut f = 0u64;
    while f < total {
        for k in 0..=nv {
            let c = Case { n, extra, order: order.to_vec(), f, k, appended };
            let mut ev = 0;
            let v = check_case(&b, &c, &params, &mut ev);
            rep.transitions += 1;
            rep.evaluations += ev;
            if let Some((key, what)) = v {
                rep.violation(format!("smooth:{}", key), format!("n={} order={:?} f={:#x}: {}", nv, order, f, what), case_json(&c));
            }
            // other kinds of builder calls between two smoothing calls (every second configuration of the
            // small managers; a stride over the functions of the larger ones)
            if disturb && (total <= 256 || (f / fstep as u64) % 16 == 3) && !crate::core::disabled("disturb") {
                let mut ev = 0;
                if let Some((key, what)) = check_disturbed(&b, &c, &params, &mut ev) {
                    rep.violation(format!("smooth:{}", key), format!("n={} order={:?} f={:#x}: {}", nv, order, f, what), case_json(&c));
                }
                rep.transitions += 1;
                rep.evaluations += ev;
                rep.add_extra("smooth_disturb_smooth_cases", 1);
            }
        }
        // anti-vacuity: functions whose diagram skips a level that is not at the bottom
        let sup = tt::support_mask(f, n);
        let lv: Vec<usize> = (0..n).filter(|v| (sup >> v) & 1 == 1).map(|v| levels[v]).collect();
        if let Some(&mx) = lv.iter().max() {
            if (0..mx).any(|l| !lv.contains(&l)) {
                skipped_mid += 1;
            }
        }
        rep.states += 1;
        if rep.n_violations > 32 {
            break;
        }
        f += fstep as u64;
        if f % 4096 == 0 && ctx.over_time() {
            rep.cap("wall-clock cap inside smoothing sweep");
            break;
        }
    }
    rep.traces = rep.states;
    rep.add_extra("functions_skipping_a_non_bottom_level", skipped_mid);
    rep.add_extra("configurations", 1);
    rep
}

pub fn run(ctx: &Ctx) -> Report {
    let mut rep = Report::new(
        "every Boolean function of n variables (n <= 3 quick, 4 thorough; plus one unused builder variable) x every variable order x every smoothing depth k = 0..#vars: function preserved, every path tests levels 0..k-1 exactly once in order, and for k = #vars the count under integer (low, high) weights from {(1,1),(1,2),(2,3),(3,5),(5,2),(0,3),(2,0)} equals the brute-force sum; distinct = (function, order, depth), non-trivial = function not constant",
    );
    let mut items: Vec<(usize, usize, Vec<usize>, usize, usize, usize, bool)> = Vec::new();
    let ns: Vec<(usize, usize)> = match ctx.tier {
        Tier::Quick => vec![(1, 0), (2, 0), (2, 1), (3, 0), (3, 1)],
        Tier::Thorough => vec![(1, 0), (2, 0), (2, 1), (3, 0), (3, 1), (4, 0), (4, 1)],
    };
    for (n, extra) in ns {
        for o in permutations(n + extra) {
            items.push((n, extra, o.clone(), 2, 0, 1, false));
        }
        // one configuration at the library's default table capacity
        items.push((n, extra, (0..n + extra).rev().collect(), 0, 0, 1, false));
        // managers grown by new_var: every order of the initial variables, 1..#vars appended
        let nv = n + extra;
        for a in 1..=nv {
            for o in permutations(nv - a) {
                let mut full = o.clone();
                full.extend(nv - a..nv);
                items.push((n, extra, full.clone(), 2, a, 1, false));
                // ... and the same manager used for smoothing before every growth step
                items.push((n, extra, full, 2, a, 1, true));
            }
        }
    }
    // strided slices of larger function spaces: every 16th function of F(4) in quick (all of it
    // in thorough, above), an arithmetic progression through the 2^32 functions of 5 variables
    // under every order in thorough (6 orders in quick)
    if ctx.tier == Tier::Quick {
        for o in permutations(4) {
            items.push((4, 0, o, 2, 0, 16, false));
        }
    }
    {
        let step5 = ctx.tier.pick(26_843_543, 4_194_301);
        let orders5: Vec<Vec<usize>> = if ctx.tier == Tier::Quick { permutations(5).into_iter().step_by(23).collect() } else { permutations(5) };
        for o in orders5 {
            items.push((5, 0, o, 2, 0, step5, false));
        }
        items.push((5, 0, vec![2, 0, 1, 3, 4], 2, 2, step5, false));
        items.push((5, 0, vec![2, 0, 1, 3, 4], 2, 2, step5, true));
    }
    let r = par_run(ctx, &items, |_, (n, extra, o, cap, a, step, sg)| run_config_h(*n, *extra, o, *cap, ctx, *step, *a, *sg));
    // the exported unweighted counter (smooth over all manager variables + unit-weight count)
    // on wide managers: counts up to 2^63 - 1 against the closed form
    let wides: Vec<usize> = ctx.tier.pick(vec![8, 20, 33, 54, 60, 63], (4..=63).step_by(3).chain([63usize]).collect());
    let w = par_run(ctx, &wides, |_, nv| crate::props::c18::wide_counts_keyed(*nv, "smooth:unweighted-count"));
    rep.add_extra("wide_manager_model_counts", w.transitions);
    rep.merge(w);
    let mid = r.extra.get("functions_skipping_a_non_bottom_level").and_then(|v| v.as_u64()).unwrap_or(0);
    rep.merge(r);
    rep.floor("functions whose diagram skips a non-bottom level", mid, 1);
    rep.distinct_nontrivial = rep.transitions;
    rep.bound("functions", json!(match ctx.tier { Tier::Quick => "all of F(1..3), with and without one unused variable; every 16th function of F(4); about 160 functions of F(5) under 6 orders", Tier::Thorough => "all of F(1..4), with and without one unused variable; about 1000 functions of F(5) under all 120 orders" }));
    rep.bound("orders", json!("all permutations; plus managers created over the first m variables (all permutations) and grown to #vars by new_var, m = 0..#vars-1"));
    rep.bound("weights", json!("full product of the 7-pair alphabet for <= 3 variables (<=2 in quick), a 13-element rule-defined slice above"));
    rep.sample(json!({"function": "0xf0 (= x2)", "order": [0, 1, 2], "depth": 3, "expected_paths": "x0,x1,x2 on every path"}));
    rep.assumptions.push("integer weights keep f64 arithmetic exact; the counts are compared with ==".into());
    // wide managers: labels that collide modulo 32 / 64 and straddle 2^5 .. 2^8 (wide.rs)
    if !disabled("wide") {
        let w = crate::props::wide::smooth(ctx);
        rep.merge(w);
    }
    rep
}

pub fn replay(_ctx: &Ctx, case: &Value) -> Report {
    if let Some(r) = crate::props::wide::replay(_ctx, case) {
        return r;
    }
    let mut rep = Report::default();
    if case["kind"].as_str() == Some("ffi_wide") {
        rep.merge(crate::props::c18::wide_counts_keyed(case["n"].as_u64().unwrap_or(20) as usize, "smooth:unweighted-count"));
        return rep;
    }
    let n = case["n"].as_u64().unwrap_or(3) as usize;
    let extra = case["extra_vars"].as_u64().unwrap_or(0) as usize;
    let order: Vec<usize> = case["order"].as_array().map(|a| a.iter().filter_map(|x| x.as_u64()).map(|x| x as usize).collect()).unwrap_or_default();
    let f = u64::from_str_radix(case["function"].as_str().unwrap_or("0x0").trim_start_matches("0x"), 16).unwrap_or(0);
    let k = case["depth"].as_u64().unwrap_or(0) as usize;
    let params = make_params(n + extra, Tier::Thorough);
    let appended = case["appended"].as_u64().unwrap_or(0) as usize;
    let appended = appended.min(order.len());
    let b = small_builder(&order[..order.len() - appended], 2);
    if case["smooth_while_growing"].as_bool().unwrap_or(false) {
        grow_with_smoothing(&b, order.len() - appended, &order, appended);
    } else {
        grow(&b, appended);
    }
    let c = Case { n, extra, order: order.clone(), f, k, appended };
    let mut ev = 0;
    if let Some((key, what)) = check_case(&b, &c, &params, &mut ev) {
        rep.violation(format!("smooth:{}", key), what, case.clone());
    }
    rep
}
