//! helpers shared by the BDD-based checks
use crate::tt::{self, TT};
use rsdd::builder::bdd::RobddBuilder;
use rsdd::builder::cache::{AllIteTable, IteTable};
use rsdd::builder::BottomUpBuilder;
use rsdd::repr::{BddPtr, VarLabel, VarOrder};

pub type AllBuilder<'a> = RobddBuilder<'a, AllIteTable<BddPtr<'a>>>;

pub fn order_of(perm: &[usize]) -> VarOrder {
    // the identity order is made the way users make it (the dedicated constructor); every other
    // order from the explicit list
    if perm.len() > 1 && perm.iter().enumerate().all(|(i, &x)| i == x) {
        return VarOrder::linear_order(perm.len());
    }
    let v: Vec<VarLabel> = perm.iter().map(|&x| VarLabel::new(x as u64)).collect();
    VarOrder::new(&v)
}

/// a fresh cache-everything builder with a small unique table (hook), dropped by the caller
pub fn small_builder<'a>(perm: &[usize], table_cap: usize) -> AllBuilder<'a> {
    rsdd::verif::set_table_capacity(table_cap);
    let b = RobddBuilder::<AllIteTable<BddPtr>>::new(order_of(perm));
    rsdd::verif::set_table_capacity(0);
    b
}

/// build the function with truth table `t` over `n` variables by Shannon expansion with `ite`
/// (label order 0,1,2,.., deliberately not the builder's order). The caller verifies the result.
pub fn build_bdd<'a, T: IteTable<'a, BddPtr<'a>> + Default>(
    b: &'a RobddBuilder<'a, T>,
    t: TT,
    n: usize,
) -> BddPtr<'a> {
    fn rec<'a, T: IteTable<'a, BddPtr<'a>> + Default>(
        b: &'a RobddBuilder<'a, T>,
        t: TT,
        v: usize,
        n: usize,
    ) -> BddPtr<'a> {
        if t == 0 {
            return BddPtr::PtrFalse;
        }
        if t == tt::mask(n) {
            return BddPtr::PtrTrue;
        }
        if !tt::depends_on(t, v, n) {
            return rec(b, t, v + 1, n);
        }
        let hi = rec(b, tt::cofactor(t, v, true, n), v + 1, n);
        let lo = rec(b, tt::cofactor(t, v, false, n), v + 1, n);
        let x = b.var(VarLabel::new(v as u64), true);
        b.ite(x, hi, lo)
    }
    rec(b, t, 0, n)
}

/// level (position) of every label for a permutation given as "label at position i"
pub fn levels_of(perm: &[usize]) -> Vec<usize> {
    let mut l = vec![0; perm.len()];
    for (pos, &v) in perm.iter().enumerate() {
        l[v] = pos;
    }
    l
}

/// "Two objects of one kind on one thread": create, use a little and drop ANOTHER object of the library
/// (rotating with `k`: a BDD builder, an SDD builder, a top-down builder of either store, a solver, a vtree
/// manager, a weight table, a formula with its hasher and orders). Called by the long-lived sweeps between
/// their own operations: anything the library keeps per thread or per process instead of per object - an id
/// counter restarted by a constructor, a handle slab, a "current manager" - is disturbed by it, while a
/// correct library is indifferent. Panics inside are swallowed (the interloper's own correctness is checked
/// elsewhere).
pub fn interloper(k: usize) {
    use rsdd::builder::decision_nnf::{DecisionNNFBuilder, SemanticDecisionNNFBuilder, StandardDecisionNNFBuilder};
    use rsdd::builder::sdd::CompressionSddBuilder;
    use rsdd::repr::{Cnf, DDNNFPtr, Literal, VTree, VTreeManager};
    if crate::core::disabled("interloper") {
        return;
    }
    let lit = |v: u64, p: bool| Literal::new(VarLabel::new(v), p);
    let _ = crate::core::guarded(|| {
        rsdd::verif::set_table_capacity(4);
        match k % 8 {
            0 => {
                let b = RobddBuilder::<AllIteTable<BddPtr>>::new(VarOrder::linear_order(1 + k % 3));
                let x = b.var(VarLabel::new(0), true);
                let _ = b.and(x, x.neg());
            }
            1 => {
                let b = RobddBuilder::<AllIteTable<BddPtr>>::new(VarOrder::linear_order(3));
                let (x, y, z) = (b.var(VarLabel::new(0), true), b.var(VarLabel::new(1), false), b.var(VarLabel::new(2), true));
                let f = b.ite(x, y, z);
                let _ = b.exists(f, VarLabel::new(1));
                let _ = f.count_nodes();
            }
            2 => {
                let vt = VTree::right_linear(&[VarLabel::new(0), VarLabel::new(1), VarLabel::new(2)]);
                let b = CompressionSddBuilder::new(vt);
                let (x, y) = (b.var(VarLabel::new(0), true), b.var(VarLabel::new(2), true));
                let _ = b.or(x, y);
            }
            3 => {
                let c = Cnf::new(&[vec![lit(0, true), lit(1, false)], vec![lit(1, true), lit(2, true)]]);
                let b = StandardDecisionNNFBuilder::new(VarOrder::linear_order(3));
                let _ = b.compile_cnf_topdown(&c);
            }
            4 => {
                let c = Cnf::new(&[vec![lit(0, false), lit(1, false)]]);
                let b = SemanticDecisionNNFBuilder::<{ rsdd::constants::primes::U64_LARGEST }>::new(VarOrder::linear_order(2));
                let _ = b.compile_cnf_topdown(&c);
            }
            5 => {
                let c = Cnf::new(&[vec![lit(0, true), lit(1, true)], vec![lit(0, false)]]);
                if let Some(mut s) = rsdd::repr::SATSolver::new(c) {
                    let _ = s.decide(lit(1, false));
                    s.pop();
                }
            }
            6 => {
                let vt = VTree::even_split(&[VarLabel::new(0), VarLabel::new(1), VarLabel::new(2), VarLabel::new(3)], 2);
                let m = VTreeManager::new(vt);
                let _ = m.lca(m.var_index(VarLabel::new(3)), m.var_index(VarLabel::new(0)));
            }
            _ => {
                let c = Cnf::new(&[vec![lit(0, true), lit(2, false)], vec![lit(1, true)]]);
                let _ = (c.min_fill_order(), c.hasher().hash(&rsdd::repr::PartialModel::from_litvec(&[lit(1, true)], 3)), c.to_dimacs());
                let mut w: rsdd::repr::WmcParams<rsdd::util::semirings::RealSemiring> = rsdd::repr::WmcParams::default();
                w.set_weight(VarLabel::new(1), rsdd::util::semirings::RealSemiring(0.5), rsdd::util::semirings::RealSemiring(0.5));
            }
        }
        rsdd::verif::set_table_capacity(0);
    });
    rsdd::verif::set_table_capacity(0);
}
