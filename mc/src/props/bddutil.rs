//! helpers shared by the BDD-based checks
use crate::tt::{self, TT};
use rsdd::builder::bdd::RobddBuilder;
use rsdd::builder::cache::{AllIteTable, IteTable};
use rsdd::builder::BottomUpBuilder;
use rsdd::repr::{BddPtr, VarLabel, VarOrder};

pub type AllBuilder<'a> = RobddBuilder<'a, AllIteTable<BddPtr<'a>>>;

pub fn order_of(perm: &[usize]) -> VarOrder {
    // the identity order is made the way users make it (the dedicated constructor); every other
    // order from the explicit list
    if perm.len() > 1 && perm.iter().enumerate().all(|(i, &x)| i == x) {
        return VarOrder::linear_order(perm.len());
    }
    let v: Vec<VarLabel> = perm.iter().map(|&x| VarLabel::new(x as u64)).collect();
    VarOrder::new(&v)
}

/// a fresh cache-everything builder with a small unique table (hook), dropped by the caller
pub fn small_builder<'a>(perm: &[usize], table_cap: usize) -> AllBuilder<'a> {
    rsdd::verif::set_table_capacity(table_cap);
    let b = RobddBuilder::<AllIteTable<BddPtr>>::new(order_of(perm));
    rsdd::verif::set_table_capacity(0);
    b
}

/// build the function with truth table `t` over `n` variables by Shannon expansion with `ite`
/// (label order 0,1,2,.., deliberately not the builder's order). The caller verifies the result.
pub fn build_bdd<'a, T: IteTable<'a, BddPtr<'a>> + Default>(
    b: &'a RobddBuilder<'a, T>,
    t: TT,
    n: usize,
) -> BddPtr<'a> {
    fn rec<'a, T: IteTable<'a, BddPtr<'a>> + Default>(
        b: &'a RobddBuilder<'a, T>,
        t: TT,
        v: usize,
        n: usize,
    ) -> BddPtr<'a> {
        if t == 0 {
            return BddPtr::PtrFalse;
        }
        if t == tt::mask(n) {
            return BddPtr::PtrTrue;
        }
        if !tt::depends_on(t, v, n) {
            return rec(b, t, v + 1, n);
        }
        let hi = rec(b, tt::cofactor(t, v, true, n), v + 1, n);
        let lo = rec(b, tt::cofactor(t, v, false, n), v + 1, n);
        let x = b.var(VarLabel::new(v as u64), true);
        b.ite(x, hi, lo)
    }
    rec(b, t, 0, n)
}

/// level (position) of every label for a permutation given as "label at position i"
pub fn levels_of(perm: &[usize]) -> Vec<usize> {
    let mut l = vec![0; perm.len()];
    for (pos, &v) in perm.iter().enumerate() {
        l[v] = pos;
    }
    l
}
