//! C02 – canonicity and shape.
//! (a) explicit-state exploration of the real unique table (`BackedRobinhoodTable`) with explicit
//!     hashes against a set model; (b) builder-level canonicity map + shape walk over the BDD
//!     sweep histories (shared engine in `bddsweep`); (c) default-capacity growth scenario.

use crate::core::*;
use rsdd::verif::BackedRobinhoodTable;
use serde_json::{json, Value};
use std::collections::{HashMap, HashSet};

#[derive(Clone, Copy, Debug, PartialEq, Eq)]
pub enum Act {
    /// insert a fresh element (id = number of elements so far) with this hash
    Insert(u8),
    /// get_or_insert of the already present element with this id
    Lookup(u8),
    /// semantic-store mode: get_or_insert_by_hash(h, fresh, true)
    InsertByHash(u8),
    /// semantic-store mode: get_by_hash(h)
    GetByHash(u8),
}

fn act_json(a: &Act) -> Value {
    match a {
        Act::Insert(h) => json!({"insert_fresh_with_hash": h}),
        Act::Lookup(e) => json!({"lookup_element": e}),
        Act::InsertByHash(h) => json!({"get_or_insert_by_hash": h}),
        Act::GetByHash(h) => json!({"get_by_hash": h}),
    }
}

fn act_from_json(v: &Value) -> Option<Act> {
    if let Some(h) = v.get("insert_fresh_with_hash") {
        return Some(Act::Insert(h.as_u64()? as u8));
    }
    if let Some(h) = v.get("lookup_element") {
        return Some(Act::Lookup(h.as_u64()? as u8));
    }
    if let Some(h) = v.get("get_or_insert_by_hash") {
        return Some(Act::InsertByHash(h.as_u64()? as u8));
    }
    if let Some(h) = v.get("get_by_hash") {
        return Some(Act::GetByHash(h.as_u64()? as u8));
    }
    None
}

/// the real table plus the set model, driven in lock step
struct Live {
    tbl: *mut BackedRobinhoodTable<'static, u32>,
    /// model: element id -> (hash, address first handed out)
    model: Vec<(u64, usize)>,
    /// semantic mode model: hash -> address first handed out
    by_hash: HashMap<u64, usize>,
    growths: u64,
    last_cap: usize,
}

impl Live {
    fn new(cap: usize) -> Live {
        rsdd::verif::set_table_capacity(cap);
        let t: BackedRobinhoodTable<'static, u32> = BackedRobinhoodTable::new();
        rsdd::verif::set_table_capacity(0);
        Live {
            tbl: Box::into_raw(Box::new(t)),
            model: Vec::new(),
            by_hash: HashMap::new(),
            growths: 0,
            last_cap: cap,
        }
    }

    fn t(&self) -> &'static mut BackedRobinhoodTable<'static, u32> {
        unsafe { &mut *self.tbl }
    }

    /// canonical key: capacity, number of nodes, slot dump with element ids
    fn key(&self) -> Vec<u64> {
        let t = self.t();
        let (cap, len, _hits) = t.verif_cap_len_hits();
        let mut k = Vec::with_capacity(2 + cap);
        k.push(cap as u64);
        k.push(len as u64);
        for (occ, hash, psl, e) in t.verif_slots() {
            // occupied(1) | psl(8) | hash(..) | element
            let el = e.map(|x| *x as u64 + 1).unwrap_or(0);
            k.push((occ as u64) | ((psl as u64) << 1) | (el << 9) | (hash << 32));
        }
        k
    }

    fn dump(&self) -> Value {
        let t = self.t();
        let (cap, len, _) = t.verif_cap_len_hits();
        json!({"cap": cap, "len": len, "slots": t.verif_slots().iter().map(|(o,h,p,e)| json!([o,h,p,e.map(|x| *x)])).collect::<Vec<_>>()})
    }

    /// apply one action to the real table and check it against the model
    fn step(&mut self, a: Act) -> Result<(), String> {
        let r = guarded(|| -> Result<(), String> {
            match a {
                Act::Insert(h) => {
                    let h = h as u64;
                    let id = self.model.len() as u32;
                    let p = self.t().get_or_insert_by_hash(h, id, false);
                    let addr = p as *const u32 as usize;
                    if *p != id {
                        return Err(format!("insert of fresh element {} returned a slot holding {}", id, *p));
                    }
                    if let Some((j, _)) = self.model.iter().enumerate().find(|(_, m)| m.1 == addr) {
                        return Err(format!(
                            "fresh element {} was given the address of element {}",
                            id, j
                        ));
                    }
                    self.model.push((h, addr));
                }
                Act::Lookup(e) => {
                    let (h, addr) = self.model[e as usize];
                    let p = self.t().get_or_insert_by_hash(h, e as u32, false);
                    let got = p as *const u32 as usize;
                    if got != addr {
                        return Err(format!(
                            "element {} (hash {}) already in the table was not found: a second copy was allocated",
                            e, h
                        ));
                    }
                }
                Act::InsertByHash(h) => {
                    let h = h as u64;
                    let id = self.model.len() as u32;
                    let p = self.t().get_or_insert_by_hash(h, id, true);
                    let addr = p as *const u32 as usize;
                    match self.by_hash.get(&h) {
                        Some(&first) => {
                            if first != addr {
                                return Err(format!("hash {} present, but get_or_insert_by_hash(.., true) allocated a new element", h));
                            }
                        }
                        None => {
                            if self.by_hash.values().any(|&x| x == addr) {
                                return Err(format!("hash {} absent, but an existing element was returned", h));
                            }
                            self.by_hash.insert(h, addr);
                            self.model.push((h, addr));
                        }
                    }
                }
                Act::GetByHash(h) => {
                    let h = h as u64;
                    let p = self.t().get_by_hash(h).map(|p| p as *const u32 as usize);
                    let want = self.by_hash.get(&h).cloned();
                    if p != want {
                        return Err(format!(
                            "get_by_hash({}) = {:?}, model says {:?}",
                            h,
                            p.is_some(),
                            want.is_some()
                        ));
                    }
                }
            }
            let (cap, len, _) = self.t().verif_cap_len_hits();
            if cap != self.last_cap {
                self.growths += 1;
                self.last_cap = cap;
            }
            let expect = self.model.len();
            if len != expect || self.t().num_nodes() != expect {
                return Err(format!("num_nodes = {} but {} distinct elements were inserted", len, expect));
            }
            Ok(())
        });
        match r {
            Ok(x) => x,
            Err(p) => Err(format!("panic inside the table: {}", p)),
        }
    }
}

impl Drop for Live {
    fn drop(&mut self) {
        unsafe { drop(Box::from_raw(self.tbl)) }
    }
}

fn replay_history(cap: usize, hist: &[Act]) -> (Live, Result<(), (usize, String)>) {
    let mut l = Live::new(cap);
    for (i, a) in hist.iter().enumerate() {
        if let Err(e) = l.step(*a) {
            return (l, Err((i, e)));
        }
    }
    (l, Ok(()))
}

fn digest(k: &[u64]) -> u128 {
    // two independent 64-bit FNV-style digests over the canonical key
    let mut a: u64 = 0xcbf29ce484222325;
    let mut b: u64 = 0x9E3779B97F4A7C15;
    for &w in k {
        a = (a ^ w).wrapping_mul(0x100000001b3);
        a ^= a >> 29;
        b = (b.rotate_left(23) ^ w).wrapping_mul(0xff51afd7ed558ccd);
        b ^= b >> 31;
    }
    ((a as u128) << 64) | b as u128
}

struct Space {
    cap0: usize,
    hashes: Vec<u8>,
    depth: usize,
    semantic: bool,
}

/// BFS over all action sequences of one sub-space, rooted at `prefix`; states are
/// deduplicated on the canonical key, expanded by replay from a fresh table.
fn explore_subspace(sp: &Space, prefix: Vec<Act>, ctx: &Ctx) -> Report {
    let mut rep = Report::default();
    rep.exhaustive = true;
    let mut seen: HashSet<u128> = HashSet::new();
    let mut frontier: Vec<Vec<Act>> = vec![prefix.clone()];
    // the prefix itself
    {
        let (l, r) = replay_history(sp.cap0, &prefix);
        rep.transitions += prefix.len() as u64;
        if let Err((i, e)) = r {
            rep.violation(
                "table-model-divergence",
                format!("step {}: {}", i, e),
                json!({"kind": "table", "cap0": sp.cap0, "history": prefix.iter().map(act_json).collect::<Vec<_>>(), "slots_at_failure": l.dump()}),
            );
            return rep;
        }
        seen.insert(digest(&l.key()));
        rep.states += 1;
    }
    let mut depth = prefix.len();
    let mut growth_max = 0u64;
    let mut last_level = 0u64;
    while depth < sp.depth && !frontier.is_empty() {
        let mut next: Vec<Vec<Act>> = Vec::new();
        for hist in frontier.iter() {
            if ctx.over_time() {
                rep.cap(format!("wall-clock cap inside table BFS at depth {}", depth));
                return rep;
            }
            // enabled actions in this state
            let nelem = if sp.semantic {
                0
            } else {
                hist.iter().filter(|a| matches!(a, Act::Insert(_))).count()
            };
            let mut acts: Vec<Act> = Vec::new();
            if sp.semantic {
                for &h in sp.hashes.iter() {
                    acts.push(Act::InsertByHash(h));
                }
                for &h in sp.hashes.iter() {
                    acts.push(Act::GetByHash(h));
                }
            } else {
                for &h in sp.hashes.iter() {
                    acts.push(Act::Insert(h));
                }
                for e in 0..nelem {
                    acts.push(Act::Lookup(e as u8));
                }
            }
            for a in acts {
                let (mut l, r) = replay_history(sp.cap0, hist);
                debug_assert!(r.is_ok());
                let before = digest(&l.key());
                let res = l.step(a);
                rep.transitions += 1;
                growth_max = growth_max.max(l.growths);
                if let Err(e) = res {
                    let mut h2 = hist.clone();
                    h2.push(a);
                    rep.violation(
                        "table-model-divergence",
                        format!("after {} steps: {}", h2.len(), e),
                        json!({"kind": "table", "cap0": sp.cap0, "history": h2.iter().map(act_json).collect::<Vec<_>>(), "slots_at_failure": l.dump()}),
                    );
                    // BFS order: the first violation found is a shortest one; stop this sub-space
                    rep.max_depth = depth as u64;
                    rep.set_extra("growths_max", json!(growth_max));
                    return rep;
                }
                let d = digest(&l.key());
                if d == before {
                    continue; // self-loop
                }
                if seen.insert(d) {
                    rep.states += 1;
                    if depth + 1 < sp.depth {
                        let mut h2 = hist.clone();
                        h2.push(a);
                        next.push(h2);
                    } else {
                        last_level += 1;
                    }
                }
            }
        }
        frontier = next;
        depth += 1;
        rep.max_depth = depth as u64;
    }
    rep.traces = last_level + frontier.len() as u64; // maximal histories of this sub-space
    rep.set_extra("growths_max", json!(growth_max));
    rep
}

fn table_regime(ctx: &Ctx, name: &str, cap0: usize, hashes: &[u8], depth: usize, semantic: bool) -> Report {
    let sp = Space {
        cap0,
        hashes: hashes.to_vec(),
        depth,
        semantic,
    };
    // partition by the first two actions (the first element's hash stays in the key for ever,
    // so sub-spaces rooted at different first inserts share no state)
    let mut prefixes: Vec<Vec<Act>> = Vec::new();
    for &h1 in hashes {
        if semantic {
            // get_by_hash never changes the table: it is a checked self-loop in every state
            prefixes.push(vec![Act::InsertByHash(h1)]);
        } else {
            for &h2 in hashes {
                prefixes.push(vec![Act::Insert(h1), Act::Insert(h2)]);
            }
            prefixes.push(vec![Act::Insert(h1), Act::Lookup(0)]);
        }
    }
    let mut rep = par_run(ctx, &prefixes, |_, p| {
        if depth < p.len() {
            return Report::default();
        }
        explore_subspace(&sp, p.clone(), ctx)
    });
    // growths_max was summed by merge; recompute as an upper-level fact
    let g = rep.extra.remove("growths_max").and_then(|v| v.as_u64()).unwrap_or(0);
    rep.add_extra(&format!("{}_states", name), rep.states);
    rep.set_extra(&format!("{}_sum_of_max_growths_over_subspaces", name), json!(g));
    rep.bound(
        name,
        json!({"initial_capacity": cap0, "hash_alphabet": hashes, "depth": depth, "mode": if semantic {"equality by hash (semantic stores)"} else {"equality by element"}}),
    );
    rep.floor(&format!("{}: table growths observed", name), g, 1);
    rep
}

/// (a') without any merging: every sequence of exactly `depth` table calls over the hash alphabet,
/// each replayed on a fresh table and checked step by step against the set model. The BFS above
/// de-duplicates on the slot dump and skips calls that leave the dump unchanged; state kept
/// anywhere else (a "last hit" shortcut, a counter that steers the next growth) would be merged
/// away there. Sequences are partitioned by their first two calls.
fn unmerged_table_regime(ctx: &Ctx, name: &str, cap0: usize, hashes: &[u8], depth: usize, semantic: bool) -> Report {
    fn acts_after(hist: &[Act], hashes: &[u8], semantic: bool) -> Vec<Act> {
        let mut acts: Vec<Act> = Vec::new();
        if semantic {
            for &h in hashes.iter() {
                acts.push(Act::InsertByHash(h));
            }
            for &h in hashes.iter() {
                acts.push(Act::GetByHash(h));
            }
        } else {
            let nelem = hist.iter().filter(|a| matches!(a, Act::Insert(_))).count();
            for &h in hashes.iter() {
                acts.push(Act::Insert(h));
            }
            for e in 0..nelem {
                acts.push(Act::Lookup(e as u8));
            }
        }
        acts
    }
    fn go(rep: &mut Report, cap0: usize, hashes: &[u8], semantic: bool, hist: &mut Vec<Act>, depth: usize, ctx: &Ctx) -> bool {
        if hist.len() == depth {
            let (l, r) = replay_history(cap0, hist);
            rep.transitions += depth as u64;
            rep.traces += 1;
            if let Err((i, e)) = r {
                rep.violation(
                    "table-model-divergence",
                    format!("step {} of {:?} (unmerged sequences): {}", i, hist, e),
                    json!({"kind": "table", "cap0": cap0, "history": hist.iter().map(act_json).collect::<Vec<_>>(), "slots_at_failure": l.dump()}),
                );
                return false;
            }
            return !ctx.over_time();
        }
        for a in acts_after(hist, hashes, semantic) {
            hist.push(a);
            let ok = go(rep, cap0, hashes, semantic, hist, depth, ctx);
            hist.pop();
            if !ok {
                return false;
            }
        }
        true
    }
    let mut prefixes: Vec<Vec<Act>> = Vec::new();
    for a in acts_after(&[], hashes, semantic) {
        for b in acts_after(&[a], hashes, semantic) {
            prefixes.push(vec![a, b]);
        }
    }
    let mut rep = par_run(ctx, &prefixes, |_, p| {
        let mut r = Report::default();
        r.exhaustive = true;
        let mut h = p.clone();
        if !go(&mut r, cap0, hashes, semantic, &mut h, depth.max(2), ctx) && r.n_violations == 0 {
            r.cap(format!("wall-clock cap inside the unmerged table sequences ({})", name));
        }
        r
    });
    rep.add_extra(&format!("{}_unmerged_sequences", name), rep.traces);
    rep.bound(name, json!({"initial_capacity": cap0, "hash_alphabet": hashes, "sequence_length": depth, "merging": "none", "mode": if semantic {"equality by hash (semantic stores)"} else {"equality by element"}}));
    rep
}

// ---------------------------------------------------------------------------------------------
// (c) default capacity, deterministic, no hook involved

fn default_capacity_scenario() -> Report {
    use rsdd::builder::bdd::RobddBuilder;
    use rsdd::builder::cache::AllIteTable;
    use rsdd::builder::BottomUpBuilder;
    use rsdd::repr::{BddNode, BddPtr, VarLabel};
    use std::hash::{Hash, Hasher};

    let mut rep = Report::default();
    rep.exhaustive = true;
    const NV: usize = 1 << 21;
    const CAP0: usize = 131072;
    const CAP1: usize = 262144;
    // address-free hashes of the variable nodes (inputs, found by search; the library's Hash impl
    // is only used to *choose* colliding inputs)
    let fx = |v: usize| -> u64 {
        let n = BddNode::new(VarLabel::new(v as u64), BddPtr::PtrFalse, BddPtr::PtrTrue);
        let mut h = rustc_hash_fx::FxHasher::default();
        n.hash(&mut h);
        h.finish()
    };
    let mut a = None;
    let mut b = None;
    let mut fillers: Vec<usize> = Vec::new();
    let need = (CAP0 as f64 * 0.7) as usize + 1; // number of elements after which the next call grows
    for v in 0..NV {
        let h = fx(v) as usize;
        if a.is_none() && h % CAP1 == 0 {
            a = Some(v);
        } else if b.is_none() && h % CAP1 == 1 {
            b = Some(v);
        } else if (h % CAP1) > 8 && (h % CAP0) > 8 && fillers.len() < need {
            fillers.push(v);
        }
        if a.is_some() && b.is_some() && fillers.len() >= need {
            break;
        }
    }
    let (a, b) = match (a, b) {
        (Some(a), Some(b)) => (a, b),
        _ => {
            rep.set_extra("default_capacity_scenario", json!("no colliding variable nodes found (hash function changed?)"));
            return rep;
        }
    };
    rsdd::verif::set_table_capacity(0);
    let res = guarded(|| {
        let builder = RobddBuilder::<AllIteTable<BddPtr>>::new_with_linear_order(NV);
        let pa = builder.var(VarLabel::new(a as u64), true);
        let pb = builder.var(VarLabel::new(b as u64), true);
        let mut kept = Vec::new();
        let mut n = 2;
        for &f in fillers.iter() {
            if n >= need - 1 {
                break;
            }
            kept.push(builder.var(VarLabel::new(f as u64), true));
            n += 1;
        }
        // the next calls cross the load factor and grow the table
        for &f in fillers.iter().rev().take(4) {
            kept.push(builder.var(VarLabel::new(f as u64), true));
        }
        let (cap, len, _) = builder.verif_table_stats();
        let pa2 = builder.var(VarLabel::new(a as u64), true);
        let pb2 = builder.var(VarLabel::new(b as u64), true);
        (builder.eq(pa, pa2), builder.eq(pb, pb2), cap, len)
    });
    rep.transitions += need as u64 + 8;
    rep.traces += 1;
    match res {
        Ok((ea, eb, cap, len)) => {
            rep.set_extra("default_capacity_scenario", json!({"var_a": a, "var_b": b, "capacity_after": cap, "nodes": len, "grew": cap > CAP0}));
            rep.floor("default-capacity scenario: table grew", (cap > CAP0) as u64, 1);
            if !ea || !eb {
                rep.violation(
                    "default-capacity-growth-duplicate",
                    format!("default-capacity builder: after the first table growth var({}) / var({}) is a different pointer than before (eq = {} / {})", a, b, ea, eb),
                    json!({"kind": "default_capacity"}),
                );
            }
        }
        Err(p) => rep.violation("default-capacity-growth-panic", format!("panic: {}", p), json!({"kind": "default_capacity"})),
    }
    rep
}

/// Fx hasher (same algorithm as the `rustc-hash` 1.x crate the library uses), written out here so
/// that the harness needs no extra dependency. Only used to pick colliding *inputs*.
mod rustc_hash_fx {
    use std::hash::Hasher;
    #[derive(Default)]
    pub struct FxHasher {
        hash: usize,
    }
    const SEED: usize = 0x51_7c_c1_b7_27_22_0a_95;
    impl FxHasher {
        #[inline]
        fn add_to_hash(&mut self, i: usize) {
            self.hash = (self.hash.rotate_left(5) ^ i).wrapping_mul(SEED);
        }
    }
    impl Hasher for FxHasher {
        fn write(&mut self, bytes: &[u8]) {
            let mut b = bytes;
            while b.len() >= 8 {
                self.add_to_hash(u64::from_ne_bytes(b[..8].try_into().unwrap()) as usize);
                b = &b[8..];
            }
            if b.len() >= 4 {
                self.add_to_hash(u32::from_ne_bytes(b[..4].try_into().unwrap()) as usize);
                b = &b[4..];
            }
            if b.len() >= 2 {
                self.add_to_hash(u16::from_ne_bytes(b[..2].try_into().unwrap()) as usize);
                b = &b[2..];
            }
            if !b.is_empty() {
                self.add_to_hash(b[0] as usize);
            }
        }
        fn write_u8(&mut self, i: u8) {
            self.add_to_hash(i as usize);
        }
        fn write_u16(&mut self, i: u16) {
            self.add_to_hash(i as usize);
        }
        fn write_u32(&mut self, i: u32) {
            self.add_to_hash(i as usize);
        }
        fn write_u64(&mut self, i: u64) {
            self.add_to_hash(i as usize);
        }
        fn write_usize(&mut self, i: usize) {
            self.add_to_hash(i);
        }
        fn finish(&self) -> u64 {
            self.hash as u64
        }
    }
}

pub fn run(ctx: &Ctx) -> Report {
    let mut rep = Report::new(
        "(a) every sequence of get_or_insert_by_hash / get_by_hash calls with explicit hashes on the real unique table from capacity 2, deduplicated on the slot dump; a state is non-trivial if its slot dump differs from all others; (b) canonicity map tt->pointer and shape walk over every result of the BDD sweep histories; (c) default-capacity growth scenario",
    );
    // determinism self-test: the same history twice gives the same key
    {
        let h = vec![Act::Insert(0), Act::Insert(1), Act::Insert(3), Act::Lookup(1), Act::Insert(8)];
        let (l1, _) = replay_history(2, &h);
        let (l2, _) = replay_history(2, &h);
        if l1.key() != l2.key() {
            rep.set_extra("engine_panic", json!("determinism self-test failed: same history, different slot dump"));
            return rep;
        }
    }
    let h8: Vec<u8> = vec![0, 1, 2, 3, 7, 8, 15, 16];
    let h4: Vec<u8> = vec![0, 1, 3, 17];
    let h2: Vec<u8> = vec![0, 1];
    let regimes: Vec<(&str, Vec<u8>, usize, bool)> = match ctx.tier {
        Tier::Quick => vec![
            ("H8", h8.clone(), 6, false),
            ("H4", h4.clone(), 9, false),
            ("H2", h2.clone(), 14, false),
            ("S4", h4.clone(), 7, true),
        ],
        Tier::Thorough => vec![
            ("H8", h8.clone(), 8, false),
            ("H4", h4.clone(), 12, false),
            ("H2", h2.clone(), 22, false),
            ("S8", h8.clone(), 6, true),
            ("S4", h4.clone(), 10, true),
        ],
    };
    for (name, hs, depth, sem) in regimes {
        let r = table_regime(ctx, name, 2, &hs, depth, sem);
        rep.merge(r);
    }
    rep.distinct_nontrivial = rep.states;
    {
        let (d4, ds) = (ctx.tier.pick(7, 8), ctx.tier.pick(6, 7));
        let r = unmerged_table_regime(ctx, "U4", 2, &h4, d4, false);
        rep.merge(r);
        let r = unmerged_table_regime(ctx, "US4", 2, &h4, ds, true);
        rep.merge(r);
    }
    rep.evaluations = rep.transitions;
    rep.sample(json!({"table_history": [act_json(&Act::Insert(0)), act_json(&Act::Insert(1)), act_json(&Act::Lookup(0)), act_json(&Act::Lookup(1))], "initial_capacity": 2}));
    rep.merge(default_capacity_scenario());
    rep.merge(crate::props::bddsweep::run_for(ctx, "C02"));
    rep.assumptions.push("128-bit digests of canonical keys are used for de-duplication; a digest collision could merge two states (probability < 2^-80 at these sizes)".into());
    rep.assumptions.push("builder-level histories see the table layout the allocator produces; all layouts are covered only at table level (a)".into());
    rep
}

pub fn replay(ctx: &Ctx, case: &Value) -> Report {
    let mut rep = Report::default();
    match case.get("kind").and_then(|k| k.as_str()) {
        Some("table") => {
            let cap0 = case["cap0"].as_u64().unwrap_or(2) as usize;
            let hist: Vec<Act> = case["history"]
                .as_array()
                .map(|a| a.iter().filter_map(act_from_json).collect())
                .unwrap_or_default();
            let (l, r) = replay_history(cap0, &hist);
            if let Err((i, e)) = r {
                rep.violation("table-model-divergence", format!("step {}: {}", i, e), json!({"slots": l.dump()}));
            }
        }
        Some("default_capacity") => rep.merge(default_capacity_scenario()),
        _ => rep.merge(crate::props::bddsweep::replay_for(ctx, "C02", case)),
    }
    rep
}
