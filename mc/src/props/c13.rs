//! C13 – every shipped weight type obeys the semiring (and declared ring / lattice) laws.
//! Input-space enumeration: all triples over per-type alphabets; finite fields against an
//! independent 256-bit reference.

use crate::core::*;
use rsdd::constants::primes;
use rsdd::util::semirings::*;
use serde_json::{json, Value};
use std::fmt::Debug;

// ---------------------------------------------------------------------------------------------
// independent modular arithmetic (64-bit limbs, 256-bit product, shift-subtract reduction)

fn mul_wide(a: u128, b: u128) -> (u128, u128) {
    let (a1, a0) = (a >> 64, a & 0xFFFF_FFFF_FFFF_FFFF);
    let (b1, b0) = (b >> 64, b & 0xFFFF_FFFF_FFFF_FFFF);
    let p00 = a0 * b0;
    let p01 = a0 * b1;
    let p10 = a1 * b0;
    let p11 = a1 * b1;
    let mid = (p00 >> 64) + (p01 & 0xFFFF_FFFF_FFFF_FFFF) + (p10 & 0xFFFF_FFFF_FFFF_FFFF);
    let lo = (p00 & 0xFFFF_FFFF_FFFF_FFFF) | (mid << 64);
    let hi = p11 + (p01 >> 64) + (p10 >> 64) + (mid >> 64);
    (hi, lo)
}

pub fn mulmod_ref(a: u128, b: u128, p: u128) -> u128 {
    debug_assert!(p < (1u128 << 127));
    let (hi, lo) = mul_wide(a % p, b % p);
    let mut r: u128 = 0;
    for i in (0..256).rev() {
        let bit = if i >= 128 { (hi >> (i - 128)) & 1 } else { (lo >> i) & 1 };
        r = (r << 1) | bit;
        if r >= p {
            r -= p;
        }
    }
    r
}
pub fn addmod_ref(a: u128, b: u128, p: u128) -> u128 {
    let (a, b) = (a % p, b % p);
    let s = a + b; // < 2^128 because p < 2^127
    if s >= p {
        s - p
    } else {
        s
    }
}
pub fn submod_ref(a: u128, b: u128, p: u128) -> u128 {
    let (a, b) = (a % p, b % p);
    if a >= b {
        a - b
    } else {
        a + p - b
    }
}

// ---------------------------------------------------------------------------------------------

struct Acc {
    rep: Report,
}

impl Acc {
    fn fail(&mut self, ty: &str, law: &str, what: String) {
        self.rep.violation(
            format!("{}:{}", ty, law),
            format!("{} violates {}: {}", ty, law, what),
            json!({"kind": "law", "type": ty, "law": law}),
        );
    }
}

fn eval2<T>(f: impl FnOnce() -> T) -> Result<T, String> {
    guarded(f)
}

/// the semiring laws over all triples of `el`
fn semiring_laws<T: Semiring + PartialEq + Debug>(acc: &mut Acc, ty: &str, el: &[T], commutative_mul: bool) {
    let zero = T::zero();
    let one = T::one();
    for &a in el {
        acc.rep.evaluations += 6;
        macro_rules! law {
            ($name:expr, $l:expr, $r:expr, $($arg:expr),*) => {{
                match eval2(|| ($l, $r)) {
                    Ok((l, r)) => {
                        if l != r {
                            acc.fail(ty, $name, format!("{:?}: {:?} != {:?}", ($($arg),*), l, r));
                        }
                    }
                    Err(p) => acc.fail(ty, $name, format!("{:?}: panic {}", ($($arg),*), p)),
                }
            }};
        }
        law!("additive-identity", a + zero, a, a);
        law!("additive-identity", zero + a, a, a);
        law!("multiplicative-identity", a * one, a, a);
        law!("multiplicative-identity", one * a, a, a);
        law!("annihilation", a * zero, zero, a);
        law!("annihilation", zero * a, zero, a);
        for &b in el {
            acc.rep.evaluations += 2;
            law!("add-commutative", a + b, b + a, a, b);
            if commutative_mul {
                law!("mul-commutative", a * b, b * a, a, b);
            }
            for &c in el {
                acc.rep.evaluations += 4;
                acc.rep.transitions += 1;
                law!("add-associative", (a + b) + c, a + (b + c), a, b, c);
                law!("mul-associative", (a * b) * c, a * (b * c), a, b, c);
                law!("left-distributive", a * (b + c), (a * b) + (a * c), a, b, c);
                law!("right-distributive", (a + b) * c, (a * c) + (b * c), a, b, c);
            }
        }
        if acc.rep.n_violations > 200 {
            return;
        }
    }
    acc.rep.states += el.len() as u64;
}

/// Gaussian integers and reals at the edge of exact f64 arithmetic (components up to 2^53): the laws are
/// checked for exactly those operand tuples for which every product and sum of the defining formulas, computed
/// in 128-bit integers, is itself exactly representable - the values are then "exactly representable values"
/// in every reading, and a law that fails is a violation, not a rounding artefact
fn large_magnitude_laws(acc: &mut Acc) {
    fn ok(x: i128) -> bool {
        x.abs() < (1i128 << 100) && (x as f64) as i128 == x
    }
    type G = (i128, i128);
    fn mul(a: G, b: G) -> Option<G> {
        let (p, q, r, s) = (a.0 * b.0, a.1 * b.1, a.0 * b.1, a.1 * b.0);
        // also the intermediate of the three-multiplication form must not be what makes a product exact
        if [p, q, r, s, p - q, r + s].iter().all(|&x| ok(x)) { Some((p - q, r + s)) } else { None }
    }
    fn add(a: G, b: G) -> Option<G> {
        if ok(a.0 + b.0) && ok(a.1 + b.1) { Some((a.0 + b.0, a.1 + b.1)) } else { None }
    }
    let cxv = |g: G| Complex { re: g.0 as f64, im: g.1 as f64 };
    let big: Vec<i128> = vec![0, 1, -1, 2, 3, 1 << 26, (1 << 26) + 1, 1 << 27, -(1 << 27), (1 << 27) + 2, 1 << 52, (1 << 53) - 1, 1 << 53, -(1 << 53)];
    let mut el: Vec<G> = Vec::new();
    for (i, &re) in big.iter().enumerate() {
        for (j, &im) in big.iter().enumerate() {
            if (i < 5 || j < 5) && (i >= 5 || j >= 5 || (i + j) % 3 == 0) {
                el.push((re, im));
            }
        }
    }
    let one = Complex::one();
    let zero = Complex::zero();
    let ty = "Complex";
    for &a in el.iter() {
        let x = cxv(a);
        acc.rep.evaluations += 4;
        acc.rep.states += 1;
        match eval2(|| (x * one, one * x, x * zero, x + zero)) {
            Ok((l, r, z, s)) => {
                if l != x || r != x {
                    acc.fail(ty, "multiplicative-identity", format!("{:?} * 1 = {:?}, 1 * {:?} = {:?}", x, l, x, r));
                }
                if z != zero {
                    acc.fail(ty, "annihilation", format!("{:?} * 0 = {:?}", x, z));
                }
                if s != x {
                    acc.fail(ty, "additive-identity", format!("{:?} + 0 = {:?}", x, s));
                }
            }
            Err(p) => acc.fail(ty, "multiplicative-identity", format!("{:?}: panic {}", x, p)),
        }
        for &b in el.iter() {
            let y = cxv(b);
            if let Some(ab) = mul(a, b) {
                acc.rep.evaluations += 2;
                acc.rep.transitions += 1;
                match eval2(|| (x * y, y * x)) {
                    Ok((l, r)) => {
                        if l != r {
                            acc.fail(ty, "mul-commutative", format!("{:?}, {:?}: {:?} != {:?}", x, y, l, r));
                        }
                    }
                    Err(p) => acc.fail(ty, "mul-commutative", format!("{:?}, {:?}: panic {}", x, y, p)),
                }
                // associativity and distributivity with a small third operand
                for c in [(0i128, 1i128), (0, -1), (1, 1), (2, -1)] {
                    let z = cxv(c);
                    if let (Some(bc), Some(abc)) = (mul(b, c), mul(ab, c)) {
                        if mul(a, bc).is_some() {
                            acc.rep.evaluations += 1;
                            if let Ok((l, r)) = eval2(|| ((x * y) * z, x * (y * z))) {
                                if l != r {
                                    acc.fail(ty, "mul-associative", format!("{:?}, {:?}, {:?}: {:?} != {:?} (every intermediate value is exactly representable; exact arithmetic gives {:?})", x, y, z, l, r, cxv(abc)));
                                }
                            }
                        }
                    }
                    if let Some(bpc) = add(b, c) {
                        if let (Some(l1), Some(ac)) = (mul(a, bpc), mul(a, c)) {
                            if add(ab, ac) == Some(l1) {
                                acc.rep.evaluations += 1;
                                if let Ok((l, r)) = eval2(|| (x * (y + z), (x * y) + (x * z))) {
                                    if l != r {
                                        acc.fail(ty, "left-distributive", format!("{:?}, {:?}, {:?}: {:?} != {:?} (every intermediate value is exactly representable; exact arithmetic gives {:?})", x, y, z, l, r, cxv(l1)));
                                    }
                                }
                            }
                        }
                    }
                }
            }
        }
        if acc.rep.n_violations > 200 {
            return;
        }
    }
    // reals at the same magnitudes: identity and commutativity
    for &a in big.iter() {
        let x = RealSemiring(a as f64);
        acc.rep.evaluations += 2;
        if let Ok((p, q)) = eval2(|| ((x * RealSemiring::one()).0, (x + RealSemiring::zero()).0)) {
            if p != x.0 || q != x.0 {
                acc.fail("RealSemiring", "multiplicative-identity", format!("{}: times one {}, plus zero {}", a, p, q));
            }
        }
        for &b in big.iter() {
            if ok(a * b) && ok(a + b) {
                acc.rep.evaluations += 2;
                let y = RealSemiring(b as f64);
                if let Ok((p, q, r, t)) = eval2(|| ((x * y).0, (y * x).0, (x + y).0, (y + x).0)) {
                    if p != q || r != t {
                        acc.fail("RealSemiring", "mul-commutative", format!("{} and {}: {} / {}, {} / {}", a, b, p, q, r, t));
                    }
                }
            }
        }
    }
}

fn ring_laws<T: Semiring + std::ops::Sub<Output = T> + PartialEq + Debug>(acc: &mut Acc, ty: &str, el: &[T]) {
    for &a in el {
        for &b in el {
            acc.rep.evaluations += 2;
            acc.rep.transitions += 1;
            match eval2(|| ((a - b) + b, (a + b) - b)) {
                Ok((l, r)) => {
                    if l != a {
                        acc.fail(ty, "sub-inverts-add", format!("({:?} - {:?}) + {:?} = {:?}", a, b, b, l));
                    }
                    if r != a {
                        acc.fail(ty, "sub-inverts-add", format!("({:?} + {:?}) - {:?} = {:?}", a, b, b, r));
                    }
                }
                Err(p) => acc.fail(ty, "sub-inverts-add", format!("{:?}, {:?}: panic {}", a, b, p)),
            }
        }
    }
}

fn lattice_laws<T: Semiring + JoinSemilattice + MeetSemilattice + PartialEq + Debug>(
    acc: &mut Acc,
    ty: &str,
    el: &[T],
    choose: &dyn Fn(&T, &T) -> T,
) {
    for a in el {
        acc.rep.evaluations += 2;
        if a.join(a) != *a {
            acc.fail(ty, "join-idempotent", format!("{:?}", a));
        }
        if a.meet(a) != *a {
            acc.fail(ty, "meet-idempotent", format!("{:?}", a));
        }
        for b in el {
            acc.rep.evaluations += 5;
            acc.rep.transitions += 1;
            if a.join(b) != b.join(a) {
                acc.fail(ty, "join-commutative", format!("{:?}, {:?}", a, b));
            }
            if a.meet(b) != b.meet(a) {
                acc.fail(ty, "meet-commutative", format!("{:?}, {:?}", a, b));
            }
            // whenever the declared order relates the two elements
            if a.partial_cmp(b) == Some(std::cmp::Ordering::Less) || a.partial_cmp(b) == Some(std::cmp::Ordering::Equal) {
                if a.join(b) != *b || b.join(a) != *b {
                    acc.fail(ty, "join-returns-larger", format!("{:?} <= {:?} but join = {:?}", a, b, a.join(b)));
                }
                if a.meet(b) != *a || b.meet(a) != *a {
                    acc.fail(ty, "meet-returns-smaller", format!("{:?} <= {:?} but meet = {:?}", a, b, a.meet(b)));
                }
                if choose(a, b) != *b || choose(b, a) != *b {
                    acc.fail(ty, "choose-returns-larger", format!("{:?} <= {:?} but choose = {:?} / {:?}", a, b, choose(a, b), choose(b, a)));
                }
            }
            for c in el {
                acc.rep.evaluations += 2;
                if a.join(b).join(c) != a.join(&b.join(c)) {
                    acc.fail(ty, "join-associative", format!("{:?}, {:?}, {:?}", a, b, c));
                }
                if a.meet(b).meet(c) != a.meet(&b.meet(c)) {
                    acc.fail(ty, "meet-associative", format!("{:?}, {:?}, {:?}", a, b, c));
                }
            }
        }
    }
}

/// finite field: laws + agreement with the reference arithmetic on `vals`
fn field<const P: u128>(acc: &mut Acc, name: &str, vals: &[u128], all_triples: bool) {
    let ty = format!("FiniteField<{}>", name);
    // construction reduces modulo P
    for &v in vals.iter().chain([u128::MAX, P, P + 1, 2 * P - 1].iter()) {
        acc.rep.evaluations += 1;
        if FiniteField::<P>::new(v).value() != v % P {
            acc.fail(&ty, "new-reduces", format!("new({}) = {}", v, FiniteField::<P>::new(v).value()));
        }
    }
    let el: Vec<FiniteField<P>> = vals.iter().map(|&v| FiniteField::<P>::new(v)).collect();
    for &a in el.iter() {
        // one-minus
        acc.rep.evaluations += 1;
        match eval2(|| a.negate().value()) {
            Ok(v) => {
                if v != submod_ref(1, a.value(), P) {
                    acc.fail(&ty, "negate-is-one-minus", format!("negate({}) = {}", a.value(), v));
                }
            }
            Err(p) => acc.fail(&ty, "negate-is-one-minus", format!("negate({}) panicked: {}", a.value(), p)),
        }
        for &b in el.iter() {
            acc.rep.evaluations += 3;
            acc.rep.transitions += 1;
            match eval2(|| (a + b).value()) {
                Ok(v) => {
                    if v != addmod_ref(a.value(), b.value(), P) {
                        acc.fail(&ty, "add-is-modular", format!("{} + {} = {} (mod {})", a.value(), b.value(), v, P));
                    }
                }
                Err(p) => acc.fail(&ty, "add-is-modular", format!("{} + {} panicked: {}", a.value(), b.value(), p)),
            }
            match eval2(|| (a * b).value()) {
                Ok(v) => {
                    if v != mulmod_ref(a.value(), b.value(), P) {
                        acc.fail(&ty, "mul-is-modular", format!("{} * {} = {} (mod {}), integer arithmetic gives {}", a.value(), b.value(), v, P, mulmod_ref(a.value(), b.value(), P)));
                    }
                }
                Err(p) => acc.fail(&ty, "mul-is-modular", format!("{} * {} (mod {}) panicked: {}", a.value(), b.value(), P, p)),
            }
            match eval2(|| (a - b).value()) {
                Ok(v) => {
                    if v != submod_ref(a.value(), b.value(), P) {
                        acc.fail(&ty, "sub-is-modular", format!("{} - {} = {} (mod {}), integer arithmetic gives {}", a.value(), b.value(), v, P, submod_ref(a.value(), b.value(), P)));
                    }
                }
                Err(p) => acc.fail(&ty, "sub-is-modular", format!("{} - {} panicked: {}", a.value(), b.value(), p)),
            }
        }
    }
    // elements with histories: the value an operation returns is an object that later operations consume.
    // Every expression (a o1 b) o3 (c o2 d) and ((a o1 b) o2 c) o3 d over a slice of the alphabet and
    // o in {+, -, *} is evaluated on the real type without re-creating the intermediate results and
    // compared with integer arithmetic (an unreduced or otherwise non-canonical intermediate value shows
    // only when it meets another one)
    if !crate::core::disabled("expr") {
        let sl: Vec<FiniteField<P>> = if el.len() <= 7 {
            el.to_vec()
        } else {
            // (0, 1, the largest residue and the two around P/2 are always in the slice)
            let mut idx: Vec<usize> = (0..el.len()).step_by((el.len() / 5).max(1)).collect();
            idx.extend([0, 1, el.len() - 1, el.len() - 2]);
            for (i, e) in el.iter().enumerate() {
                if e.value() == P / 2 || e.value() == P / 2 + 1 {
                    idx.push(i);
                }
            }
            idx.sort();
            idx.dedup();
            idx.into_iter().map(|i| el[i]).collect()
        };
        let op = |o: usize, x: FiniteField<P>, y: FiniteField<P>| -> FiniteField<P> {
            match o {
                0 => x + y,
                1 => x - y,
                _ => x * y,
            }
        };
        let rop = |o: usize, x: u128, y: u128| -> u128 {
            match o {
                0 => addmod_ref(x, y, P),
                1 => submod_ref(x, y, P),
                _ => mulmod_ref(x, y, P),
            }
        };
        let names = ['+', '-', '*'];
        'e: for &a in sl.iter() {
            for &b in sl.iter() {
                for &c in sl.iter() {
                    for &d in sl.iter() {
                        for ops in 0..27usize {
                            let (o1, o2, o3) = (ops % 3, (ops / 3) % 3, ops / 9);
                            acc.rep.evaluations += 2;
                            let want1 = rop(o3, rop(o1, a.value(), b.value()), rop(o2, c.value(), d.value()));
                            let want2 = rop(o3, rop(o2, rop(o1, a.value(), b.value()), c.value()), d.value());
                            let got = eval2(|| {
                                let r1 = op(o3, op(o1, a, b), op(o2, c, d));
                                let r2 = op(o3, op(o2, op(o1, a, b), c), d);
                                (r1.value(), r2.value(), r1 == FiniteField::<P>::new(want1), r2 == FiniteField::<P>::new(want2))
                            });
                            match got {
                                Ok((v1, v2, e1, e2)) => {
                                    if v1 != want1 || !e1 {
                                        acc.fail(&ty, "expression-is-modular", format!("({} {} {}) {} ({} {} {}) = {} (mod {}), integer arithmetic gives {} (== with the right element: {})", a.value(), names[o1], b.value(), names[o3], c.value(), names[o2], d.value(), v1, P, want1, e1));
                                        break 'e;
                                    }
                                    if v2 != want2 || !e2 {
                                        acc.fail(&ty, "expression-is-modular", format!("(({} {} {}) {} {}) {} {} = {} (mod {}), integer arithmetic gives {} (== with the right element: {})", a.value(), names[o1], b.value(), names[o2], c.value(), names[o3], d.value(), v2, P, want2, e2));
                                        break 'e;
                                    }
                                }
                                Err(p) => {
                                    acc.fail(&ty, "expression-is-modular", format!("an expression over {} {} {} {} with operators {}{}{} panicked: {}", a.value(), b.value(), c.value(), d.value(), names[o1], names[o2], names[o3], p));
                                    break 'e;
                                }
                            }
                        }
                    }
                }
            }
        }
    }
    if all_triples {
        semiring_laws(acc, &ty, &el, true);
    } else {
        // a slice of the alphabet for the cubic laws
        let sl: Vec<FiniteField<P>> = el.iter().cloned().step_by((el.len() / 10).max(1)).collect();
        semiring_laws(acc, &ty, &sl, true);
    }
    ring_laws(acc, &ty, &el);
}

fn boundary(p: u128) -> Vec<u128> {
    let mut v: Vec<u128> = vec![0, 1, 2, 3];
    for d in [1u128, 0] {
        v.push((p / 2).saturating_sub(d));
    }
    v.push(p / 2 + 1);
    for d in 1..=3u128 {
        v.push(p - d);
    }
    for k in [(1u128 << 32) - 1, (1u128 << 32) + 1, (1u128 << 64) - 1, (1u128 << 64) + 1, 1u128 << 48, (1u128 << 95) + 12345] {
        if k < p {
            v.push(k);
        }
    }
    // zero divisors: two of the exported moduli are not prime (1000001 = 101 * 9901, 2^64 - 25 = 3 * ...),
    // and the statement speaks about integer arithmetic modulo the exported constant for all residues, so
    // the multiples of every small factor q (trial division below 2^20) and of its cofactor are boundary
    // values too: q * (p/q) = 0, (q-1) * (p/q) = p - p/q lies above p/2, ...
    let mut m = p;
    let mut q = 2u128;
    let mut found = 0;
    while q < (1 << 20) && q * q <= m && found < 3 {
        if m % q == 0 {
            let c = p / q;
            for x in [q, 2 * q, c, 2 * c % p, (q - 1) * c, p - q, c + 1, c - 1] {
                if x < p {
                    v.push(x);
                }
            }
            while m % q == 0 {
                m /= q;
            }
            found += 1;
        }
        q += 1;
    }
    v.sort();
    v.dedup();
    v
}

fn poly(c: &[(usize, f64)]) -> Polynomial<RealSemiring> {
    let mut p = Polynomial::<RealSemiring>::zero();
    let mut len = 0;
    for &(i, v) in c {
        p.coefficients[i] = RealSemiring(v);
        len = len.max(i + 1);
    }
    p.len = len;
    p
}

pub fn run(ctx: &Ctx) -> Report {
    let mut acc = Acc {
        rep: Report::new(
            "all triples over per-type alphabets of exactly representable values: every residue for FiniteField<P>, P in {2,3,5,7,13}; boundary residues {0..3, P/2-1..P/2+1, P-3..P-1, 2^32+-1, 2^48, 2^64+-1, 2^95+12345} for the 7 exported primes against 256-bit reference arithmetic; small integers and dyadics for real/complex/expected-utility; all of Boolean; rationals built from 0 and 1; polynomials incl. the 32-coefficient truncation boundary; a case is a (type, law, triple) and non-trivial when no operand is 0 or 1",
        ),
    };
    acc.rep.exhaustive = true;
    // Boolean: complete
    semiring_laws(&mut acc, "BooleanSemiring", &[BooleanSemiring(false), BooleanSemiring(true)], true);
    // Real
    let reals: Vec<RealSemiring> = [0.0, 1.0, 2.0, 3.0, -1.0, 0.5, 0.25, 5.0, -2.5].iter().map(|&x| RealSemiring(x)).collect();
    semiring_laws(&mut acc, "RealSemiring", &reals, true);
    ring_laws(&mut acc, "RealSemiring", &reals);
    lattice_laws(&mut acc, "RealSemiring", &reals, &|a, b| BBSemiring::choose(a, b));
    lattice_laws(&mut acc, "RealSemiring(BBRing)", &reals, &|a, b| BBRing::choose(a, b));
    // Complex
    let mut cx = Vec::new();
    for re in [0.0, 1.0, -1.0, 2.0, 0.5] {
        for im in [0.0, 1.0, -1.0, 2.0, 0.5] {
            cx.push(Complex { re, im });
        }
    }
    if ctx.tier == Tier::Quick {
        cx = cx.into_iter().step_by(2).collect();
    }
    semiring_laws(&mut acc, "Complex", &cx, true);
    ring_laws(&mut acc, "Complex", &cx);
    large_magnitude_laws(&mut acc);
    // Expected utility
    let mut eu = Vec::new();
    for p in [0.0, 1.0, 0.5, 2.0] {
        for u in [0.0, 1.0, -1.0, 3.0] {
            eu.push(ExpectedUtility(p, u));
        }
    }
    semiring_laws(&mut acc, "ExpectedUtility", &eu, true);
    ring_laws(&mut acc, "ExpectedUtility", &eu);
    lattice_laws(&mut acc, "ExpectedUtility", &eu, &|a, b| BBSemiring::choose(a, b));
    lattice_laws(&mut acc, "ExpectedUtility(BBRing)", &eu, &|a, b| BBRing::choose(a, b));
    // Rational: values reachable from 0 and 1 by <= 3 rounds of + and *
    let mut rat: Vec<RationalSemiring> = vec![RationalSemiring::zero(), RationalSemiring::one()];
    for _ in 0..3 {
        let cur = rat.clone();
        for &a in cur.iter() {
            for &b in cur.iter() {
                for c in [a + b, a * b] {
                    if !rat.contains(&c) && rat.len() < 12 {
                        rat.push(c);
                    }
                }
            }
        }
    }
    semiring_laws(&mut acc, "RationalSemiring", &rat, true);
    // Polynomial
    let polys = vec![
        Polynomial::<RealSemiring>::zero(),
        Polynomial::<RealSemiring>::one(),
        poly(&[(1, 1.0)]),
        poly(&[(0, 1.0), (1, 1.0)]),
        poly(&[(31, 1.0)]),
        poly(&[(0, 1.0), (16, 1.0)]),
        poly(&[(0, 2.0), (2, 3.0)]),
        poly(&[(0, 1.0), (1, -1.0)]),
    ];
    semiring_laws(&mut acc, "Polynomial<RealSemiring>", &polys, true);
    // polynomials are objects with histories: the same polynomial reached by editing zero(), by editing
    // one() (its constant coefficient overwritten), by editing a copy of another polynomial, and by adding
    // monomials - the laws again over these, and every product / sum against the convolution computed on
    // the coefficient vectors
    if !crate::core::disabled("polyhist") {
        let specs: Vec<Vec<(usize, f64)>> = vec![vec![(1, 1.0)], vec![(0, 1.0), (1, 1.0)], vec![(0, 2.0), (2, 3.0)], vec![(0, 1.0), (1, -1.0)], vec![(0, 3.0)], vec![(0, 1.0), (16, 1.0)]];
        let via = |c: &[(usize, f64)], h: usize| -> Polynomial<RealSemiring> {
            let set = |p: &mut Polynomial<RealSemiring>| {
                let mut len = 0;
                for k in 0..32 {
                    p.coefficients[k] = RealSemiring(0.0);
                }
                for &(i, v) in c {
                    p.coefficients[i] = RealSemiring(v);
                    len = len.max(i + 1);
                }
                p.len = len;
            };
            match h {
                0 => poly(c),
                1 => {
                    let mut p = Polynomial::<RealSemiring>::one();
                    set(&mut p);
                    p
                }
                2 => {
                    let mut p = poly(&[(0, 5.0), (3, 7.0)]);
                    set(&mut p);
                    p
                }
                _ => {
                    let mut p = Polynomial::<RealSemiring>::zero();
                    for &(i, v) in c {
                        p = p + poly(&[(i, v)]);
                    }
                    p
                }
            }
        };
        let coeffs = |p: &Polynomial<RealSemiring>| -> Vec<f64> { (0..32).map(|k| if k < p.len { p.coefficients[k].0 } else { 0.0 }).collect() };
        let mut hp: Vec<(Polynomial<RealSemiring>, Vec<f64>, String)> = Vec::new();
        for c in specs.iter() {
            let mut want = vec![0.0; 32];
            for &(i, v) in c.iter() {
                want[i] = v;
            }
            for h in 0..4 {
                hp.push((via(c, h), want.clone(), format!("{:?} via history {}", c, h)));
            }
        }
        'ph: for (a, ca, na) in hp.iter() {
            for (b, cb, nb) in hp.iter() {
                acc.rep.evaluations += 2;
                let mut conv = vec![0.0; 32];
                for i in 0..32 {
                    for j in 0..(32 - i) {
                        conv[i + j] += ca[i] * cb[j];
                    }
                }
                let sum: Vec<f64> = (0..32).map(|k| ca[k] + cb[k]).collect();
                match eval2(|| (coeffs(&(*a * *b)), coeffs(&(*a + *b)))) {
                    Ok((gm, gs)) => {
                        if gm != conv {
                            acc.fail("Polynomial<RealSemiring>", "mul-is-convolution", format!("({}) * ({}) has coefficients {:?}, the convolution is {:?}", na, nb, &gm[..6], &conv[..6]));
                            break 'ph;
                        }
                        if gs != sum {
                            acc.fail("Polynomial<RealSemiring>", "add-is-coefficientwise", format!("({}) + ({}) has coefficients {:?}, expected {:?}", na, nb, &gs[..6], &sum[..6]));
                            break 'ph;
                        }
                    }
                    Err(p) => {
                        acc.fail("Polynomial<RealSemiring>", "panic", format!("({}) op ({}) panicked: {}", na, nb, p));
                        break 'ph;
                    }
                }
            }
        }
    }
    // finite fields: tiny instantiations, every residue
    field::<2>(&mut acc, "2", &(0..2).collect::<Vec<u128>>(), true);
    field::<3>(&mut acc, "3", &(0..3).collect::<Vec<u128>>(), true);
    field::<5>(&mut acc, "5", &(0..5).collect::<Vec<u128>>(), true);
    field::<7>(&mut acc, "7", &(0..7).collect::<Vec<u128>>(), true);
    field::<13>(&mut acc, "13", &(0..13).collect::<Vec<u128>>(), true);
    // composite tiny moduli, every residue: the type is generic in P and two of the exported constants are
    // composite, so zero divisors are inside the domain the statement quantifies over
    field::<6>(&mut acc, "6", &(0..6).collect::<Vec<u128>>(), true);
    field::<9>(&mut acc, "9", &(0..9).collect::<Vec<u128>>(), true);
    field::<15>(&mut acc, "15", &(0..15).collect::<Vec<u128>>(), true);
    // exported primes
    let all = ctx.tier == Tier::Thorough;
    field::<{ primes::U32_TINY }>(&mut acc, "U32_TINY", &boundary(primes::U32_TINY), all);
    field::<{ primes::U32_SMALL }>(&mut acc, "U32_SMALL", &boundary(primes::U32_SMALL), all);
    field::<{ primes::U64_LARGEST }>(&mut acc, "U64_LARGEST", &boundary(primes::U64_LARGEST), all);
    field::<{ primes::U128_LARGE_1 }>(&mut acc, "U128_LARGE_1", &boundary(primes::U128_LARGE_1), all);
    field::<{ primes::U128_LARGE_2 }>(&mut acc, "U128_LARGE_2", &boundary(primes::U128_LARGE_2), all);
    field::<{ primes::U128_LARGE_3 }>(&mut acc, "U128_LARGE_3", &boundary(primes::U128_LARGE_3), all);
    field::<{ primes::U128_LARGE_4 }>(&mut acc, "U128_LARGE_4", &boundary(primes::U128_LARGE_4), all);
    // moduli outside the exported list but inside the type's documented domain (P < 2^127):
    // Mersenne primes on both sides of 2^64 and 2^96
    field::<{ (1u128 << 61) - 1 }>(&mut acc, "2^61-1", &boundary((1u128 << 61) - 1), all);
    field::<{ (1u128 << 89) - 1 }>(&mut acc, "2^89-1", &boundary((1u128 << 89) - 1), all);
    field::<{ (1u128 << 107) - 1 }>(&mut acc, "2^107-1", &boundary((1u128 << 107) - 1), all);
    field::<{ (1u128 << 127) - 1 }>(&mut acc, "2^127-1", &boundary((1u128 << 127) - 1), all);
    let mut rep = acc.rep;
    rep.traces = rep.transitions;
    rep.distinct_nontrivial = rep.transitions;
    rep.bound("types", json!(["BooleanSemiring", "RealSemiring", "Complex", "ExpectedUtility", "RationalSemiring", "Polynomial<RealSemiring>", "FiniteField<2,3,5,7,13>", "FiniteField<7 exported primes>", "FiniteField<2^61-1, 2^89-1, 2^107-1, 2^127-1>"]));
    rep.sample(json!({"type": "FiniteField<U128_LARGE_1>", "law": "mul-is-modular", "a": "P-1", "b": "P-1", "expected": 1}));
    rep.sample(json!({"type": "FiniteField<7>", "law": "sub-inverts-add", "a": 3, "b": 5}));
    rep.assumptions.push("float-backed types are exercised only on values where every intermediate result is exactly representable; equality is the type's own ==".into());
    rep.assumptions.push("RationalSemiring has no public constructor: only values reachable from zero() and one() by + and * can be built".into());
    // self-test of the reference arithmetic against native arithmetic where that cannot overflow
    for (a, b, p) in [(123456789u128, 987654321u128, 1000001u128), (u64::MAX as u128 - 5, u64::MAX as u128 - 9, primes::U64_LARGEST)] {
        if mulmod_ref(a, b, p) != (a % p) * (b % p) % p {
            rep.set_extra("engine_panic", json!("reference mulmod self-test failed"));
        }
    }
    rep
}

pub fn replay(ctx: &Ctx, case: &Value) -> Report {
    // the alphabets are fixed: a replay re-runs the whole (cheap) enumeration and keeps the
    // violations of the recorded (type, law)
    let mut rep = run(ctx);
    if let (Some(t), Some(l)) = (case["type"].as_str(), case["law"].as_str()) {
        let key = format!("{}:{}", t, l);
        rep.violations.retain(|v| v.key == key);
        rep.n_violations = rep.violations.len() as u64;
    }
    rep
}
