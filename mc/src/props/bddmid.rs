//! Mid-scale regime of the BDD history engine (tags C01 / C02 / C16 as in `bddsweep`).
//!
//! The all-functions sweeps stop at 3 (pairs) to 5 (pools) variables. This regime runs, in one
//! long-lived builder per configuration, a rule-defined family of about 200 operand functions over
//! 8 variables (10 in the thorough tier): literals, two-literal cubes and clauses, parities, long
//! cubes and clauses, thresholds, comparator / adder / multiplexer functions, implication chains.
//! Every ordered pair of the core operands is combined by and / or / xor / iff; every operand is
//! conditioned and quantified on every variable, conditioned on partial models of every length,
//! composed with a slice of operands; ite runs over all triples of a pool and over the degenerate /
//! aliased argument shapes; list operations take 4 to 2n elements; variables are added at run time.
//! Every result is read back through the public node fields into a 2^n-bit truth table and compared
//! with the reference algebra (`bigtt`), entered in the function -> pointer map (canonicity), walked
//! for shape, and its structure digest compared in lock step with the cache-everything builder.
//! Labels may be spread over a manager of up to 130 variables (on both sides of the 32/64/128
//! boundaries). Diagrams here have up to a few hundred nodes, the default lossy cache is used past
//! its first evictions, and tiny hooked tables grow a dozen times.

use crate::bigtt::{self, Alg, Big, BigAlg};
use crate::core::*;
use crate::props::bddsweep::{CacheKind, Cfg};
use crate::walk::*;
use crate::with_bdd_builder;
use rsdd::builder::bdd::{BddBuilder, RobddBuilder};
use rsdd::builder::cache::IteTable;
use rsdd::builder::BottomUpBuilder;
use rsdd::repr::{BddPtr, DDNNFPtr, Literal, PartialModel, VarLabel};
use serde_json::{json, Value};
use std::collections::HashMap;

struct BddAlg<'a, T: IteTable<'a, BddPtr<'a>> + Default> {
    b: &'a RobddBuilder<'a, T>,
    lab: Vec<usize>,
}

impl<'a, T: IteTable<'a, BddPtr<'a>> + Default> Alg for BddAlg<'a, T> {
    type F = BddPtr<'a>;
    fn n(&self) -> usize {
        self.lab.len()
    }
    fn konst(&self, v: bool) -> BddPtr<'a> {
        if v { BddPtr::PtrTrue } else { BddPtr::PtrFalse }
    }
    fn lit(&self, v: usize, pol: bool) -> BddPtr<'a> {
        self.b.var(VarLabel::new(self.lab[v] as u64), pol)
    }
    fn not(&self, f: &BddPtr<'a>) -> BddPtr<'a> {
        self.b.negate(*f)
    }
    fn and(&self, f: &BddPtr<'a>, g: &BddPtr<'a>) -> BddPtr<'a> {
        self.b.and(*f, *g)
    }
    fn or(&self, f: &BddPtr<'a>, g: &BddPtr<'a>) -> BddPtr<'a> {
        self.b.or(*f, *g)
    }
    fn xor(&self, f: &BddPtr<'a>, g: &BddPtr<'a>) -> BddPtr<'a> {
        self.b.xor(*f, *g)
    }
    fn ite(&self, f: &BddPtr<'a>, g: &BddPtr<'a>, h: &BddPtr<'a>) -> BddPtr<'a> {
        self.b.ite(*f, *g, *h)
    }
}

#[allow(dead_code)]
struct M<'a, 'e, T: IteTable<'a, BddPtr<'a>> + Default> {
    b: &'a RobddBuilder<'a, T>,
    cfg: Cfg,
    n: usize,
    lab: Vec<usize>,
    level: Vec<usize>,
    canon: HashMap<Big, (usize, bool)>,
    kept: Vec<(BddPtr<'a>, Big, String)>,
    rep: Report,
    digests: Vec<(u64, u64)>,
    expected: Option<&'e [(u64, u64)]>,
    lock_lost: bool,
    opno: u64,
    max_nodes: usize,
    compl_roots: u64,
}

fn structure_digest(p: BddPtr) -> u64 {
    let (tbl, root) = bdd_structure(p);
    let mut h: u64 = 0xcbf29ce484222325;
    for (v, l, hi) in tbl {
        for x in [v, l as u64, hi as u64] {
            h = (h ^ x).wrapping_mul(0x100000001b3);
            h ^= h >> 32;
        }
    }
    (h ^ root as u64).wrapping_mul(0x100000001b3)
}

impl<'a, 'e, T: IteTable<'a, BddPtr<'a>> + Default> M<'a, 'e, T> {
    fn viol(&mut self, prop: &str, key: &str, what: String, op: &str) {
        let case = json!({"kind": "bdd_mid", "cfg": self.cfg.json(), "op_number": self.opno, "op": op});
        self.rep.violation(format!("{}:{}", prop, key), format!("[mid-scale n = {}] {}: {}", self.n, op, what), case);
    }
    fn lbl(&self, v: usize) -> VarLabel {
        VarLabel::new(self.lab[v] as u64)
    }
    fn read(&self, p: BddPtr<'a>) -> Result<Big, String> {
        let lab = &self.lab;
        bigtt::bdd_big(p, self.n, &|l| lab.iter().position(|&x| x == l))
    }
    /// compare one result with the reference; returns the pointer when the call returned
    fn check(&mut self, res: Result<BddPtr<'a>, String>, want: &Big, op: &dyn Fn() -> String) -> Option<BddPtr<'a>> {
        self.opno += 1;
        self.rep.transitions += 1;
        self.rep.evaluations += 1;
        let p = match res {
            Ok(p) => p,
            Err(e) => {
                self.viol("C01", "panic", format!("panicked: {}", e), &op());
                return None;
            }
        };
        match self.read(p) {
            Err(e) => self.viol("C01", "wrong-function", e, &op()),
            Ok(got) => {
                if got != *want {
                    let a = (0..1usize << self.n).find(|&a| got.eval(a) != want.eval(a)).unwrap_or(0);
                    self.viol("C01", "wrong-function", format!("the result differs from the definition, e.g. on assignment {:#b} (result {}, definition {})", a, got.eval(a), want.eval(a)), &op());
                } else {
                    // canonicity: one pointer per function
                    let id = bdd_id(p);
                    let known = self.canon.get(want).cloned();
                    match known {
                        Some(k) if k != id => {
                            self.viol("C02", "two-pointers-one-function", format!("a second pointer for a function that already has one (constant: {})", want.is_const()), &op());
                        }
                        Some(_) => {}
                        None => {
                            self.canon.insert(want.clone(), id);
                            self.canon.insert(want.not(), (id.0, !id.1));
                            self.rep.states += 1;
                        }
                    }
                }
            }
        }
        let lab = &self.lab;
        let level = &self.level;
        if let Some(d) = bdd_shape_defect(p, &|l| lab.iter().position(|&x| x == l).map(|v| level[v]).unwrap_or(usize::MAX / 2)) {
            self.viol("C02", "ill-shaped", d, &op());
        }
        if matches!(p, BddPtr::Compl(_)) {
            self.compl_roots += 1;
        }
        let (tbl, _) = bdd_structure(p);
        self.max_nodes = self.max_nodes.max(tbl.len());
        // lock step with the cache-everything run
        let key = fnv(op().as_bytes());
        let dig = structure_digest(p);
        if let Some(exp) = self.expected {
            if !self.lock_lost {
                match exp.get(self.digests.len()) {
                    Some((k, d)) if *k == key => {
                        self.rep.evaluations += 1;
                        if *d != dig {
                            self.viol("C16", "lossy-cache-changes-result", "the structure differs from the cache-everything builder's result for the same history".into(), &op());
                        }
                    }
                    _ => {
                        self.lock_lost = true;
                        self.rep.add_extra("lockstep_lost_after_a_cap", 1);
                    }
                }
            }
        }
        self.digests.push((key, dig));
        if self.opno % 7 == 0 && self.kept.len() < 60_000 {
            self.kept.push((p, want.clone(), op()));
        }
        Some(p)
    }
    /// every kept earlier result still denotes its function
    fn recheck(&mut self) {
        let kept = std::mem::take(&mut self.kept);
        for (p, want, op) in kept.iter() {
            self.rep.evaluations += 1;
            match self.read(*p) {
                Ok(g) if g == *want => {}
                _ => {
                    self.viol("C01", "earlier-result-changed", "a diagram returned earlier no longer denotes its function".into(), op);
                    break;
                }
            }
        }
        self.kept = kept;
    }
    /// re-key the reference side after a variable was added at run time
    fn widen(&mut self, label: usize) {
        let m = self.n + 1;
        self.n = m;
        self.lab.push(label);
        self.level.push(m - 1);
        let old: Vec<(Big, (usize, bool))> = self.canon.drain().collect();
        for (t, id) in old {
            self.canon.insert(t.extend(m), id);
        }
        for k in self.kept.iter_mut() {
            k.1 = k.1.extend(m);
        }
    }
}

fn mid<'a, 'e, T: IteTable<'a, BddPtr<'a>> + Default>(b: &'a RobddBuilder<'a, T>, cfg: &Cfg, expected: Option<&'e [(u64, u64)]>, ctx: &Ctx) -> (Report, Vec<(u64, u64)>) {
    let n = cfg.n;
    let mut level = vec![0; n];
    for (pos, &v) in cfg.order.iter().enumerate() {
        level[v] = pos;
    }
    let lab: Vec<usize> = if cfg.labels.is_empty() { (0..n).collect() } else { cfg.labels.clone() };
    let mut s = M { b, cfg: cfg.clone(), n, lab: lab.clone(), level, canon: HashMap::new(), kept: Vec::new(), rep: Report::default(), digests: Vec::new(), expected, lock_lost: false, opno: 0, max_nodes: 0, compl_roots: 0 };
    s.rep.exhaustive = true;
    s.canon.insert(Big::konst(n, true), (0, false));
    s.canon.insert(Big::konst(n, false), (0, true));
    // operands: the same rule-defined families built on both sides
    let reference = bigtt::families(&BigAlg(n));
    let built = match guarded(|| bigtt::families(&BddAlg { b, lab: lab.clone() })) {
        Ok(v) => v,
        Err(e) => {
            s.viol("C01", "panic", format!("panicked: {}", e), "building the operand families");
            return (s.rep, s.digests);
        }
    };
    let mut ops: Vec<(String, u8, BddPtr<'a>, Big)> = Vec::new();
    for ((name, lvl, want), (_, _, p)) in reference.into_iter().zip(built.into_iter()) {
        let nm = name.clone();
        if s.check(Ok(p), &want, &move || format!("operand {}", nm)).is_some() {
            ops.push((name, lvl, p, want));
        }
    }
    if s.rep.n_violations > 0 {
        // an operand is wrong: its construction history is the finding; nothing built on it is meaningful
        return (s.rep, s.digests);
    }
    // quick: the core operands; thorough: every operand of the families (n = 8) resp. the core and every second other (n = 10)
    let mut core: Vec<usize> = (0..ops.len()).filter(|&i| ops[i].1 == 0 || (ctx.tier == Tier::Thorough && (n <= 8 || i % 2 == 0))).collect();
    if n > 10 && ctx.tier == Tier::Quick {
        core = core.into_iter().step_by(2).collect();
    }
    if cfg.issue % 2 == 1 {
        core.reverse();
    }
    // pool 5: a larger size (13 variables) for the unary operations only
    let unary_only = cfg.pool == 5;
    if unary_only {
        core.clear();
    }
    // all ordered pairs of the core operands
    'pairs: for (ci, &i) in core.iter().enumerate() {
        for &j in core.iter() {
            let (f, x) = (ops[i].2, ops[i].3.clone());
            let (g, y) = (ops[j].2, ops[j].3.clone());
            let (ni, nj) = (ops[i].0.clone(), ops[j].0.clone());
            s.check(guarded(|| b.and(f, g)), &x.and(&y), &|| format!("and({}, {})", ni, nj));
            s.check(guarded(|| b.or(f, g)), &x.or(&y), &|| format!("or({}, {})", ni, nj));
            s.check(guarded(|| b.xor(f, g)), &x.xor(&y), &|| format!("xor({}, {})", ni, nj));
            s.check(guarded(|| b.iff(f, g)), &x.iff(&y), &|| format!("iff({}, {})", ni, nj));
            if s.rep.n_violations > 24 {
                break 'pairs;
            }
        }
        if ci % 16 == 15 {
            s.recheck();
            if ctx.over_time() || ctx.over_mem() {
                s.rep.cap("wall-clock or memory cap inside the mid-scale pair sweep");
                break;
            }
        }
    }
    // unary operations on every operand and on conjunctions / exclusive ors of neighbouring operands
    let mut subjects: Vec<(String, BddPtr<'a>, Big)> = ops.iter().enumerate().filter(|(i, o)| !unary_only || o.1 == 0 || i % 4 == 0).map(|(_, o)| (o.0.clone(), o.2, o.3.clone())).collect();
    for w in core.windows(2).step_by(3) {
        let (i, j) = (w[0], w[1]);
        let nm = format!("xor({}, {})", ops[i].0, ops[j].0);
        let want = ops[i].3.xor(&ops[j].3);
        let (f, g) = (ops[i].2, ops[j].2);
        let nm2 = nm.clone();
        if let Some(p) = s.check(guarded(|| b.xor(f, g)), &want, &move || nm2.clone()) {
            subjects.push((nm, p, want));
        }
    }
    let nn = s.n;
    for (si, (name, f, x)) in subjects.iter().enumerate() {
        if s.rep.n_violations > 24 {
            break;
        }
        let f = *f;
        s.check(guarded(|| b.negate(f)), &x.not(), &|| format!("negate({})", name));
        for v in 0..nn {
            let l = s.lbl(v);
            for val in [true, false] {
                s.check(guarded(|| b.condition(f, l, val)), &x.cofactor(v, val), &|| format!("condition({}, x{}, {})", name, v, val));
            }
            s.check(guarded(|| b.exists(f, l)), &x.exists(v), &|| format!("exists({}, x{})", name, v));
        }
        // partial models of every length: the first k variables of a rotation, alternating values
        let width = s.cfg.manager_vars();
        for kk in 0..(if unary_only { 3 * nn } else { nn }) {
            let (k, variant) = (1 + kk % nn, kk / nn);
            let start = (si + k + 5 * variant) % nn;
            let mut lits: Vec<Literal> = Vec::new();
            let mut want = x.clone();
            for t in 0..k {
                let v = (start + t * (3 + 2 * variant)) % nn;
                if lits.iter().any(|q| q.label() == s.lbl(v)) {
                    continue;
                }
                let val = (t + si) % 2 == 0;
                lits.push(Literal::new(s.lbl(v), val));
                want = want.cofactor(v, val);
            }
            let m = PartialModel::from_litvec(&lits, width);
            let desc = format!("condition_model({}, {:?})", name, lits.iter().map(|q| (q.label().value(), q.polarity())).collect::<Vec<_>>());
            s.check(guarded(|| b.condition_model(f, &m)), &want, &|| desc.clone());
        }
        // composition with literals, with the subject itself and with a rotating operand
        for v in (si % 2..nn).step_by(2) {
            let l = s.lbl(v);
            let gi = (si * 7 + v) % ops.len();
            for (gn, g, y) in [
                (ops[gi].0.clone(), ops[gi].2, ops[gi].3.clone()),
                (format!("!x{}", (v + 1) % nn), b.var(s.lbl((v + 1) % nn), false), Big::lit(nn, (v + 1) % nn, false)),
                (name.clone(), f, x.clone()),
            ] {
                s.check(guarded(|| b.compose(f, l, g)), &x.compose_def(v, &y), &|| format!("compose({}, x{}, {})", name, v, gn));
            }
        }
        if si % 32 == 31 {
            s.recheck();
            if ctx.over_time() || ctx.over_mem() {
                s.rep.cap("wall-clock or memory cap inside the mid-scale unary sweep");
                break;
            }
        }
    }
    // ite: all triples of a pool, and the aliased / degenerate shapes for every ordered pair of the pool
    let pool: Vec<usize> = if unary_only { vec![] } else { core.iter().cloned().step_by((core.len() / ctx.tier.pick(14, 28)).max(1)).collect() };
    for &i in pool.iter() {
        if s.rep.n_violations > 24 {
            break;
        }
        for &j in pool.iter() {
            let (f, x, nf) = (ops[i].2, ops[i].3.clone(), ops[i].0.clone());
            let (g, y, ng) = (ops[j].2, ops[j].3.clone(), ops[j].0.clone());
            for &k in pool.iter() {
                let (h, z, nh) = (ops[k].2, ops[k].3.clone(), ops[k].0.clone());
                s.check(guarded(|| b.ite(f, g, h)), &x.ite(&y, &z), &|| format!("ite({}, {}, {})", nf, ng, nh));
            }
            let (fneg, gneg) = (f.neg(), g.neg());
            s.check(guarded(|| b.ite(f, f, g)), &x.ite(&x, &y), &|| format!("ite(f, f, g) f = {}, g = {}", nf, ng));
            s.check(guarded(|| b.ite(f, g, f)), &x.ite(&y, &x), &|| format!("ite(f, g, f) f = {}, g = {}", nf, ng));
            s.check(guarded(|| b.ite(f, fneg, g)), &x.ite(&x.not(), &y), &|| format!("ite(f, !f, g) f = {}, g = {}", nf, ng));
            s.check(guarded(|| b.ite(f, g, fneg)), &x.ite(&y, &x.not()), &|| format!("ite(f, g, !f) f = {}, g = {}", nf, ng));
            s.check(guarded(|| b.ite(f, g, gneg)), &x.ite(&y, &y.not()), &|| format!("ite(f, g, !g) f = {}, g = {}", nf, ng));
            s.check(guarded(|| b.ite(f, g, g)), &y, &|| format!("ite(f, g, g) f = {}, g = {}", nf, ng));
            s.check(guarded(|| b.ite(fneg, g, BddPtr::PtrTrue)), &x.or(&y), &|| format!("ite(!f, g, true) f = {}, g = {}", nf, ng));
            s.check(guarded(|| b.ite(f, BddPtr::PtrFalse, g)), &x.not().and(&y), &|| format!("ite(f, false, g) f = {}, g = {}", nf, ng));
            s.check(guarded(|| b.and(f, fneg)), &Big::konst(nn, false), &|| format!("and(f, !f) f = {}", nf));
        }
    }
    s.recheck();
    // list operations with 4 .. 2n elements (windows over the operands, with repeated and complementary elements)
    for len in (4..=(if unary_only { 0 } else { 2 * nn })).step_by(1) {
        for start in (0..ops.len()).step_by(ctx.tier.pick(9, 3)) {
            let mut ps: Vec<BddPtr<'a>> = Vec::new();
            let mut conj = Big::konst(nn, true);
            let mut disj = Big::konst(nn, false);
            let mut names: Vec<String> = Vec::new();
            for t in 0..len {
                // literal-heavy windows keep the conjunction satisfiable; every 5th element repeats
                let i = if t % 5 == 4 { (start + t - 1) % ops.len() } else { (start + t * (1 + len % 3)) % ops.len() };
                ps.push(ops[i].2);
                conj = conj.and(&ops[i].3);
                disj = disj.or(&ops[i].3);
                names.push(ops[i].0.clone());
            }
            s.check(guarded(|| b.and_lst(&ps)), &conj, &|| format!("and_lst({:?})", names));
            s.check(guarded(|| b.or_lst(&ps)), &disj, &|| format!("or_lst({:?})", names));
        }
    }
    // variables added at run time (n + 1, n + 2): old results keep their meaning, new ones combine with them
    for round in 0..(if unary_only { 0usize } else { 2 }) {
        if s.rep.n_violations > 0 {
            break;
        }
        let pol = round == 0;
        let want_label = s.cfg.manager_vars() + round;
        match guarded(|| b.new_var(pol)) {
            Err(e) => {
                s.viol("C01", "panic", format!("panicked: {}", e), "new_var");
                break;
            }
            Ok((lbl, ptr)) => {
                if lbl.value_usize() != want_label {
                    s.viol("C01", "new-var-label", format!("new_var returned label {} in a manager of {} variables", lbl.value(), want_label), "new_var");
                    break;
                }
                s.widen(want_label);
                let m = s.n;
                let newv = m - 1;
                let xl = Big::lit(m, newv, pol);
                s.check(Ok(ptr), &xl, &|| format!("new_var({})", pol));
                s.recheck();
                for &i in core.iter().step_by(2) {
                    let (f, x, nf) = (ops[i].2, ops[i].3.extend(m), ops[i].0.clone());
                    let r = s.check(guarded(|| b.ite(ptr, f, f.neg())), &xl.ite(&x, &x.not()), &|| format!("ite(new variable {}, f, !f) f = {}", round, nf));
                    s.check(guarded(|| b.and(f, ptr)), &x.and(&xl), &|| format!("and(f, new variable {}) f = {}", round, nf));
                    if let Some(r) = r {
                        let w = xl.ite(&x, &x.not());
                        for val in [true, false] {
                            s.check(guarded(|| b.condition(r, lbl, val)), &w.cofactor(newv, val), &|| format!("condition(ite(new variable {}, f, !f), new variable, {}) f = {}", round, val, nf));
                        }
                        s.check(guarded(|| b.exists(r, lbl)), &w.exists(newv), &|| format!("exists(ite(new variable {}, f, !f), new variable) f = {}", round, nf));
                        let v0 = i % (m - 1);
                        let l0 = s.lbl(v0);
                        s.check(guarded(|| b.compose(r, l0, ptr)), &w.compose_def(v0, &xl), &|| format!("compose(ite(new variable {}, f, !f), x{}, new variable) f = {}", round, v0, nf));
                        // combined again with an old function
                        let j = core[(i + 5) % core.len()];
                        let (g, y, ng) = (ops[j].2, ops[j].3.extend(m), ops[j].0.clone());
                        s.check(guarded(|| b.xor(r, g)), &w.xor(&y), &|| format!("xor(ite(new variable {}, f, !f), g) f = {}, g = {}", round, nf, ng));
                    }
                }
            }
        }
    }
    s.recheck();
    s.rep.traces += 1;
    s.rep.add_extra("mid_scale_operations", s.opno);
    s.rep.add_extra("mid_scale_distinct_functions", s.canon.len() as u64 / 2);
    s.rep.max_depth = s.rep.max_depth.max(s.max_nodes as u64);
    s.rep.add_extra("mid_scale_complemented_roots", s.compl_roots);
    if let Ok((cap, len, _hits)) = guarded(|| b.verif_table_stats()) {
        s.rep.add_extra("mid_scale_unique_table_nodes", len as u64);
        if cfg.table_cap != 0 {
            s.rep.add_extra("mid_scale_table_growths", (cap as f64 / cfg.table_cap as f64).log2().round() as u64);
        }
    }
    (s.rep, s.digests)
}

fn run_cfg(cfg: &Cfg, expected: Option<&[(u64, u64)]>, ctx: &Ctx) -> (Report, Vec<(u64, u64)>) {
    with_bdd_builder!(cfg, |b| mid(&b, cfg, expected, ctx))
}

/// orders for n variables: identity, reversed, interleaved halves, a fixed scrambled one
fn orders(n: usize) -> Vec<Vec<usize>> {
    let id: Vec<usize> = (0..n).collect();
    let rev: Vec<usize> = (0..n).rev().collect();
    let mut inter = Vec::new();
    for i in 0..n / 2 {
        inter.push(i);
        inter.push(i + n / 2);
    }
    if n % 2 == 1 {
        inter.push(n - 1);
    }
    let scr: Vec<usize> = (0..n).map(|i| (i * 3 + 3) % n).collect();
    let mut v = vec![id, rev, inter];
    let mut sorted = scr.clone();
    sorted.sort();
    if sorted == (0..n).collect::<Vec<_>>() {
        v.push(scr);
    }
    v
}

pub fn run(ctx: &Ctx) -> Report {
    let mut rep = Report::default();
    rep.exhaustive = true;
    if disabled("midscale") {
        return rep;
    }
    let mut items: Vec<(usize, Vec<usize>, Vec<usize>)> = Vec::new();
    let sizes: Vec<usize> = ctx.tier.pick(vec![8], vec![8, 10]);
    for &n in sizes.iter() {
        for (i, o) in orders(n).into_iter().enumerate() {
            items.push((i, o.clone(), vec![]));
            if i == 1 || (i == 3 && ctx.tier == Tier::Thorough) {
                // the same order in a wide manager: labels on both sides of the 32 / 64 / 128 boundaries
                let wide: Vec<usize> = [0usize, 31, 32, 33, 63, 64, 65, 127, 128, 129][..n].to_vec();
                items.push((i + 1, o, wide));
            }
        }
    }
    // a size that is neither a power of two nor round: 11 variables (identity and scrambled order), with a thinner
    // all-pairs phase (see `mid`)
    {
        let n = 11usize;
        for (i, o) in orders(n).into_iter().enumerate() {
            if i == 0 || i == 3 || ctx.tier == Tier::Thorough {
                items.push((i, o, vec![]));
            }
        }
    }
    // 13 variables, unary operations only (conditioning on partial models of 1 to 13 literals, three choices each)
    items.push((300, (0..13).collect(), vec![]));
    items.push((301, (0..13).map(|i| (i * 5 + 2) % 13).collect(), vec![]));
    // huge managers in label order and in reversed label order: levels and labels on both sides of 2^8 and 2^16
    for (k, lab) in [vec![0usize, 1, 127, 128, 255, 256, 257, 299], vec![2, 255, 256, 65534, 65535, 65536, 65540, 65590], vec![5, 90, 100, 101, 999, 1000, 4999, 5000]].into_iter().enumerate() {
        items.push((100 + k, (0..8).collect(), lab.clone()));
        items.push((200 + k, (0..8).rev().collect(), lab));
    }
    let r = par_run(ctx, &items, |_, (i, o, labels)| {
        let pool = if *i >= 300 { 5 } else if *i >= 200 { 4 } else if *i >= 100 { 3 } else { 2 };
        let base = Cfg { n: o.len(), order: o.clone(), cache: CacheKind::All, table_cap: 2, issue: *i + ctx.seed as usize, ite_pool: 0, full_ite: false, pool, labels: labels.clone() };
        let (mut r, dig) = run_cfg(&base, None, ctx);
        r.add_extra("mid_scale_configurations", 1);
        for (cache, cap) in [(CacheKind::Lru(None), 0usize), (CacheKind::Lru(Some(3)), 2)] {
            let mut c = base.clone();
            c.cache = cache;
            c.table_cap = cap;
            let (x, _) = run_cfg(&c, Some(&dig), ctx);
            r.add_extra("mid_scale_configurations", 1);
            r.merge(x);
        }
        r
    });
    rep.bound("Rmid", json!({"variables": sizes, "orders": "identity, reversed, interleaved halves, scrambled", "wide_managers": "labels 0,31,32,33,63,64,65,127(,128,129) spread over a 130-variable manager; labels 0,1,127,128,255,256,257,299 / 2,255,256,65534,65535,65536,65540,65590 / 5,90,100,101,999,1000,4999,5000 in managers in label order and in reversed label order (level = label)", "eleven_variables": "identity and scrambled order (all four orders in thorough), every second core operand in the all-pairs phase", "operands": "rule-defined families (literals, 2-literal cubes/clauses, parities, long cubes/clauses, thresholds, comparator, adder carry, multiplexers, implication chain, at-most-one)", "caches": ["all (table capacity 2)", "lru-default (default table)", "lru-2^3 (table capacity 2)"], "operations": "all ordered pairs of the core operands x and/or/xor/iff; negate, condition, exists on every variable, condition_model for every length, compose; ite over all triples of a pool and the aliased shapes; and_lst/or_lst of 4..2n elements; two variables added at run time"}));
    rep.merge(r);
    rep
}

pub fn replay(ctx: &Ctx, case: &Value) -> Report {
    let mut rep = Report::default();
    if let Some(cfg) = Cfg::from_json(&case["cfg"]) {
        let mut base = cfg.clone();
        base.cache = CacheKind::All;
        base.table_cap = 2;
        let (_, dig) = run_cfg(&base, None, ctx);
        let (r, _) = run_cfg(&cfg, Some(&dig), ctx);
        rep.merge(r);
    }
    rep
}
