//! C19 – command-line tools report exact counts and faithful diagrams.
//! Input-space enumeration over formulas x weight files x configured orders; every case is a
//! subprocess of the real binaries built from /repo's working tree with `--features cli`.

use crate::core::*;
use crate::enumerate::*;
use crate::jsonread::*;
use crate::tt::{self, TT};
use serde_json::{json, Value};
use std::path::{Path, PathBuf};
use std::process::{Command, Stdio};
use std::time::{Duration, Instant};

fn root() -> PathBuf {
    match std::env::var("VERIF_ROOT") {
        Ok(p) => PathBuf::from(p),
        Err(_) => std::env::current_dir().unwrap(),
    }
}

fn bin_dir() -> PathBuf {
    root().join("mc").join("target").join("cli")
}

/// build the three binaries from the working tree; Err = machinery failure
pub fn build_bins() -> Result<PathBuf, String> {
    let repo = std::env::var("VERIF_REPO").unwrap_or_else(|_| "/repo".to_string());
    let out = Command::new("cargo")
        .args(["build", "--offline", "--features", "cli", "--bins", "--manifest-path"])
        .arg(format!("{}/Cargo.toml", repo))
        .arg("--target-dir")
        .arg(bin_dir())
        .env("CARGO_NET_OFFLINE", "true")
        .stdout(Stdio::piped())
        .stderr(Stdio::piped())
        .output()
        .map_err(|e| format!("cannot start cargo: {}", e))?;
    if !out.status.success() {
        return Err(format!("building the cli binaries failed:\n{}", String::from_utf8_lossy(&out.stderr)));
    }
    Ok(bin_dir().join("debug"))
}

struct Run {
    stdout: String,
    stderr: String,
    ok: bool,
    timed_out: bool,
}

fn run_bin(bin: &Path, args: &[&str]) -> Run {
    let mut child = match Command::new(bin).args(args).stdout(Stdio::piped()).stderr(Stdio::piped()).spawn() {
        Ok(c) => c,
        Err(e) => return Run { stdout: String::new(), stderr: format!("spawn failed: {}", e), ok: false, timed_out: false },
    };
    let start = Instant::now();
    loop {
        match child.try_wait() {
            Ok(Some(_)) => break,
            Ok(None) => {
                if start.elapsed() > Duration::from_secs(20) {
                    let _ = child.kill();
                    let _ = child.wait();
                    return Run { stdout: String::new(), stderr: "timeout".into(), ok: false, timed_out: true };
                }
                std::thread::sleep(Duration::from_micros(300));
            }
            Err(_) => break,
        }
    }
    match child.wait_with_output() {
        Ok(o) => Run {
            stdout: String::from_utf8_lossy(&o.stdout).to_string(),
            stderr: String::from_utf8_lossy(&o.stderr).to_string(),
            ok: o.status.success(),
            timed_out: false,
        },
        Err(e) => Run { stdout: String::new(), stderr: format!("{}", e), ok: false, timed_out: false },
    }
}

/// (low, high) weights as exactly representable decimals
const WALPHA: [(f64, f64); 3] = [(1.0, 2.0), (3.0, 5.0), (0.5, 0.5)];

fn brute(t: TT, n: usize, w: &[(f64, f64)]) -> (u64, f64) {
    let mut mc = 0;
    let mut wmc = 0.0;
    for a in 0..(1usize << n) {
        if tt::eval(t, a) {
            mc += 1;
            let mut p = 1.0;
            for v in 0..n {
                p *= if (a >> v) & 1 == 1 { w[v].1 } else { w[v].0 };
            }
            wmc += p;
        }
    }
    (mc, wmc)
}

#[derive(Clone, Debug)]
struct WmcCase {
    expr: Ex,
    /// weights per occurring variable (in lexicographic name order)
    weights: Vec<(f64, f64)>,
    /// configured order as positions -> occurring-variable index (None = no config file)
    order: Option<Vec<usize>>,
}

fn wmc_case_json(c: &WmcCase) -> Value {
    json!({"kind": "wmc", "formula": c.expr.sexpr(), "weights": c.weights.iter().map(|w| json!([w.0, w.1])).collect::<Vec<_>>(), "order": c.order})
}

fn check_wmc(bins: &Path, dir: &Path, c: &WmcCase) -> Result<Option<(String, String)>, String> {
    let vars = c.expr.vars();
    let n = vars.len();
    let (t, _) = c.expr.tt();
    let f = dir.join("f.sexpr");
    let w = dir.join("w.json");
    let cf = dir.join("c.json");
    std::fs::write(&f, c.expr.sexpr()).map_err(|e| e.to_string())?;
    let mut wj = serde_json::Map::new();
    for (i, v) in vars.iter().enumerate() {
        wj.insert(NAMES[*v].to_string(), json!({"low": c.weights[i].0, "high": c.weights[i].1}));
    }
    std::fs::write(&w, Value::Object(wj).to_string()).map_err(|e| e.to_string())?;
    let mut args: Vec<String> = vec!["-f".into(), f.to_string_lossy().into(), "-w".into(), w.to_string_lossy().into()];
    if let Some(o) = &c.order {
        let names: Vec<&str> = o.iter().map(|&i| NAMES[vars[i]]).collect();
        std::fs::write(&cf, json!({"order": names}).to_string()).map_err(|e| e.to_string())?;
        args.push("-c".into());
        args.push(cf.to_string_lossy().into());
    }
    let a: Vec<&str> = args.iter().map(|s| s.as_str()).collect();
    let r = run_bin(&bins.join("weighted_model_count"), &a);
    if r.timed_out {
        return Err("weighted_model_count timed out (20 s)".into());
    }
    if !r.ok {
        return Ok(Some(("wmc-tool-failed".into(), format!("exit status != 0; stderr: {}", r.stderr.lines().last().unwrap_or("")))));
    }
    let mut mc: Option<u128> = None;
    let mut wm: Option<f64> = None;
    for line in r.stdout.lines() {
        if let Some(x) = line.strip_prefix("unweighted model count: ") {
            mc = x.trim().parse().ok();
        }
        if let Some(x) = line.strip_prefix("weighted model count: ") {
            wm = x.trim().parse().ok();
        }
    }
    let (want_mc, want_w) = brute(t, n, &c.weights);
    match (mc, wm) {
        (Some(m), Some(x)) => {
            if m != want_mc as u128 {
                return Ok(Some(("model-count".into(), format!("prints {} models, the formula has {}", m, want_mc))));
            }
            if x != want_w {
                return Ok(Some(("weighted-count".into(), format!("prints weighted count {}, the sum over models is {}", x, want_w))));
            }
            Ok(None)
        }
        _ => Ok(Some(("wmc-output".into(), format!("cannot find both counts in the output: {:?}", r.stdout)))),
    }
}

fn check_formula_to_bdd(bins: &Path, dir: &Path, e: &Ex, order: &Option<Vec<usize>>) -> Result<Option<(String, String)>, String> {
    let vars = e.vars();
    let n = vars.len();
    let (t, _) = e.tt();
    let f = dir.join("g.sexpr");
    let cf = dir.join("gc.json");
    std::fs::write(&f, e.sexpr()).map_err(|x| x.to_string())?;
    let mut args: Vec<String> = vec!["-f".into(), f.to_string_lossy().into()];
    if let Some(o) = order {
        let names: Vec<&str> = o.iter().map(|&i| NAMES[vars[i]]).collect();
        std::fs::write(&cf, json!({"order": names}).to_string()).map_err(|x| x.to_string())?;
        args.extend(["--ordering".into(), "manual".into(), "-c".into(), cf.to_string_lossy().into()]);
    }
    let a: Vec<&str> = args.iter().map(|s| s.as_str()).collect();
    let r = run_bin(&bins.join("bottomup_formula_to_bdd"), &a);
    if r.timed_out {
        return Err("bottomup_formula_to_bdd timed out".into());
    }
    if !r.ok {
        return Ok(Some(("formula-tool-failed".into(), format!("exit status != 0; stderr: {}", r.stderr.lines().last().unwrap_or("")))));
    }
    let v: Value = match serde_json::from_str(r.stdout.trim()) {
        Ok(v) => v,
        Err(x) => return Ok(Some(("formula-json".into(), format!("output is not JSON: {}", x)))),
    };
    match bdd_json_tt(&v, 0, n) {
        Ok(g) => {
            if g != t {
                Ok(Some(("formula-diagram".into(), format!("emitted diagram denotes {:#x}, the formula {:#x}", g, t))))
            } else {
                Ok(None)
            }
        }
        Err(x) => Ok(Some(("formula-json".into(), format!("node table unreadable: {}", x)))),
    }
}

fn dimacs_text(clauses: &[Clause], n: usize, style: usize) -> String {
    let mut s = String::new();
    if style % 2 == 1 {
        s.push_str("c generated by the harness\n");
    }
    s.push_str(&format!("p cnf {} {}\n", n, clauses.len()));
    for c in clauses {
        for &(v, p) in c {
            s.push_str(&format!("{}{} ", if p { "" } else { "-" }, v + 1));
        }
        s.push_str("0\n");
    }
    s
}

fn check_cnf_to_bdd(bins: &Path, dir: &Path, clauses: &[Clause], heuristic: &str) -> Result<Option<(String, String)>, String> {
    let n = num_vars(clauses);
    let t = tt::of_cnf(clauses, n);
    let f = dir.join("h.cnf");
    std::fs::write(&f, dimacs_text(clauses, n, 0)).map_err(|x| x.to_string())?;
    let fs = f.to_string_lossy().to_string();
    let r = run_bin(&bins.join("bottomup_cnf_to_bdd"), &["-f", &fs, "--order", heuristic]);
    if r.timed_out {
        return Err("bottomup_cnf_to_bdd timed out".into());
    }
    if !r.ok {
        return Ok(Some(("cnf-tool-failed".into(), format!("exit status != 0; stderr: {}", r.stderr.lines().last().unwrap_or("")))));
    }
    let v: Value = match serde_json::from_str(r.stdout.trim()) {
        Ok(v) => v,
        Err(x) => return Ok(Some(("cnf-json".into(), format!("output is not JSON: {}", x)))),
    };
    match bdd_json_tt(&v, 0, n) {
        Ok(g) => {
            if g != t {
                Ok(Some(("cnf-diagram".into(), format!("emitted diagram denotes {:#x}, the CNF {:#x}", g, t))))
            } else {
                Ok(None)
            }
        }
        Err(x) => Ok(Some(("cnf-json".into(), format!("node table unreadable: {}", x)))),
    }
}

#[derive(Clone)]
enum Case {
    Wmc(WmcCase),
    Formula(Ex, Option<Vec<usize>>),
    Cnf(Vec<Clause>, &'static str),
}

fn weight_products(n: usize) -> Vec<Vec<(f64, f64)>> {
    let mut out: Vec<Vec<(f64, f64)>> = vec![vec![]];
    for _ in 0..n {
        let mut nx = Vec::new();
        for w in out.iter() {
            for a in WALPHA.iter() {
                let mut x = w.clone();
                x.push(*a);
                nx.push(x);
            }
        }
        out = nx;
    }
    out
}

fn run_case(bins: &Path, dir: &Path, c: &Case) -> Result<Option<(String, String, Value)>, String> {
    match c {
        Case::Wmc(w) => Ok(check_wmc(bins, dir, w)?.map(|(k, t)| (k, format!("{} weights {:?} order {:?}: {}", w.expr.sexpr(), w.weights, w.order, t), wmc_case_json(w)))),
        Case::Formula(e, o) => Ok(check_formula_to_bdd(bins, dir, e, o)?.map(|(k, t)| (k, format!("{} order {:?}: {}", e.sexpr(), o, t), json!({"kind": "formula", "formula": e.sexpr(), "order": o})))),
        Case::Cnf(cl, h) => Ok(check_cnf_to_bdd(bins, dir, cl, h)?.map(|(k, t)| (k, format!("cnf {} --order {}: {}", cnf_json(cl), h, t), json!({"kind": "cnf", "cnf": cnf_json(cl), "heuristic": h})))),
    }
}

pub fn run(ctx: &Ctx) -> Report {
    let mut rep = Report::new(
        "every s-expression formula with <= k connectives over names {A,B,C} (7 node kinds, no constants) plus a family with skipped levels: weighted_model_count under every (low,high) weight product from {(1,2),(3,5),(0.5,0.5)} (rule-sliced for larger formulas) with no config and with every permutation as configured order; bottomup_formula_to_bdd linear and every manual order; bottomup_cnf_to_bdd on every CNF with <= 2 clauses (>= 1 clause, no empty clause) under both heuristics; printed counts compared exactly with brute force, JSON read by the harness's own reader; distinct = (tool, input, configuration); non-trivial = formula over >= 2 variables",
    );
    let bins = match build_bins() {
        Ok(b) => b,
        Err(e) => {
            rep.set_extra("engine_panic", json!(e));
            return rep;
        }
    };
    let kmax = ctx.tier.pick(2, 3);
    let mut cases: Vec<Case> = Vec::new();
    let mut all: Vec<Ex> = exprs_up_to(kmax, 3);
    // rule-defined family with skipped levels over 4-5 names
    for s in [
        "(Or (And (Var A) (Var B)) (Var C))",
        "(Or (Var A) (Var D))",
        "(And (Var B) (Or (Var D) (Not (Var E))))",
        "(Ite (Var C) (Var A) (Var E))",
        "(Xor (Var A) (Iff (Var C) (Var E)))",
        "(Or (And (Var A) (Var E)) (And (Var B) (Var D)))",
    ] {
        all.push(Ex::parse(s).unwrap());
    }
    // look-alike sub-formulas inside one formula: (outer T1 T2) where T2 applies T1's connective to a
    // rearrangement of T1's operands (sub-formula sharing keyed too coarsely confuses exactly these)
    if !crate::core::disabled("lookalike") {
        let names = ["A", "B", "C"];
        let var = |i: usize| format!("(Var {})", names[i]);
        let mut pairs: Vec<(String, String)> = Vec::new();
        for a in 0..3usize {
            for b in 0..3usize {
                if a == b {
                    continue;
                }
                for op in ["And", "Or", "Iff", "Xor"] {
                    pairs.push((format!("({} {} {})", op, var(a), var(b)), format!("({} {} {})", op, var(b), var(a))));
                    pairs.push((format!("({} {} (Not {}))", op, var(a), var(b)), format!("({} (Not {}) {})", op, var(a), var(b))));
                }
                for c in 0..3usize {
                    let t1 = format!("(Ite {} {} {})", var(a), var(b), var(c));
                    for (x, y, z) in [(a, c, b), (b, a, c), (b, c, a), (c, a, b), (c, b, a)] {
                        if (x, y, z) != (a, b, c) {
                            pairs.push((t1.clone(), format!("(Ite {} {} {})", var(x), var(y), var(z))));
                        }
                    }
                }
            }
        }
        let outers: Vec<&str> = if ctx.tier == Tier::Quick { vec!["Or", "Xor"] } else { vec!["And", "Or", "Iff", "Xor"] };
        for (k, (t1, t2)) in pairs.iter().enumerate() {
            let outer = outers[k % outers.len()];
            all.push(Ex::parse(&format!("({} {} {})", outer, t1, t2)).unwrap());
            if ctx.tier == Tier::Thorough {
                for o in outers.iter().filter(|o| **o != outer) {
                    all.push(Ex::parse(&format!("({} {} {})", o, t1, t2)).unwrap());
                }
            }
        }
    }
    // long chains: right- and left-nested And / Or / Xor with 4..8 operands cycling through
    // A, (Not B), C, (Not A), B, (Not C)
    {
        let operands = ["(Var A)", "(Not (Var B))", "(Var C)", "(Not (Var A))", "(Var B)", "(Not (Var C))"];
        for op in ["And", "Or", "Xor"] {
            for k in 4..=ctx.tier.pick(8, 12) {
                let mut right = operands[(k - 1) % 6].to_string();
                for i in (0..k - 1).rev() {
                    right = format!("({} {} {})", op, operands[i % 6], right);
                }
                let mut left = operands[0].to_string();
                for i in 1..k {
                    left = format!("({} {} {})", op, left, operands[i % 6]);
                }
                all.push(Ex::parse(&right).unwrap());
                all.push(Ex::parse(&left).unwrap());
            }
        }
    }
    // chains of 8 to 11 (thorough: 17) DISTINCT operands over six names: And / Iff chains of two-literal clauses,
    // Or / Xor chains of two-literal cubes, right- and left-nested: every operand matters for many of them, so
    // an operand lost by a re-association of long chains changes the count or the diagram
    if !crate::core::disabled("longchains") {
        let lit = |v: usize, p: bool| if p { format!("(Var {})", NAMES[v]) } else { format!("(Not (Var {}))", NAMES[v]) };
        let operand = |i: usize, inner: &str| {
            let a = i % 6;
            let mut b = (i * 2 + 1 + i / 6) % 6;
            if b == a {
                b = (b + 1) % 6;
            }
            format!("({} {} {})", inner, lit(a, i & 1 == 0), lit(b, (i / 2) & 1 == 0))
        };
        for (op, inner) in [("And", "Or"), ("Iff", "Or"), ("Or", "And"), ("Xor", "And")] {
            for k in 8..=ctx.tier.pick(11, 17) {
                for shift in [0usize, 5] {
                    let ops: Vec<String> = (0..k).map(|i| operand(i + shift, inner)).collect();
                    let mut right = ops[k - 1].clone();
                    for i in (0..k - 1).rev() {
                        right = format!("({} {} {})", op, ops[i], right);
                    }
                    let mut left = ops[0].clone();
                    for o in ops.iter().skip(1) {
                        left = format!("({} {} {})", op, left, o);
                    }
                    all.push(Ex::parse(&right).unwrap());
                    if shift == 0 {
                        all.push(Ex::parse(&left).unwrap());
                    }
                }
            }
        }
    }
    for (i, e) in all.iter().enumerate() {
        let n = e.vars().len();
        let perms = permutations(n);
        let wp = weight_products(n);
        // size-0/1 formulas: full weight product x (none + every order); larger: rule-defined slice
        let small = i < 3 + 66 || ctx.tier == Tier::Thorough && i < 3 + 66 + 400;
        let wsel: Vec<Vec<(f64, f64)>> = if small { wp.clone() } else { vec![wp[(i * 7) % wp.len()].clone(), wp[(i * 13 + 5) % wp.len()].clone()] };
        for (wi, w) in wsel.iter().enumerate() {
            if small || wi == 0 {
                cases.push(Case::Wmc(WmcCase { expr: e.clone(), weights: w.clone(), order: None }));
            }
            if small {
                for p in perms.iter() {
                    cases.push(Case::Wmc(WmcCase { expr: e.clone(), weights: w.clone(), order: Some(p.clone()) }));
                }
            } else {
                let p = &perms[(i + wi) % perms.len()];
                cases.push(Case::Wmc(WmcCase { expr: e.clone(), weights: w.clone(), order: Some(p.clone()) }));
            }
        }
        cases.push(Case::Formula(e.clone(), None));
        if small {
            for p in perms.iter() {
                cases.push(Case::Formula(e.clone(), Some(p.clone())));
            }
        } else {
            cases.push(Case::Formula(e.clone(), Some(perms[i % perms.len()].clone())));
        }
    }
    // CNF converter
    let types = clause_types(3);
    let mut ms = multisets(64, 2);
    if ctx.tier == Tier::Quick {
        ms = ms.into_iter().step_by(3).collect();
    }
    for s in ms {
        let cl: Vec<Clause> = s.iter().map(|&i| types[i].clone()).collect();
        // (a text needs at least one variable; FORCE is only defined without empty clauses)
        if cl.is_empty() || num_vars(&cl) == 0 {
            continue;
        }
        cases.push(Case::Cnf(cl.clone(), "auto_minfill"));
        if !cl.iter().any(|c| c.is_empty()) {
            cases.push(Case::Cnf(cl, "auto_force"));
        }
    }
    // long CNF inputs: clauses with up to k literals, lists of up to k unit clauses
    for cl in long_lists(ctx.tier.pick(8, 12)) {
        cases.push(Case::Cnf(cl.clone(), "auto_minfill"));
        cases.push(Case::Cnf(cl, "auto_force"));
    }
    ctx.rotate(&mut cases);
    let total_cases = cases.len();
    let chunks: Vec<&[Case]> = cases.chunks(64).collect();
    let base = bin_dir().join("run");
    let r = par_run(ctx, &chunks, |ci, chunk| {
        let mut r = Report::default();
        r.exhaustive = true;
        let dir = base.join(format!("{}-{}", std::process::id(), ci));
        let _ = std::fs::create_dir_all(&dir);
        for c in chunk.iter() {
            r.transitions += 1;
            r.traces += 1;
            r.states += 1;
            match c {
                Case::Wmc(w) => {
                    r.add_extra("wmc_runs", 1);
                    if w.expr.vars().len() >= 2 {
                        r.distinct_nontrivial += 1;
                    }
                }
                Case::Formula(e, _) => {
                    r.add_extra("formula_to_bdd_runs", 1);
                    if e.vars().len() >= 2 {
                        r.distinct_nontrivial += 1;
                    }
                }
                Case::Cnf(_, _) => {
                    r.add_extra("cnf_to_bdd_runs", 1);
                    r.distinct_nontrivial += 1;
                }
            }
            match run_case(&bins, &dir, c) {
                Ok(None) => (),
                Ok(Some((k, w, j))) => r.violation(format!("cli:{}", k), w, j),
                Err(e) => r.cap(format!("subprocess cap: {}", e)),
            }
            if r.n_violations > 16 {
                break;
            }
        }
        let _ = std::fs::remove_dir_all(&dir);
        r
    });
    rep.merge(r);
    rep.evaluations = rep.transitions;
    rep.bound("formulas", json!({"max_connectives": kmax, "names": ["A", "B", "C"], "count": all.len(), "cases": total_cases}));
    rep.sample(json!({"tool": "weighted_model_count", "formula": "(Or (And (Var A) (Var B)) (Var C))", "weights": {"A": [1, 2], "B": [3, 5], "C": [0.5, 0.5]}, "order": ["C", "A", "B"]}));
    rep.assumptions.push("single-count mode only; every variable of the formula has a weight and weight files name no other variable (the statement speaks about the formula's variables)".into());
    rep.assumptions.push("weights are exactly representable, Rust prints the shortest round-tripping decimal, so printed counts are compared with ==".into());
    rep.assumptions.push("binaries are the dev-profile build of /repo's working tree with --features cli (target dir /verif/mc/target/cli)".into());
    rep
}

pub fn replay(_ctx: &Ctx, case: &Value) -> Report {
    let mut rep = Report::default();
    let bins = match build_bins() {
        Ok(b) => b,
        Err(e) => {
            rep.set_extra("engine_panic", json!(e));
            return rep;
        }
    };
    let dir = bin_dir().join("run").join(format!("replay-{}", std::process::id()));
    let _ = std::fs::create_dir_all(&dir);
    let order = |v: &Value| -> Option<Vec<usize>> { v.as_array().map(|a| a.iter().filter_map(|x| x.as_u64()).map(|x| x as usize).collect()) };
    let c = match case["kind"].as_str() {
        Some("wmc") => Ex::parse(case["formula"].as_str().unwrap_or("")).map(|e| {
            Case::Wmc(WmcCase {
                expr: e,
                weights: case["weights"].as_array().map(|a| a.iter().map(|w| (w[0].as_f64().unwrap_or(1.0), w[1].as_f64().unwrap_or(1.0))).collect()).unwrap_or_default(),
                order: order(&case["order"]),
            })
        }),
        Some("formula") => Ex::parse(case["formula"].as_str().unwrap_or("")).map(|e| Case::Formula(e, order(&case["order"]))),
        Some("cnf") => Some(Case::Cnf(cnf_from_json(&case["cnf"]), if case["heuristic"].as_str() == Some("auto_force") { "auto_force" } else { "auto_minfill" })),
        _ => None,
    };
    if let Some(c) = c {
        if let Ok(Some((k, w, j))) = run_case(&bins, &dir, &c) {
            rep.violation(format!("cli:{}", k), w, j);
        }
    }
    let _ = std::fs::remove_dir_all(&dir);
    rep
}
