//! C12 – marginal MAP, MEU and the generic branch-and-bound return true optima.
//! Input-space enumeration: functions x orders x ordered query lists x weight products,
//! oracle = exhaustive maximisation from the truth table in exact dyadic arithmetic.

use crate::core::*;
use crate::props::bddutil::*;
use crate::tt::{self, TT};
use crate::walk::*;
use rsdd::repr::{PartialModel, VarLabel, WmcParams};
use rsdd::util::semirings::{ExpectedUtility, RealSemiring};
use serde_json::{json, Value};
use std::collections::HashMap;

type W2 = (f64, f64);

/// count of a function under arbitrary weights, summing only over the variables each
/// sub-function depends on (what an unsmoothed count of the reduced diagram gives)
fn dep_real(f: TT, n: usize, order: &[usize], pos: usize, w: &[W2]) -> f64 {
    if f == 0 {
        return 0.0;
    }
    if f == tt::mask(n) {
        return 1.0;
    }
    let mut p = pos;
    while !tt::depends_on(f, order[p], n) {
        p += 1;
    }
    let v = order[p];
    w[v].0 * dep_real(tt::cofactor(f, v, false, n), n, order, p + 1, w) + w[v].1 * dep_real(tt::cofactor(f, v, true, n), n, order, p + 1, w)
}

/// the same in the expected-utility semiring: values are (probability, expected utility)
fn dep_eu(f: TT, n: usize, order: &[usize], pos: usize, w: &[(W2, W2)]) -> W2 {
    if f == 0 {
        return (0.0, 0.0);
    }
    if f == tt::mask(n) {
        return (1.0, 0.0);
    }
    let mut p = pos;
    while !tt::depends_on(f, order[p], n) {
        p += 1;
    }
    let v = order[p];
    let lo = dep_eu(tt::cofactor(f, v, false, n), n, order, p + 1, w);
    let hi = dep_eu(tt::cofactor(f, v, true, n), n, order, p + 1, w);
    let mul = |a: W2, b: W2| -> W2 { (a.0 * b.0, a.0 * b.1 + a.1 * b.0) };
    let (l, h) = (mul(w[v].0, lo), mul(w[v].1, hi));
    (l.0 + h.0, l.1 + h.1)
}

fn restrict(f: TT, n: usize, q: &[usize], bits: usize) -> TT {
    let mut g = f;
    for (i, &v) in q.iter().enumerate() {
        g = tt::cofactor(g, v, (bits >> i) & 1 == 1, n);
    }
    g
}

/// ordered lists of distinct variables (every subset in every order)
fn query_lists(n: usize) -> Vec<Vec<usize>> {
    let mut out = vec![vec![]];
    let mut level: Vec<Vec<usize>> = vec![vec![]];
    for _ in 0..n {
        let mut next = Vec::new();
        for l in level.iter() {
            for v in 0..n {
                if !l.contains(&v) {
                    let mut x = l.clone();
                    x.push(v);
                    next.push(x);
                }
            }
        }
        out.extend(next.iter().cloned());
        level = next;
    }
    out
}

fn model_bits(m: &PartialModel, q: &[usize], n: usize) -> Result<usize, String> {
    let mut bits = 0;
    for v in 0..n {
        let g = m.get(VarLabel::new(v as u64));
        match (q.iter().position(|&x| x == v), g) {
            (Some(i), Some(b)) => {
                if b {
                    bits |= 1 << i;
                }
            }
            (Some(_), None) => return Err(format!("returned assignment leaves query variable {} unassigned", v)),
            (None, Some(_)) => return Err(format!("returned assignment assigns variable {} which is not a query variable", v)),
            (None, None) => (),
        }
    }
    Ok(bits)
}

const QW: [W2; 4] = [(0.25, 0.75), (1.0, 0.5), (0.0, 1.0), (0.5, 0.5)];
const PW: [W2; 4] = [(0.25, 0.75), (0.5, 0.5), (1.0, 0.0), (0.75, 0.25)];
/// (probability of true, utility when true)
const UW: [W2; 4] = [(0.5, 0.0), (0.25, 2.0), (0.5, 5.0), (1.0, 1.0)];

pub struct Case {
    pub n: usize,
    pub order: Vec<usize>,
    pub f: TT,
    pub q: Vec<usize>,
    pub wcode: usize,
}

fn case_json(c: &Case, alg: &str) -> Value {
    json!({"kind": "optimise", "algorithm": alg, "n": c.n, "order": c.order, "function": format!("{:#x}", c.f), "query": c.q, "weight_code": c.wcode})
}

/// check the four algorithms on one instance; returns (algorithm, message)
/// long-lived weight tables of one sweep: re-weighted in place with set_weight before every case
/// instead of being created anew (a count or bound remembered on the nodes under a table's identity
/// goes stale exactly then: query, change a weight in place, query the same diagram again)
pub struct LiveTables {
    real: WmcParams<RealSemiring>,
    eu: WmcParams<ExpectedUtility>,
    /// what the harness has written so far (label -> weights)
    shadow: Vec<Option<(f64, f64)>>,
}

impl LiveTables {
    pub fn new() -> LiveTables {
        LiveTables { real: WmcParams::default(), eu: WmcParams::default(), shadow: Vec::new() }
    }
}

fn check_case<'a>(b: &'a AllBuilder<'a>, c: &Case, evals: &mut u64) -> Option<(String, String)> {
    check_case_live(b, c, evals, None)
}

fn check_case_live<'a>(b: &'a AllBuilder<'a>, c: &Case, evals: &mut u64, live: Option<&mut LiveTables>) -> Option<(String, String)> {
    let n = c.n;
    let p = build_bdd(b, c.f, n);
    if bdd_tt(p, n) != c.f {
        return None;
    }
    let levels = levels_of(&c.order);
    let qvars: Vec<VarLabel> = c.q.iter().map(|&v| VarLabel::new(v as u64)).collect();
    // ---- real-valued: marginal MAP and bb<Real> ----
    let mut w: Vec<W2> = Vec::new();
    let mut code = c.wcode;
    for v in 0..n {
        if c.wcode >= 1000 {
            // tie-prone schemes: many equal values, so that branch bounds tie exactly
            let isq = c.q.contains(&v);
            w.push(match c.wcode - 1000 {
                0 => (0.5, 0.5),
                1 => {
                    if isq {
                        (1.0, 1.0)
                    } else {
                        (0.5, 0.5)
                    }
                }
                _ => {
                    if isq {
                        (0.5, 1.0)
                    } else {
                        (0.25, 0.75)
                    }
                }
            });
            continue;
        }
        let k = code % 4;
        code /= 4;
        w.push(if c.q.contains(&v) { QW[k] } else { PW[k] });
    }
    let mut best = f64::NEG_INFINITY;
    let mut vals: Vec<f64> = Vec::new();
    for bits in 0..(1usize << c.q.len()) {
        let g = restrict(c.f, n, &c.q, bits);
        let mut val = dep_real(g, n, &c.order, 0, &w);
        for (i, &v) in c.q.iter().enumerate() {
            val *= if (bits >> i) & 1 == 1 { w[v].1 } else { w[v].0 };
        }
        vals.push(val);
        if val > best {
            best = val;
        }
    }
    let fresh_params: WmcParams<RealSemiring> = WmcParams::new(w.iter().enumerate().map(|(v, &(l, h))| (VarLabel::new(v as u64), (RealSemiring(l), RealSemiring(h)))).collect::<HashMap<_, _>>());
    // ---- expected utility: meu and bb<ExpectedUtility> ----
    // utilities only on variables ordered after every decision variable
    let last_decision_level = c.q.iter().map(|&v| levels[v]).max();
    let mut we: Vec<(W2, W2)> = Vec::new();
    let mut code = c.wcode;
    for v in 0..n {
        let k = code % 4;
        code /= 4;
        if c.q.contains(&v) {
            we.push(((1.0, 0.0), (1.0, 0.0)));
        } else if c.wcode >= 1000 {
            let allowed = match last_decision_level {
                None => true,
                Some(l) => levels[v] > l,
            };
            let (pt, u) = match c.wcode - 1000 {
                0 => (0.5, 4.0),
                1 => (0.5, if levels[v] == n - 1 { 4.0 } else { 0.0 }),
                _ => (if levels[v] % 2 == 0 { 0.75 } else { 0.25 }, if levels[v] % 2 == 1 { 2.0 } else { 0.0 }),
            };
            let u = if allowed { u } else { 0.0 };
            we.push(((1.0 - pt, 0.0), (pt, pt * u)));
        } else {
            let (pt, u) = UW[k];
            let allowed = match last_decision_level {
                None => true,
                Some(l) => levels[v] > l,
            };
            let u = if allowed { u } else { 0.0 };
            // reward on the negative literal as well for two of the four alphabet entries
            // (a chance variable whose false outcome pays): utilities stay non-negative
            let ulow = if allowed { [3.0, 0.0, 1.0, 0.0][k] } else { 0.0 };
            we.push(((1.0 - pt, (1.0 - pt) * ulow), (pt, pt * u)));
        }
    }
    let mut best_eu = f64::NEG_INFINITY;
    let mut evals_eu: Vec<W2> = Vec::new();
    for bits in 0..(1usize << c.q.len()) {
        let g = restrict(c.f, n, &c.q, bits);
        let val = dep_eu(g, n, &c.order, 0, &we);
        evals_eu.push(val);
        if val.1 > best_eu {
            best_eu = val.1;
        }
    }
    let fresh_params_eu: WmcParams<ExpectedUtility> = WmcParams::new(
        we.iter().enumerate().map(|(v, &(l, h))| (VarLabel::new(v as u64), (ExpectedUtility(l.0, l.1), ExpectedUtility(h.0, h.1)))).collect::<HashMap<_, _>>(),
    );
    let (params, params_eu): (&WmcParams<RealSemiring>, &WmcParams<ExpectedUtility>) = match live {
        Some(lt) => {
            // only the entries that differ are written (the usual way to update a table)
            for (v, &(l, h)) in w.iter().enumerate() {
                let lbl = VarLabel::new(v as u64);
                if lt.shadow.len() <= v {
                    lt.shadow.resize(v + 1, None);
                }
                if lt.shadow[v] != Some((l, h)) {
                    lt.real.set_weight(lbl, RealSemiring(l), RealSemiring(h));
                    lt.shadow[v] = Some((l, h));
                }
            }
            for (v, &(l, h)) in we.iter().enumerate() {
                lt.eu.set_weight(VarLabel::new(v as u64), ExpectedUtility(l.0, l.1), ExpectedUtility(h.0, h.1));
            }
            (&lt.real, &lt.eu)
        }
        None => (&fresh_params, &fresh_params_eu),
    };
    // the four algorithms run in an order that rotates with the case, so that the last query on
    // one diagram and the first query on the next (which shares nodes with it inside the
    // long-lived builder) are of the same kind as often as of different kinds
    let mut algs = ["marginal_map", "bb<RealSemiring>", "meu", "bb<ExpectedUtility>"];
    let rot = ((c.f as usize) ^ c.wcode ^ c.q.len()) % 8;
    algs.rotate_left(rot % 4);
    if rot >= 4 {
        algs.reverse();
    }
    for alg in algs {
        if alg == "marginal_map" || alg == "bb<RealSemiring>" {
            *evals += 1;
            let r = guarded(|| {
                if alg == "marginal_map" {
                    p.marginal_map(&qvars, n, params)
                } else {
                    let (v, m) = p.bb(&qvars, n, params);
                    (v.0, m)
                }
            });
            match r {
                Err(e) => return Some((alg.into(), format!("panicked: {}", e))),
                Ok((val, m)) => {
                    if val != best {
                        return Some((alg.into(), format!("returns {}, the maximum over the {} query assignments is {} (values {:?}, weights {:?})", val, vals.len(), best, vals, w)));
                    }
                    match model_bits(&m, &c.q, n) {
                        Err(e) => return Some((alg.into(), e)),
                        Ok(bits) => {
                            if vals[bits] != best {
                                return Some((alg.into(), format!("returned assignment {:#b} has value {}, not the reported optimum {}", bits, vals[bits], best)));
                            }
                        }
                    }
                    if !p.is_scratch_cleared() {
                        return Some((alg.into(), "left scratch data on the diagram".into()));
                    }
                }
            }
        } else {
            *evals += 1;
            let r = guarded(|| if alg == "meu" { p.meu(&qvars, n, params_eu) } else { p.bb(&qvars, n, params_eu) });
            match r {
                Err(e) => return Some((alg.into(), format!("panicked: {}", e))),
                Ok((val, m)) => {
                    if val.1 != best_eu {
                        return Some((alg.into(), format!("returns expected utility {}, the maximum over the decision assignments is {} (values {:?}, weights {:?})", val.1, best_eu, evals_eu, we)));
                    }
                    match model_bits(&m, &c.q, n) {
                        Err(e) => return Some((alg.into(), e)),
                        Ok(bits) => {
                            if evals_eu[bits].1 != best_eu {
                                return Some((alg.into(), format!("returned decision {:#b} has expected utility {}, not the reported optimum {}", bits, evals_eu[bits].1, best_eu)));
                            }
                            if evals_eu[bits].0 != val.0 && evals_eu.iter().filter(|e| e.1 == best_eu).count() == 1 {
                                return Some((alg.into(), format!("returned probability component {} differs from the attained one {}", val.0, evals_eu[bits].0)));
                            }
                        }
                    }
                }
            }
        }
    }
    None
}

fn run_order(n: usize, order: &[usize], ctx: &Ctx, fstep: usize, wstep: usize) -> Report {
    let mut rep = Report::default();
    rep.exhaustive = true;
    let b = small_builder(order, 2);
    let total = 1u64 << (1u64 << n);
    let qs = query_lists(n);
    let nw = 4usize.pow(n as u32);
    let mut f = 0u64;
    let mut live = LiveTables::new();
    let odig: usize = order.iter().enumerate().map(|(i, v)| i * v).sum();
    while f < total {
        // every second function (every function in thorough, in both ways) is queried with the sweep's
        // long-lived tables, re-weighted in place between the cases
        let modes: Vec<bool> = if ctx.tier == Tier::Thorough { vec![false, true] } else { vec![((f / fstep as u64) as usize + odig) % 2 == 0] };
        for use_live in modes {
        for q in qs.iter() {
            let mut wc = (f as usize) % wstep;
            while wc < nw {
                let c = Case { n, order: order.to_vec(), f, q: q.clone(), wcode: wc };
                let mut ev = 0;
                rep.transitions += 1;
                if use_live {
                    rep.add_extra("cases_with_tables_reweighted_in_place", 1);
                }
                if rep.transitions % 5 == 2 {
                    crate::props::bddutil::interloper(rep.transitions as usize / 5);
                }
                if let Some((alg, what)) = check_case_live(&b, &c, &mut ev, if use_live && !crate::core::disabled("live") { Some(&mut live) } else { None }) {
                    rep.violation(format!("optimum:{}", alg), format!("{} on f={:#x} order {:?} query {:?}: {}", alg, f, order, q, what), case_json(&c, &alg));
                }
                rep.evaluations += ev;
                wc += wstep;
            }
        }
        }
        rep.states += 1;
        if rep.n_violations > 24 {
            break;
        }
        if f % 64 == 0 && ctx.over_time() {
            rep.cap("wall-clock cap inside the optimisation sweep");
            break;
        }
        f += fstep as u64;
    }
    rep.traces = rep.transitions;
    rep
}

pub fn run(ctx: &Ctx) -> Report {
    let mut rep = Report::new(
        "every Boolean function of n variables (n <= 3; n = 4 in thorough) x every variable order x every ordered list of distinct query/decision variables (incl. empty, all, variables the function ignores) x the product of a 4-element dyadic weight alphabet per variable (probabilities with low+high = 1 on non-query variables, arbitrary pairs in [0,1] on query variables; MEU: unit weight on decisions, (p, p*u) utilities u in {0,1,2,5} only on variables ordered after every decision variable); marginal_map, bb<Real>, meu, bb<ExpectedUtility> against exhaustive maximisation from the truth table in exact arithmetic; distinct = (function, order, query list, weights)",
    );
    let mut items: Vec<(usize, Vec<usize>, usize, usize)> = Vec::new();
    match ctx.tier {
        Tier::Quick => {
            for n in 1..=3 {
                for o in permutations(n) {
                    items.push((n, o, 1, if n == 3 { 5 } else { 1 }));
                }
            }
        }
        Tier::Thorough => {
            for n in 1..=3 {
                for o in permutations(n) {
                    items.push((n, o, 1, 1));
                }
            }
            for o in permutations(4) {
                items.push((4, o, 7, 37));
            }
        }
    }
    items.reverse();
    let r = par_run(ctx, &items, |_, (n, o, fs, ws)| run_order(*n, o, ctx, *fs, *ws));
    rep.merge(r);
    // tie regime: every function of 4 variables under the identity order (any other order is the
    // same instance up to renaming the variables of the function) and one non-identity order,
    // every ordered query list of <= 3 (quick) / <= 4 (thorough) variables, three weight schemes
    // built from few distinct values so that branch bounds tie exactly
    let chunks: Vec<(u64, Vec<usize>)> = (0..64u64).flat_map(|c| vec![(c, vec![0usize, 1, 2, 3]), (c, vec![2usize, 0, 3, 1])]).collect();
    let maxq = ctx.tier.pick(3, 4);
    let ties = par_run(ctx, &chunks, |_, (c, order)| {
        let mut rep = Report::default();
        rep.exhaustive = true;
        let n = 4;
        let b = small_builder(order, 2);
        let qs: Vec<Vec<usize>> = query_lists(n).into_iter().filter(|q| q.len() <= maxq).collect();
        let identity = order.iter().enumerate().all(|(i, &v)| i == v);
        let mut f = c * 1024;
        while f < (c + 1) * 1024 {
            if identity || f % 8 == 3 {
                for q in qs.iter() {
                    for scheme in 0..3usize {
                        let case = Case { n, order: order.clone(), f, q: q.clone(), wcode: 1000 + scheme };
                        let mut ev = 0;
                        rep.transitions += 1;
                        if let Some((alg, what)) = check_case(&b, &case, &mut ev) {
                            rep.violation(format!("optimum:{}", alg), format!("{} on f={:#x} order {:?} query {:?} tie scheme {}: {}", alg, f, order, q, scheme, what), case_json(&case, &alg));
                        }
                        rep.evaluations += ev;
                    }
                }
                rep.states += 1;
            }
            if rep.n_violations > 8 || (f % 256 == 0 && ctx.over_time()) {
                break;
            }
            f += 1;
        }
        rep.traces = rep.transitions;
        rep
    });
    rep.add_extra("tie_regime_instances", ties.transitions);
    rep.bound("tie_regime", json!({"variables": 4, "functions": "all 65 536 (identity order) + every 8th (order [2,0,3,1])", "query_lists": format!("all ordered lists of <= {} distinct variables", maxq), "weight_schemes": 3}));
    rep.merge(ties);
    rep.distinct_nontrivial = rep.transitions;
    rep.bound("functions", json!(match ctx.tier { Tier::Quick => "all of F(1..3); every 5th weighting (rotating with the function) for n = 3", Tier::Thorough => "all of F(1..3) with all 64 weightings; every 7th function of F(4) with every 37th weighting" }));
    rep.sample(json!({"function": "0xe8", "order": [1, 0, 2], "query": [2, 0], "weights": {"x0": [0.0, 1.0], "x1": [0.5, 0.5], "x2": [1.0, 0.5]}}));
    rep.assumptions.push("dyadic weights keep all f64 products and sums exact, so optima are compared with == and the strict-improvement pruning is decidable".into());
    rep.assumptions.push("'weighted count of the restricted function' is the count over the variables the restricted function depends on (C07), times the query literals' own weights for marginal MAP / bb".into());
    // wide managers: labels that collide modulo 32 / 64 and straddle 2^5 .. 2^8 (wide.rs)
    if !disabled("wide") {
        let w = crate::props::wide::optimum(ctx);
        rep.merge(w);
    }
    rep
}

pub fn replay(_ctx: &Ctx, case: &Value) -> Report {
    if let Some(r) = crate::props::wide::replay(_ctx, case) {
        return r;
    }
    let mut rep = Report::default();
    let arr = |v: &Value| -> Vec<usize> { v.as_array().map(|a| a.iter().filter_map(|x| x.as_u64()).map(|x| x as usize).collect()).unwrap_or_default() };
    let c = Case {
        n: case["n"].as_u64().unwrap_or(3) as usize,
        order: arr(&case["order"]),
        f: u64::from_str_radix(case["function"].as_str().unwrap_or("0x0").trim_start_matches("0x"), 16).unwrap_or(0),
        q: arr(&case["query"]),
        wcode: case["weight_code"].as_u64().unwrap_or(0) as usize,
    };
    let b = small_builder(&c.order, 2);
    let mut ev = 0;
    if let Some((alg, what)) = check_case(&b, &c, &mut ev) {
        rep.violation(format!("optimum:{}", alg), what, case.clone());
    }
    rep
}
