//! C18 – the C ABI is a faithful wrapper of the Rust operations.
//! Call histories through the real exported `extern "C"` symbols (declared here, resolved
//! by the linker against the `ffi` build of rsdd) in lock step with the native calls.

use crate::core::*;
use crate::enumerate::*;
use crate::props::bddutil::small_builder;
use crate::tt::{self, TT};
use crate::walk::*;
use rsdd::builder::bdd::RobddBuilder;
use rsdd::builder::cache::AllIteTable;
use rsdd::builder::BottomUpBuilder;
use rsdd::repr::{BddPtr, Cnf, DDNNFPtr, DTree, Literal, SddPtr, VTree, VarLabel, VarOrder, WmcParams};
use rsdd::serialize::BDDSerializer;
use rsdd::util::semirings::{Complex, Polynomial, RealSemiring, Semiring};
use serde_json::{json, Value};
use std::ffi::{c_char, c_void, CStr, CString};

type CB = *mut BddPtr<'static>;

#[repr(C)]
#[derive(Clone, Copy)]
struct WeightF64(f64, f64);
#[repr(C)]
#[derive(Clone, Copy)]
struct WeightComplex(Complex, Complex);
#[repr(C)]
struct WeightPoly {
    low: *mut Polynomial<RealSemiring>,
    high: *mut Polynomial<RealSemiring>,
}
#[repr(C)]
struct CClause {
    vars: *mut Literal,
    len: usize,
}

#[allow(improper_ctypes)]
extern "C" {
    fn mk_bdd_manager_default_order(num_vars: u64) -> *mut c_void;
    fn free_bdd_manager(mgr: *mut c_void);
    fn bdd_var(b: *mut c_void, label: u64, polarity: bool) -> CB;
    fn bdd_new_var(b: *mut c_void, polarity: bool) -> CB;
    fn bdd_new_label(b: *mut c_void) -> u64;
    fn bdd_ite(b: *mut c_void, f: CB, g: CB, h: CB) -> CB;
    fn bdd_and(b: *mut c_void, l: CB, r: CB) -> CB;
    fn bdd_or(b: *mut c_void, l: CB, r: CB) -> CB;
    fn bdd_negate(b: *mut c_void, f: CB) -> CB;
    fn bdd_compose(b: *mut c_void, f: CB, l: u64, g: CB) -> CB;
    fn bdd_true(b: *mut c_void) -> CB;
    fn bdd_false(b: *mut c_void) -> CB;
    fn bdd_eq(b: *mut c_void, l: CB, r: CB) -> bool;
    fn bdd_is_true(f: CB) -> bool;
    fn bdd_is_false(f: CB) -> bool;
    fn bdd_is_const(f: CB) -> bool;
    fn bdd_topvar(f: CB) -> u64;
    fn bdd_low(f: CB) -> CB;
    fn bdd_high(f: CB) -> CB;
    fn bdd_count_nodes(f: CB) -> usize;
    fn bdd_scratch(f: CB, default: usize) -> usize;
    fn bdd_set_scratch(f: CB, val: usize);
    fn bdd_clear_scratch(f: CB);
    fn robdd_model_count(b: *mut c_void, f: CB) -> u64;
    fn bdd_to_json(f: CB) -> *const c_char;
    fn print_bdd(f: CB) -> *const c_char;
    fn bdd_num_recursive_calls(b: *mut c_void) -> usize;
    fn bdd_wmc(f: CB, w: *mut c_void) -> f64;
    fn bdd_wmc_complex(f: CB, w: *mut c_void) -> Complex;
    fn bdd_wmc_poly(f: CB, w: *mut c_void) -> *mut Polynomial<RealSemiring>;
    fn new_wmc_params_f64() -> *mut c_void;
    fn free_wmc_params_f64(w: *mut c_void);
    fn new_wmc_params_complex() -> *mut c_void;
    fn free_wmc_params_complex(w: *mut c_void);
    fn wmc_param_f64_set_weight(w: *mut c_void, var: u64, low: f64, high: f64);
    fn wmc_param_complex_set_weight(w: *mut c_void, var: u64, low: Complex, high: Complex);
    fn wmc_param_f64_var_weight(w: *mut c_void, var: u64) -> WeightF64;
    fn weight_f64_lo(w: WeightF64) -> f64;
    fn weight_f64_hi(w: WeightF64) -> f64;
    fn wmc_param_complex_var_weight(w: *mut c_void, var: u64) -> WeightComplex;
    fn weight_complex_lo(w: WeightComplex) -> Complex;
    fn weight_complex_hi(w: WeightComplex) -> Complex;
    fn new_polynomial(coeffs: *const f64, len: usize) -> *mut Polynomial<RealSemiring>;
    fn destroy_polynomial(p: *mut Polynomial<RealSemiring>);
    fn new_wmc_params_poly() -> *mut c_void;
    fn destroy_wmc_params_poly(w: *mut c_void);
    fn wmc_param_poly_set_weight(w: *mut c_void, var: u64, lc: *const f64, ll: usize, hc: *const f64, hl: usize);
    fn wmc_param_poly_var_weight(w: *mut c_void, var: u64) -> WeightPoly;
    fn polynomial_len(p: *mut Polynomial<RealSemiring>) -> usize;
    fn polynomial_get_coeffs(p: *mut Polynomial<RealSemiring>, buf: *mut f64, max_len: usize) -> usize;
    // constructors of inputs
    fn var_order_linear(n: usize) -> *const VarOrder;
    fn var_order_new(order: *const u64, len: usize) -> *mut VarOrder;
    fn literal_new(label: u64, polarity: bool) -> Literal;
    fn cnf_new(clauses: *const CClause, len: usize) -> *mut Cnf;
    fn cnf_from_dimacs(s: *const c_char) -> *const Cnf;
    fn cnf_min_fill_order(cnf: *mut Cnf) -> *mut VarOrder;
    fn robdd_builder_all_table(order: *mut VarOrder) -> *mut c_void;
    fn robdd_builder_compile_cnf(b: *mut c_void, cnf: *mut Cnf) -> CB;
    fn dtree_from_cnf(cnf: *const Cnf, elim: *const VarOrder) -> *mut DTree;
    fn vtree_from_dtree(d: *const DTree) -> *mut VTree;
    fn sdd_builder_new(vtree: *mut VTree) -> *mut c_void;
    fn sdd_builder_compile_cnf(b: *const c_void, cnf: *const Cnf) -> *mut SddPtr<'static>;
    fn sdd_wmc(s: *const SddPtr<'static>, w: *const c_void) -> f64;
    fn ddnnf_builder_new(order: *mut VarOrder) -> *mut c_void;
    fn ddnnf_builder_compile_cnf_topdown(b: *const c_void, cnf: *const Cnf) -> CB;
}

type NB<'a> = RobddBuilder<'a, AllIteTable<BddPtr<'a>>>;

struct Weights {
    cf: *mut c_void,
    cc: *mut c_void,
    cp: *mut c_void,
    nf: WmcParams<RealSemiring>,
    nc: WmcParams<Complex>,
    np: WmcParams<Polynomial<RealSemiring>>,
}

fn poly_of(c: &[f64]) -> Polynomial<RealSemiring> {
    let mut p = Polynomial::<RealSemiring>::zero();
    for (i, v) in c.iter().enumerate().take(32) {
        p.coefficients[i] = RealSemiring(*v);
    }
    p.len = c.len().min(32);
    p
}

unsafe fn make_weights(n: usize, rep: &mut Report) -> Weights {
    let (cf, cc, cp) = (new_wmc_params_f64(), new_wmc_params_complex(), new_wmc_params_poly());
    let mut nf: WmcParams<RealSemiring> = WmcParams::default();
    let mut nc: WmcParams<Complex> = WmcParams::default();
    let mut np: WmcParams<Polynomial<RealSemiring>> = WmcParams::default();
    let wr = [(0.25, 0.75), (1.0, 2.0), (0.5, 0.5), (3.0, 0.5), (0.125, 0.875)];
    for v in 0..n {
        let (l, h) = wr[v % wr.len()];
        wmc_param_f64_set_weight(cf, v as u64, l, h);
        nf.set_weight(VarLabel::new(v as u64), RealSemiring(l), RealSemiring(h));
        let (cl, ch) = (Complex { re: l, im: 0.5 }, Complex { re: h, im: -0.5 });
        wmc_param_complex_set_weight(cc, v as u64, cl, ch);
        nc.set_weight(VarLabel::new(v as u64), cl, ch);
        let (pl, ph): (Vec<f64>, Vec<f64>) = (vec![1.0, -1.0 * (v as f64 + 1.0)], vec![0.0, v as f64 + 1.0, 0.5]);
        wmc_param_poly_set_weight(cp, v as u64, pl.as_ptr(), pl.len(), ph.as_ptr(), ph.len());
        np.set_weight(VarLabel::new(v as u64), poly_of(&pl), poly_of(&ph));
        // round trips of the weight tables
        rep.evaluations += 3;
        let w = wmc_param_f64_var_weight(cf, v as u64);
        if weight_f64_lo(w) != l || weight_f64_hi(w) != h {
            rep.violation("ffi:weight-table", format!("f64 weight of variable {} reads back as ({}, {})", v, weight_f64_lo(w), weight_f64_hi(w)), json!({"kind": "ffi"}));
        }
        let w = wmc_param_complex_var_weight(cc, v as u64);
        if weight_complex_lo(w) != cl || weight_complex_hi(w) != ch {
            rep.violation("ffi:weight-table", format!("complex weight of variable {} does not read back", v), json!({"kind": "ffi"}));
        }
        let w = wmc_param_poly_var_weight(cp, v as u64);
        let mut buf = [0.0f64; 40];
        let k = polynomial_get_coeffs(w.high, buf.as_mut_ptr(), 40);
        if polynomial_len(w.high) != ph.len() || k != ph.len() || buf[..k] != ph[..] || polynomial_len(w.low) != pl.len() {
            rep.violation("ffi:weight-table", format!("polynomial weight of variable {} does not read back", v), json!({"kind": "ffi"}));
        }
        destroy_polynomial(w.low);
        destroy_polynomial(w.high);
    }
    // polynomial marshalling: length 0, null, and more than 32 coefficients
    let long: Vec<f64> = (0..40).map(|i| i as f64).collect();
    for (ptr, len, want_len) in [(long.as_ptr(), 40usize, 32usize), (long.as_ptr(), 0, 0), (std::ptr::null(), 5, 0), (long.as_ptr(), 3, 3)] {
        let p = new_polynomial(ptr, len);
        rep.evaluations += 1;
        let mut buf = [0.0f64; 40];
        let k = polynomial_get_coeffs(p, buf.as_mut_ptr(), 40);
        if polynomial_len(p) != want_len || k != want_len || buf[..k] != long[..k] {
            rep.violation("ffi:polynomial-marshalling", format!("new_polynomial(len {}) has length {} / copies {} coefficients", len, polynomial_len(p), k), json!({"kind": "ffi"}));
        }
        destroy_polynomial(p);
    }
    Weights { cf, cc, cp, nf, nc, np }
}

unsafe fn free_weights(w: Weights) {
    free_wmc_params_f64(w.cf);
    free_wmc_params_complex(w.cc);
    destroy_wmc_params_poly(w.cp);
}

/// diagram handles are never freed by the harness: the C interface exports no function to free one (only
/// free_bdd_manager), so how a handle is allocated is the library's business. (An earlier version dropped
/// them as Box<BddPtr>, which assumed the current representation and turned a change of it into an abort
/// of the harness instead of a verdict.)
fn release<T>(_c: *mut T) {}

unsafe fn cstring(p: *const c_char) -> String {
    // the library hands over ownership (mem::forget of a CString): take it back to free it
    let s = CStr::from_ptr(p).to_string_lossy().to_string();
    drop(CString::from_raw(p as *mut c_char));
    s
}

/// all observers of one handle against the native diagram and the truth table
unsafe fn observe<'a>(mgr: *mut c_void, c: CB, nat: BddPtr<'a>, want: TT, n: usize, w: &Weights, full: bool, what: &str, rep: &mut Report) {
    let fail = |k: &str, m: String, rep: &mut Report| {
        rep.violation(format!("ffi:{}", k), format!("{}: {}", what, m), json!({"kind": "ffi", "n": n, "step": what}));
    };
    rep.evaluations += 6;
    let cv: BddPtr<'static> = *c;
    let (ct, nt) = (bdd_tt(cv, n), bdd_tt(nat, n));
    if ct != want || nt != want {
        fail("function", format!("C diagram denotes {:#x}, native {:#x}, definition {:#x}", ct, nt, want), rep);
        return;
    }
    if bdd_structure(cv) != bdd_structure(nat) {
        fail("structure", "C and native diagrams differ structurally".into(), rep);
    }
    if bdd_is_true(c) != nat.is_true() || bdd_is_false(c) != nat.is_false() || bdd_is_const(c) != nat.is_const() {
        fail("constant-tests", "bdd_is_true/false/const disagree with the native tests".into(), rep);
    }
    if !nat.is_const() {
        if Some(bdd_topvar(c)) != nat.var_safe().map(|v| v.value()) {
            fail("topvar", format!("bdd_topvar = {}, native {:?}", bdd_topvar(c), nat.var_safe()), rep);
        }
        let (cl, ch) = (bdd_low(c), bdd_high(c));
        if bdd_structure(*cl) != bdd_structure(nat.low()) || bdd_structure(*ch) != bdd_structure(nat.high()) {
            fail("children", "bdd_low / bdd_high differ from the native low() / high()".into(), rep);
        }
        let t = nat.var_safe().unwrap().value_usize();
        if bdd_tt(*cl, n) != tt::cofactor(want, t, false, n) || bdd_tt(*ch, n) != tt::cofactor(want, t, true, n) {
            fail("children", "bdd_low / bdd_high are not the cofactors on the top variable".into(), rep);
        }
        release(cl);
        release(ch);
    }
    if bdd_count_nodes(c) != nat.count_nodes() {
        fail("count-nodes", format!("bdd_count_nodes = {}, native {}", bdd_count_nodes(c), nat.count_nodes()), rep);
    }
    if !full {
        return;
    }
    rep.evaluations += 6;
    let cj = cstring(bdd_to_json(c));
    let nj = serde_json::to_string(&BDDSerializer::from_bdd(nat)).unwrap();
    if cj != nj {
        fail("json", format!("bdd_to_json {} differs from the native serialisation {}", cj, nj), rep);
    }
    match serde_json::from_str::<Value>(&cj).map_err(|e| e.to_string()).and_then(|v| crate::jsonread::bdd_json_tt(&v, 0, n)) {
        Ok(g) if g == want => (),
        other => fail("json", format!("bdd_to_json reads back as {:?}", other), rep),
    }
    let cp = cstring(print_bdd(c));
    if cp != nat.print_bdd() {
        fail("print", "print_bdd differs from the native print_bdd".into(), rep);
    }
    let mc = robdd_model_count(mgr, c);
    let order_n = n; // the manager has exactly n variables at this point
    let _ = order_n;
    if mc != tt::count(want) as u64 {
        fail("model-count", format!("robdd_model_count = {}, the function has {} models over {} variables", mc, tt::count(want), n), rep);
    }
    let (r1, r2) = (bdd_wmc(c, w.cf), nat.unsmoothed_wmc(&w.nf).0);
    if r1.to_bits() != r2.to_bits() {
        fail("wmc-real", format!("bdd_wmc = {}, native {}", r1, r2), rep);
    }
    // a weight changed in place between two counts over the same table (and changed back)
    if n >= 1 {
        let old = wmc_param_f64_var_weight(w.cf, 0);
        let (lo0, hi0) = (weight_f64_lo(old), weight_f64_hi(old));
        wmc_param_f64_set_weight(w.cf, 0, 0.125, 0.875);
        let mut nf2 = w.nf.clone();
        nf2.set_weight(VarLabel::new(0), RealSemiring(0.125), RealSemiring(0.875));
        let (a1, a2) = (bdd_wmc(c, w.cf), nat.unsmoothed_wmc(&nf2).0);
        if a1.to_bits() != a2.to_bits() {
            fail("wmc-real", format!("after wmc_param_f64_set_weight(x0, 0.125, 0.875): bdd_wmc = {}, native {}", a1, a2), rep);
        }
        wmc_param_f64_set_weight(w.cf, 0, lo0, hi0);
        let (b1, b2) = (bdd_wmc(c, w.cf), nat.unsmoothed_wmc(&w.nf).0);
        if b1.to_bits() != b2.to_bits() {
            fail("wmc-real", format!("after restoring the weight of x0: bdd_wmc = {}, native {}", b1, b2), rep);
        }
    }
    let (c1, c2) = (bdd_wmc_complex(c, w.cc), nat.unsmoothed_wmc(&w.nc));
    if c1 != c2 {
        fail("wmc-complex", format!("bdd_wmc_complex = {}, native {}", c1, c2), rep);
    }
    let pp = bdd_wmc_poly(c, w.cp);
    let np = nat.unsmoothed_wmc(&w.np);
    let mut buf = [0.0f64; 40];
    let k = polynomial_get_coeffs(pp, buf.as_mut_ptr(), 40);
    let nv: Vec<f64> = np.coefficients[..np.len].iter().map(|x| x.0).collect();
    if k != np.len || buf[..k] != nv[..] {
        fail("wmc-poly", format!("bdd_wmc_poly = {:?}, native {:?}", &buf[..k], nv), rep);
    }
    destroy_polynomial(pp);
    // scratch accessors: set, read, clear, read default
    if !nat.is_const() {
        bdd_set_scratch(c, 41);
        let a = bdd_scratch(c, 7);
        bdd_clear_scratch(c);
        let b = bdd_scratch(c, 7);
        if a != 41 || b != 7 || !cv.is_scratch_cleared() {
            fail("scratch", format!("set 41 / read {} / cleared read {}", a, b), rep);
        }
    }
}

/// lock-step sweep over all functions of n variables
/// wide managers: model counts of constants, literals, cubes, clauses and their negations at
/// the first / middle / last positions of an `nv`-variable manager against the closed form
pub fn wide_counts(nv: usize) -> Report {
    wide_counts_keyed(nv, "ffi:model-count")
}

/// `key`: violation key (the same exported counter is anchored by C08 and C18)
pub fn wide_counts_keyed(nv: usize, key: &str) -> Report {
    let mut rep = Report::default();
    rep.exhaustive = true;
    unsafe {
        let mgr = mk_bdd_manager_default_order(nv as u64);
        let total: u128 = 1u128 << nv;
        let chk = |c: CB, want: u128, what: String, rep: &mut Report| {
            let mc = robdd_model_count(mgr, c);
            rep.transitions += 1;
            if mc as u128 != want {
                rep.violation(key, format!("{} variables, {}: robdd_model_count = {}, the function has {} models", nv, what, mc, want), json!({"kind": "ffi_wide", "n": nv}));
            }
        };
        let t = bdd_true(mgr);
        let f = bdd_false(mgr);
        chk(t, total, "true".into(), &mut rep);
        chk(f, 0, "false".into(), &mut rep);
        // counts that are not multiples of a large power of two: the disjunction and the
        // conjunction of all variables (2^nv - 1 and 1 models) and their negations
        {
            let mut any = f;
            let mut all = t;
            for v in 0..nv {
                let x = bdd_var(mgr, v as u64, v % 2 == 0);
                any = bdd_or(mgr, any, x);
                all = bdd_and(mgr, all, x);
            }
            chk(any, total - 1, "or of one literal per variable".into(), &mut rep);
            chk(all, 1, "and of one literal per variable".into(), &mut rep);
            chk(bdd_negate(mgr, any), 1, "negated or of one literal per variable".into(), &mut rep);
            chk(bdd_negate(mgr, all), total - 1, "negated and of one literal per variable".into(), &mut rep);
        }
        let mut pos: Vec<usize> = vec![0, nv / 2, nv - 1];
        pos.dedup();
        for &a in pos.iter() {
            for pa in [true, false] {
                let xa = bdd_var(mgr, a as u64, pa);
                chk(xa, total / 2, format!("literal on variable {}", a), &mut rep);
                for &b in pos.iter() {
                    if b == a {
                        continue;
                    }
                    for pb in [true, false] {
                        let xb = bdd_var(mgr, b as u64, pb);
                        let and = bdd_and(mgr, xa, xb);
                        let or = bdd_or(mgr, xa, xb);
                        chk(and, total / 4, format!("and of literals on {} and {}", a, b), &mut rep);
                        chk(or, total / 4 * 3, format!("or of literals on {} and {}", a, b), &mut rep);
                        chk(bdd_negate(mgr, and), total / 4 * 3, format!("negated and of literals on {} and {}", a, b), &mut rep);
                        for &c in pos.iter() {
                            if c == a || c == b {
                                continue;
                            }
                            let xc = bdd_var(mgr, c as u64, true);
                            chk(bdd_and(mgr, and, xc), total / 8, format!("cube on {}, {}, {}", a, b, c), &mut rep);
                            chk(bdd_or(mgr, or, xc), total / 8 * 7, format!("clause on {}, {}, {}", a, b, c), &mut rep);
                            chk(bdd_ite(mgr, xa, xb, xc), total / 2, format!("ite on {}, {}, {}", a, b, c), &mut rep);
                        }
                    }
                }
            }
        }
        free_bdd_manager(mgr);
    }
    rep.states = 1;
    rep.traces = 1;
    rep
}

fn sweep(n: usize, ctx: &Ctx) -> Report {
    let mut rep = Report::default();
    rep.exhaustive = true;
    unsafe {
        let mgr = mk_bdd_manager_default_order(n as u64);
        let nb: NB = RobddBuilder::new(VarOrder::linear_order(n));
        let w = make_weights(n, &mut rep);
        let total = 1usize << (1usize << n);
        let mut fc: Vec<CB> = Vec::with_capacity(total);
        let mut fnat: Vec<BddPtr> = Vec::with_capacity(total);
        // materialise through bdd_var / bdd_ite / bdd_true / bdd_false
        unsafe fn sh_c(mgr: *mut c_void, t: TT, v: usize, n: usize) -> CB {
            if t == 0 {
                return bdd_false(mgr);
            }
            if t == tt::mask(n) {
                return bdd_true(mgr);
            }
            if !tt::depends_on(t, v, n) {
                return sh_c(mgr, t, v + 1, n);
            }
            let hi = sh_c(mgr, tt::cofactor(t, v, true, n), v + 1, n);
            let lo = sh_c(mgr, tt::cofactor(t, v, false, n), v + 1, n);
            let x = bdd_var(mgr, v as u64, true);
            bdd_ite(mgr, x, hi, lo)
        }
        for t in 0..total {
            let c = sh_c(mgr, t as TT, 0, n);
            let nat = crate::props::bddutil::build_bdd(&nb, t as TT, n);
            rep.transitions += 1;
            observe(mgr, c, nat, t as TT, n, &w, true, &format!("build {:#x} via bdd_ite", t), &mut rep);
            fc.push(c);
            fnat.push(nat);
            if rep.n_violations > 8 {
                break;
            }
        }
        if rep.n_violations == 0 {
            // equality matrix
            for i in 0..total {
                for j in 0..total {
                    rep.evaluations += 1;
                    let e = bdd_eq(mgr, fc[i], fc[j]);
                    if e != nb.eq(fnat[i], fnat[j]) || e != (i == j) {
                        rep.violation("ffi:eq", format!("bdd_eq({:#x}, {:#x}) = {}, native {}", i, j, e, nb.eq(fnat[i], fnat[j])), json!({"kind": "ffi", "n": n}));
                    }
                }
            }
            // all pairs and / or
            'p: for i in 0..total {
                for j in 0..total {
                    let full = (i * 31 + j) % 64 == 0;
                    let c = bdd_and(mgr, fc[i], fc[j]);
                    rep.transitions += 2;
                    observe(mgr, c, nb.and(fnat[i], fnat[j]), (i & j) as TT, n, &w, full, &format!("bdd_and({:#x}, {:#x})", i, j), &mut rep);
                    release(c);
                    let c = bdd_or(mgr, fc[i], fc[j]);
                    observe(mgr, c, nb.or(fnat[i], fnat[j]), (i | j) as TT, n, &w, full, &format!("bdd_or({:#x}, {:#x})", i, j), &mut rep);
                    release(c);
                    if rep.n_violations > 8 {
                        break 'p;
                    }
                }
                if ctx.over_time() {
                    rep.cap("wall-clock cap inside the C-ABI pair sweep");
                    break;
                }
            }
            // negate, compose, ite
            let step = if total > 256 { total / 64 } else { 1 };
            for i in 0..total {
                let c = bdd_negate(mgr, fc[i]);
                rep.transitions += 1;
                observe(mgr, c, nb.negate(fnat[i]), tt::not(i as TT, n), n, &w, i % 8 == 0, &format!("bdd_negate({:#x})", i), &mut rep);
                release(c);
                for v in 0..n {
                    for j in (0..total).step_by(step.max(if total > 16 { 5 } else { 1 })) {
                        let c = bdd_compose(mgr, fc[i], v as u64, fc[j]);
                        rep.transitions += 1;
                        observe(mgr, c, nb.compose(fnat[i], VarLabel::new(v as u64), fnat[j]), tt::compose_def(i as TT, v, j as TT, n), n, &w, false, &format!("bdd_compose({:#x}, {}, {:#x})", i, v, j), &mut rep);
                        release(c);
                    }
                }
                if rep.n_violations > 8 {
                    break;
                }
            }
            let pool: Vec<usize> = (0..total).step_by((total / 24).max(1)).collect();
            for &i in pool.iter() {
                for &j in pool.iter() {
                    for &k in pool.iter() {
                        let c = bdd_ite(mgr, fc[i], fc[j], fc[k]);
                        rep.transitions += 1;
                        observe(mgr, c, nb.ite(fnat[i], fnat[j], fnat[k]), tt::ite(i as TT, j as TT, k as TT, n), n, &w, false, &format!("bdd_ite({:#x}, {:#x}, {:#x})", i, j, k), &mut rep);
                        release(c);
                    }
                }
                if rep.n_violations > 8 {
                    break;
                }
            }
            let rc = bdd_num_recursive_calls(mgr);
            if rc == 0 {
                rep.violation("ffi:stats", "bdd_num_recursive_calls is 0 after thousands of operations".to_string(), json!({"kind": "ffi"}));
            }
            // variables added at run time
            let lbl = bdd_new_label(mgr);
            let nl = nb.new_label();
            if lbl != nl.value() {
                rep.violation("ffi:new-label", format!("bdd_new_label = {}, native {}", lbl, nl.value()), json!({"kind": "ffi"}));
            }
            let nv = bdd_new_var(mgr, true);
            let (l2, nn) = nb.new_var(true);
            let n2 = n + 2;
            let w2 = make_weights(n2, &mut rep);
            observe(mgr, nv, nn, tt::var(l2.value_usize(), n2), n2, &w2, true, "bdd_new_var", &mut rep);
            for i in (0..total).step_by((total / 32).max(1)) {
                let c = bdd_and(mgr, fc[i], nv);
                rep.transitions += 1;
                observe(mgr, c, nb.and(fnat[i], nn), tt::extend(i as TT, n, n2) & tt::var(n + 1, n2), n2, &w2, true, &format!("bdd_and({:#x}, new variable)", i), &mut rep);
                release(c);
            }
            free_weights(w2);
            // a second run-time variable, created negative, and then both literals of every
            // run-time label asked for through bdd_var (the constructors must agree with each
            // other whatever was created before)
            let nv2 = bdd_new_var(mgr, false);
            let (l3, nn2) = nb.new_var(false);
            let n3 = n + 3;
            let w3 = make_weights(n3, &mut rep);
            rep.transitions += 1;
            observe(mgr, nv2, nn2, tt::not(tt::var(l3.value_usize(), n3), n3), n3, &w3, true, "bdd_new_var(false)", &mut rep);
            for lab in [nl.value(), l2.value(), l3.value()] {
                for pol in [true, false] {
                    let x = bdd_var(mgr, lab, pol);
                    let xn = nb.var(VarLabel::new(lab), pol);
                    let want = if pol { tt::var(lab as usize, n3) } else { tt::not(tt::var(lab as usize, n3), n3) };
                    rep.transitions += 1;
                    observe(mgr, x, xn, want, n3, &w3, true, &format!("bdd_var({}, {}) after bdd_new_label / bdd_new_var(true) / bdd_new_var(false)", lab, pol), &mut rep);
                    if lab == l3.value() {
                        let e = bdd_eq(mgr, x, nv2);
                        if e != !pol {
                            rep.violation("ffi:eq", format!("bdd_eq(bdd_var({}, {}), bdd_new_var(false)) = {}", lab, pol, e), json!({"kind": "ffi"}));
                        }
                    }
                    release(x);
                }
            }
            free_weights(w3);
        }
        for c in fc {
            release(c);
        }
        free_weights(w);
        free_bdd_manager(mgr);
    }
    rep.traces = 1;
    rep.states = 1u64 << (1u64 << n);
    rep
}

/// the remaining exported symbols: constructors of inputs and the other builders
fn check_cnf_path(clauses: &[Clause], rep: &mut Report) {
    let n = num_vars(clauses);
    if n == 0 || clauses.is_empty() {
        return;
    }
    let f = tt::of_cnf(clauses, n);
    let fail = |k: &str, m: String, rep: &mut Report| {
        rep.violation(format!("ffi:{}", k), format!("cnf {}: {}", cnf_json(clauses), m), json!({"kind": "ffi_cnf", "cnf": cnf_json(clauses)}));
    };
    unsafe {
        // cnf_new from literal_new
        let mut lits: Vec<Vec<Literal>> = clauses.iter().map(|c| c.iter().map(|&(v, p)| literal_new(v as u64, p)).collect()).collect();
        for (c, cl) in lits.iter().zip(clauses.iter()) {
            for (l, &(v, p)) in c.iter().zip(cl.iter()) {
                if l.label().value_usize() != v || l.polarity() != p {
                    fail("literal-new", format!("literal_new({}, {}) = {:?}", v, p, l), rep);
                }
            }
        }
        let cc: Vec<CClause> = lits.iter_mut().map(|c| CClause { vars: c.as_mut_ptr(), len: c.len() }).collect();
        let cnf = cnf_new(cc.as_ptr(), cc.len());
        let native = to_cnf(clauses);
        rep.evaluations += 6;
        if *cnf != native {
            fail("cnf-new", "cnf_new differs from Cnf::new on the same clauses".into(), rep);
        }
        // cnf_from_dimacs
        let text = CString::new(crate::props::c17::dimacs_text(clauses, n, 0)).unwrap();
        let cnf2 = cnf_from_dimacs(text.as_ptr());
        if (*cnf2).clauses() != native.clauses() {
            fail("cnf-from-dimacs", "cnf_from_dimacs differs from Cnf::from_dimacs / the clause list".into(), rep);
        }
        // orders
        let mf = cnf_min_fill_order(cnf);
        let nmf = native.min_fill_order();
        let same_order = |a: &VarOrder, b: &VarOrder| a.num_vars() == b.num_vars() && (0..a.num_vars()).all(|i| a.var_at_level(i) == b.var_at_level(i));
        if !same_order(&*mf, &nmf) {
            fail("min-fill-order", "cnf_min_fill_order differs from the native order".into(), rep);
        }
        let lin = var_order_linear(n) as *mut VarOrder;
        if !same_order(&*lin, &VarOrder::linear_order(n)) {
            fail("var-order-linear", "var_order_linear differs from VarOrder::linear_order".into(), rep);
        }
        // var_order_new on every permutation of the variables (3-cycles are not self-inverse)
        for p in permutations(n) {
            let pu: Vec<u64> = p.iter().map(|&v| v as u64).collect();
            let vo = var_order_new(pu.as_ptr(), pu.len());
            let nvo = VarOrder::new(&pu.iter().map(|&v| VarLabel::new(v)).collect::<Vec<_>>());
            rep.evaluations += 1;
            if !same_order(&*vo, &nvo) || (0..n).any(|i| (*vo).var_at_level(i).value_usize() != p[i]) {
                fail("var-order-new", format!("var_order_new({:?}) differs from VarOrder::new on the same sequence", p), rep);
            }
            release(vo);
        }
        let perm: Vec<u64> = if n >= 3 { let mut q: Vec<u64> = (1..n as u64).collect(); q.push(0); q } else { (0..n as u64).rev().collect() };
        let von = var_order_new(perm.as_ptr(), perm.len());
        let nvon = VarOrder::new(&perm.iter().map(|&v| VarLabel::new(v)).collect::<Vec<_>>());
        if !same_order(&*von, &nvon) {
            fail("var-order-new", "var_order_new differs from VarOrder::new".into(), rep);
        }
        // BDD compilation through robdd_builder_all_table (consumes the order and the cnf)
        let b = robdd_builder_all_table(von);
        let cnf_for_bdd = Box::into_raw(Box::new(native.clone()));
        let r = robdd_builder_compile_cnf(b, cnf_for_bdd);
        rep.transitions += 1;
        if bdd_tt(*r, n) != f {
            fail("compile-cnf", format!("robdd_builder_compile_cnf has models {:#x}, the CNF {:#x}", bdd_tt(*r, n), f), rep);
        }
        let mc = robdd_model_count(b, r);
        if mc != tt::count(f) as u64 {
            fail("model-count", format!("robdd_model_count = {}, the CNF has {} models", mc, tt::count(f)), rep);
        }
        {
            // same diagram as the native builder under the same (rotated) order
            let order: Vec<usize> = perm.iter().map(|&v| v as usize).collect();
            let nb = small_builder(&order, 0);
            let nr = nb.compile_cnf(&native);
            if bdd_structure(*r) != bdd_structure(nr) {
                fail("compile-cnf", format!("the diagram compiled through the C builder over var_order_new({:?}) differs structurally from the native one under that order", order), rep);
            }
        }
        release(r);
        free_bdd_manager(b);
        // dtree -> vtree -> SDD
        let dt = dtree_from_cnf(cnf, mf);
        let vt = vtree_from_dtree(dt);
        let nvt = VTree::from_dtree(&DTree::from_cnf(&native, &nmf));
        match (vt.is_null(), &nvt) {
            (true, None) => (),
            (false, Some(nv)) => {
                if *vt != *nv {
                    fail("vtree-from-dtree", "vtree_from_dtree differs from the native vtree".into(), rep);
                }
                let sb = sdd_builder_new(vt);
                let s = sdd_builder_compile_cnf(sb, cnf);
                rep.transitions += 1;
                if sdd_tt(*s, n) != f {
                    fail("sdd-compile-cnf", format!("sdd_builder_compile_cnf has models {:#x}, the CNF {:#x}", sdd_tt(*s, n), f), rep);
                }
                let wf = new_wmc_params_f64();
                let mut nf: WmcParams<RealSemiring> = WmcParams::default();
                for v in 0..n {
                    wmc_param_f64_set_weight(wf, v as u64, 0.25, 0.75);
                    nf.set_weight(VarLabel::new(v as u64), RealSemiring(0.25), RealSemiring(0.75));
                }
                let (a, bb) = (sdd_wmc(s, wf), (*s).unsmoothed_wmc(&nf).0);
                if a.to_bits() != bb.to_bits() {
                    fail("sdd-wmc", format!("sdd_wmc = {}, native {}", a, bb), rep);
                }
                free_wmc_params_f64(wf);
                release(s);
                drop(Box::from_raw(sb as *mut rsdd::builder::sdd::CompressionSddBuilder<'static>));
            }
            _ => fail("vtree-from-dtree", "vtree_from_dtree null-ness differs from the native result".into(), rep),
        }
        release(dt);
        // top-down
        let db = ddnnf_builder_new(lin);
        let d = ddnnf_builder_compile_cnf_topdown(db, cnf);
        rep.transitions += 1;
        if bdd_tt(*d, n) != f {
            fail("ddnnf-compile", format!("ddnnf_builder_compile_cnf_topdown has models {:#x}, the CNF {:#x}", bdd_tt(*d, n), f), rep);
        }
        release(d);
        drop(Box::from_raw(db as *mut rsdd::builder::decision_nnf::StandardDecisionNNFBuilder<'static>));
        release(mf);
        release(cnf);
        drop(Box::from_raw(cnf2 as *mut Cnf));
    }
}

/// growth schedules: every sequence of at most `depth` calls over {robdd_model_count of one of four
/// pool diagrams, bdd_new_label, bdd_new_var(true), bdd_new_var(false)} on a fresh 2-variable manager
/// each. The count of a diagram built before k variables were added is its model count times 2^k,
/// whatever was counted in between and however many growth calls separate two counts.
pub fn growth_schedules(depth: usize) -> Report {
    let mut rep = Report::default();
    rep.exhaustive = true;
    // pool over x0, x1: (truth table over 2 variables, how to build it)
    let pool_tt: [u64; 4] = [0b1010, 0b0101, 0b1110, 0b0110];
    let nact = 7usize;
    let mut seq: Vec<usize> = vec![];
    fn next(seq: &mut Vec<usize>, depth: usize, nact: usize) -> bool {
        // odometer over all sequences of length 1..=depth, shortest first per prefix order
        if seq.len() < depth {
            seq.push(0);
            return true;
        }
        while let Some(last) = seq.pop() {
            if last + 1 < nact {
                seq.push(last + 1);
                return true;
            }
        }
        false
    }
    while next(&mut seq, depth, nact) {
        // only maximal sequences and sequences ending in a count are worth a manager of their own
        if *seq.last().unwrap() >= 4 && seq.len() < depth {
            continue;
        }
        if !seq.iter().any(|&a| a < 4) || !seq.iter().any(|&a| a >= 4) {
            continue;
        }
        rsdd::verif::set_table_capacity(8);
        let r = guarded(|| unsafe {
            let mgr = mk_bdd_manager_default_order(2);
            let x0 = bdd_var(mgr, 0, true);
            let x1 = bdd_var(mgr, 1, true);
            let pool = [x0, bdd_negate(mgr, x0), bdd_or(mgr, x0, x1), bdd_negate(mgr, bdd_iff_c(mgr, x0, x1))];
            let mut extra = 0u32;
            let mut bad: Option<String> = None;
            for (i, &a) in seq.iter().enumerate() {
                match a {
                    0..=3 => {
                        let mc = robdd_model_count(mgr, pool[a]);
                        let want = (pool_tt[a].count_ones() as u64) << extra;
                        if mc != want {
                            bad = Some(format!("step {}: robdd_model_count of pool diagram {} = {}, it has {} models over the {} variables of the manager", i, a, mc, want, 2 + extra));
                            break;
                        }
                    }
                    4 => {
                        let _ = bdd_new_label(mgr);
                        extra += 1;
                    }
                    5 => {
                        let _ = bdd_new_var(mgr, true);
                        extra += 1;
                    }
                    _ => {
                        let _ = bdd_new_var(mgr, false);
                        extra += 1;
                    }
                }
            }
            free_bdd_manager(mgr);
            bad
        });
        rsdd::verif::set_table_capacity(0);
        rep.traces += 1;
        rep.transitions += seq.len() as u64;
        let names = ["count(x0)", "count(!x0)", "count(x0|x1)", "count(x0 xor x1)", "bdd_new_label", "bdd_new_var(true)", "bdd_new_var(false)"];
        let hist: Vec<&str> = seq.iter().map(|&a| names[a]).collect();
        match r {
            Ok(None) => {}
            Ok(Some(w)) => {
                rep.violation("ffi:model-count", format!("history {:?}: {}", hist, w), json!({"kind": "ffi_growth", "depth": depth}));
                break;
            }
            Err(p) => {
                rep.violation("ffi:panic", format!("history {:?} panicked: {}", hist, p), json!({"kind": "ffi_growth", "depth": depth}));
                break;
            }
        }
    }
    rep.states = rep.traces;
    rep
}

/// weight tables behind the C interface as objects with histories: every sequence of at most `depth` calls of
/// wmc_param_*_set_weight over the labels 0..3 (the value depends on the step, so a re-weighted label changes),
/// on fresh tables of the three kinds in lock step with native tables. After the last call the getters of every
/// label that was set are compared and, when the labels 0, 1, 2 all carry weights, the real, complex and
/// polynomial counts of five diagrams over three variables are compared with the brute-force sum over the truth
/// table. Setting weights in descending or mixed label order, setting one twice, and setting a label beyond the
/// diagram's variables are all in-domain.
pub fn weight_table_histories(depth: usize) -> Report {
    let mut rep = Report::default();
    rep.exhaustive = true;
    let nlab = 4usize;
    let mut seq: Vec<usize> = vec![];
    fn next(seq: &mut Vec<usize>, depth: usize, nact: usize) -> bool {
        if seq.len() < depth {
            seq.push(0);
            return true;
        }
        while let Some(last) = seq.pop() {
            if last + 1 < nact {
                seq.push(last + 1);
                return true;
            }
        }
        false
    }
    // dyadic weights, exact in f64; low + high need not be 1 (bdd_wmc of these diagrams is compared with the
    // native count of the same diagram, and with brute force where the weights are normalised)
    let val = |step: usize, l: usize| -> (f64, f64) {
        let k = 1 + (step * 3 + l * 5) % 7;
        (k as f64 / 8.0, 1.0 - k as f64 / 8.0)
    };
    let funcs: [u64; 5] = [0xca, 0x96, 0xe8, 0x80, 0x7f];
    while next(&mut seq, depth, nlab) {
        if seq.len() < depth && !(seq.len() >= 3) {
            continue;
        }
        let seqc = seq.clone();
        let r = guarded(|| unsafe {
            rsdd::verif::set_table_capacity(8);
            let mgr = mk_bdd_manager_default_order(3);
            rsdd::verif::set_table_capacity(0);
            let xs = [bdd_var(mgr, 0, true), bdd_var(mgr, 1, true), bdd_var(mgr, 2, true)];
            let (cf, cc, cp) = (new_wmc_params_f64(), new_wmc_params_complex(), new_wmc_params_poly());
            let mut nf: WmcParams<RealSemiring> = WmcParams::default();
            let mut nc: WmcParams<Complex> = WmcParams::default();
            let mut np: WmcParams<Polynomial<RealSemiring>> = WmcParams::default();
            let mut cur: Vec<Option<(f64, f64)>> = vec![None; nlab];
            let mut bad: Option<String> = None;
            for (step, &l) in seqc.iter().enumerate() {
                let (lo, hi) = val(step, l);
                wmc_param_f64_set_weight(cf, l as u64, lo, hi);
                nf.set_weight(VarLabel::new(l as u64), RealSemiring(lo), RealSemiring(hi));
                let (cl, ch) = (Complex { re: lo, im: hi }, Complex { re: hi, im: -lo });
                wmc_param_complex_set_weight(cc, l as u64, cl, ch);
                nc.set_weight(VarLabel::new(l as u64), cl, ch);
                let (pl, ph) = (vec![lo, 1.0], vec![hi, -1.0]);
                wmc_param_poly_set_weight(cp, l as u64, pl.as_ptr(), pl.len(), ph.as_ptr(), ph.len());
                np.set_weight(VarLabel::new(l as u64), poly_of(&pl), poly_of(&ph));
                cur[l] = Some((lo, hi));
            }
            // getters of every label that carries a weight
            for l in 0..nlab {
                if let Some((lo, hi)) = cur[l] {
                    let w = wmc_param_f64_var_weight(cf, l as u64);
                    let (a, b) = (weight_f64_lo(w), weight_f64_hi(w));
                    if a != lo || b != hi {
                        bad = Some(format!("wmc_param_f64_var_weight({}) = ({}, {}), the last weight set for that label is ({}, {})", l, a, b, lo, hi));
                        break;
                    }
                    let w = wmc_param_complex_var_weight(cc, l as u64);
                    let (a, b) = (weight_complex_lo(w), weight_complex_hi(w));
                    if a.re != lo || a.im != hi || b.re != hi || b.im != -lo {
                        bad = Some(format!("wmc_param_complex_var_weight({}) = ({:?}, {:?}), the last weight set for that label is ({}+{}i, {}-{}i)", l, a, b, lo, hi, hi, lo));
                        break;
                    }
                }
            }
            if bad.is_none() && cur[0].is_some() && cur[1].is_some() && cur[2].is_some() {
                for &t in funcs.iter() {
                    // the function through the C interface: Shannon expansion with bdd_ite
                    let f = [bdd_false(mgr), bdd_true(mgr)];
                    let leaf = |bit: u64| if bit == 1 { f[1] } else { f[0] };
                    let mut lvl: Vec<CB> = (0..8).map(|a| leaf((t >> a) & 1)).collect();
                    for v in (0..3).rev() {
                        // assignments are indexed with x0 as the lowest bit: fold the highest variable first
                        let half = lvl.len() / 2;
                        lvl = (0..half).map(|a| bdd_ite(mgr, xs[v], lvl[a + half], lvl[a])).collect();
                    }
                    let d = lvl[0];
                    // brute force over the truth table (normalised weights: low + high = 1 on every label)
                    let mut want = 0.0;
                    for a in 0..8usize {
                        if (t >> a) & 1 == 1 {
                            let mut p = 1.0;
                            for v in 0..3 {
                                let (lo, hi) = cur[v].unwrap();
                                p *= if (a >> v) & 1 == 1 { hi } else { lo };
                            }
                            want += p;
                        }
                    }
                    let got = bdd_wmc(d, cf);
                    if got != want {
                        bad = Some(format!("bdd_wmc of {:#x} = {}, the sum over its models under the weights last set is {}", t, got, want));
                        break;
                    }
                    // complex and polynomial counts against the native fold of the same diagram with the native table
                    let nd: BddPtr = *d;
                    let (gc, wc) = (bdd_wmc_complex(d, cc), nd.unsmoothed_wmc(&nc));
                    if gc.re != wc.re || gc.im != wc.im {
                        bad = Some(format!("bdd_wmc_complex of {:#x} = {:?}, the native count with the same weights is {:?}", t, gc, wc));
                        break;
                    }
                    let gp = bdd_wmc_poly(d, cp);
                    let wp = nd.unsmoothed_wmc(&np);
                    let mut buf = vec![0.0f64; 40];
                    let k = polynomial_get_coeffs(gp, buf.as_mut_ptr(), 40);
                    let gotp: Vec<f64> = buf[..k.min(40)].to_vec();
                    let wantp: Vec<f64> = wp.coefficients[..wp.len].iter().map(|x| x.0).collect();
                    let m = gotp.len().max(wantp.len());
                    if (0..m).any(|i| gotp.get(i).cloned().unwrap_or(0.0) != wantp.get(i).cloned().unwrap_or(0.0)) {
                        bad = Some(format!("bdd_wmc_poly of {:#x} = {:?}, the native count with the same weights is {:?}", t, gotp, wantp));
                        break;
                    }
                }
            }
            free_bdd_manager(mgr);
            bad
        });
        rep.traces += 1;
        rep.transitions += seq.len() as u64;
        match r {
            Ok(None) => {}
            Ok(Some(w)) => {
                rep.violation("ffi:weight-table", format!("set_weight on the labels {:?} in this order (value of step s on label l: low = (1 + (3s + 5l) mod 7) / 8): {}", seq, w), json!({"kind": "ffi_weights", "depth": depth}));
                break;
            }
            Err(p) => {
                rep.violation("ffi:panic", format!("set_weight history {:?} panicked: {}", seq, p), json!({"kind": "ffi_weights", "depth": depth}));
                break;
            }
        }
    }
    rep.states = rep.traces;
    rep
}

/// two managers alive on one thread: every sequence of at most `depth` calls over {a handle-producing call
/// on manager A, one on manager B, bdd_high / bdd_low of a B diagram (these take no manager argument), a new
/// conjunction in B, freeing A}; after every call every live B handle is read through calls that produce no
/// handle (bdd_eq with the reference handles made at the start, bdd_topvar, robdd_model_count). Handles of
/// one manager must not be affected by what happens to another.
pub fn two_managers(depth: usize) -> Report {
    let mut rep = Report::default();
    rep.exhaustive = true;
    let nact = 6usize;
    let names = ["bdd_var(A, 2, true)", "bdd_var(B, 2, true)", "h = bdd_high(x0 & x1 of B)", "l = bdd_low(x0 | x1 of B)", "bdd_and(B, x0, !x1)", "free_bdd_manager(A)"];
    let mut seq: Vec<usize> = vec![];
    fn next(seq: &mut Vec<usize>, depth: usize, nact: usize) -> bool {
        if seq.len() < depth {
            seq.push(0);
            return true;
        }
        while let Some(last) = seq.pop() {
            if last + 1 < nact {
                seq.push(last + 1);
                return true;
            }
        }
        false
    }
    while next(&mut seq, depth, nact) {
        // A is freed at most once and not used afterwards; only maximal sequences and those that end in a
        // child / free call get a run of their own
        let mut freed = false;
        let mut legal = true;
        for &a in seq.iter() {
            if freed && (a == 0 || a == 5) {
                legal = false;
            }
            if a == 5 {
                freed = true;
            }
        }
        if !legal || (seq.len() < depth && !matches!(seq.last(), Some(2) | Some(3) | Some(5))) {
            continue;
        }
        rsdd::verif::set_table_capacity(8);
        let r = guarded(|| unsafe {
            let ma = mk_bdd_manager_default_order(3);
            let mb = mk_bdd_manager_default_order(3);
            let x0 = bdd_var(mb, 0, true);
            let x1 = bdd_var(mb, 1, true);
            let f = bdd_and(mb, x0, x1);
            let g = bdd_or(mb, x0, x1);
            // (handle, reference handle it must equal, expected top variable, expected model count over 3 variables, name)
            let mut live: Vec<(CB, CB, u64, u64, &str)> = vec![(x0, x0, 0, 4, "x0"), (x1, x1, 1, 4, "x1"), (f, f, 0, 2, "x0 & x1"), (g, g, 0, 6, "x0 | x1")];
            let mut x2ref: Option<CB> = None;
            let mut a_alive = true;
            let mut bad: Option<String> = None;
            'steps: for (i, &a) in seq.iter().enumerate() {
                match a {
                    0 => {
                        let _ = bdd_var(ma, 2, true);
                    }
                    1 => {
                        let h = bdd_var(mb, 2, true);
                        let r = *x2ref.get_or_insert(h);
                        live.push((h, r, 2, 4, "x2"));
                    }
                    2 => live.push((bdd_high(f), x1, 1, 4, "bdd_high(x0 & x1)")),
                    3 => live.push((bdd_low(g), x1, 1, 4, "bdd_low(x0 | x1)")),
                    4 => {
                        let h = bdd_and(mb, x0, bdd_negate(mb, x1));
                        live.push((h, h, 0, 2, "x0 & !x1"));
                    }
                    _ => {
                        free_bdd_manager(ma);
                        a_alive = false;
                    }
                }
                // between the calls only observers that take no manager argument (a call with a manager
                // argument would make that manager "the one used last" and be part of the history)
                for &(h, _, top, _, name) in live.iter() {
                    if bdd_topvar(h) != top || bdd_is_const(h) {
                        bad = Some(format!("step {}: the handle of {} now has top variable {} (constant: {}), it was created with top variable {}", i, name, bdd_topvar(h), bdd_is_const(h), top));
                        break 'steps;
                    }
                }
            }
            if bad.is_none() {
                for &(h, r, top, mc, name) in live.iter() {
                    if !bdd_eq(mb, h, r) {
                        bad = Some(format!("at the end: the handle of {} is no longer equal (bdd_eq) to the diagram it was created as", name));
                        break;
                    }
                    if bdd_topvar(h) != top || robdd_model_count(mb, h) != mc {
                        bad = Some(format!("at the end: the handle of {} has top variable {} and {} models (expected {} and {})", name, bdd_topvar(h), robdd_model_count(mb, h), top, mc));
                        break;
                    }
                }
            }
            if a_alive {
                free_bdd_manager(ma);
            }
            free_bdd_manager(mb);
            bad
        });
        rsdd::verif::set_table_capacity(0);
        rep.traces += 1;
        rep.transitions += seq.len() as u64;
        let hist: Vec<&str> = seq.iter().map(|&a| names[a]).collect();
        match r {
            Ok(None) => {}
            Ok(Some(w)) => {
                rep.violation("ffi:handle-changed", format!("two managers A, B with 3 variables each, history {:?}: {}", hist, w), json!({"kind": "ffi_two_managers", "depth": depth}));
                break;
            }
            Err(p) => {
                rep.violation("ffi:panic", format!("two managers, history {:?} panicked: {}", hist, p), json!({"kind": "ffi_two_managers", "depth": depth}));
                break;
            }
        }
    }
    rep.states = rep.traces;
    rep
}

unsafe fn bdd_iff_c(mgr: *mut c_void, a: CB, b: CB) -> CB {
    bdd_ite(mgr, a, b, bdd_negate(mgr, b))
}

pub fn run(ctx: &Ctx) -> Report {
    let mut rep = Report::new(
        "call histories through the exported C symbols in lock step with native calls on a second builder: all functions of n variables (n = 2, 3; 4 in thorough with strides) built through bdd_var/bdd_ite/bdd_true/bdd_false, full bdd_eq matrix, all ordered pairs through bdd_and/bdd_or, negate, compose on every variable, ite over a pool, new_label/new_var; after every call the handle is observed through is_true/is_false/is_const/topvar/low/high/count_nodes and (every call of the build phase, a stride elsewhere) to_json/print/model count/real, complex and polynomial counts/scratch accessors; weight tables and polynomial marshalling round trips; every other exported constructor (orders, literals, CNFs, dtree, vtree, SDD and top-down builders) on every CNF with <= 2 clauses; distinct = C call",
    );
    let ns: Vec<usize> = ctx.tier.pick(vec![1, 2, 3], vec![1, 2, 3]);
    let r = par_run(ctx, &ns, |_, n| sweep(*n, ctx));
    rep.merge(r);
    // wide managers (counts up to 2^63 - 1: above every 32-bit quantity and above the 53 bits of a double)
    let wides: Vec<usize> = ctx.tier.pick(vec![4, 8, 16, 20, 21, 24, 31, 32, 33, 40, 48, 53, 54, 56, 60, 63], (4..=63).collect());
    let w = par_run(ctx, &wides, |_, nv| wide_counts(*nv));
    rep.add_extra("wide_manager_model_counts", w.transitions);
    rep.bound("wide_managers", json!({"variables": wides, "functions": "constants, literals, 2-literal and/or, negations, 3-literal cubes/clauses/ite at the first/middle/last positions"}));
    rep.merge(w);
    // growth schedules (counts before, between and after run-time variables)
    if !crate::core::disabled("growth") {
        let g = growth_schedules(ctx.tier.pick(5, 6));
        rep.add_extra("growth_schedule_histories", g.traces);
        rep.bound("growth_schedules", json!({"initial_variables": 2, "pool": ["x0", "!x0", "x0|x1", "x0 xor x1"], "alphabet": "count of a pool member, bdd_new_label, bdd_new_var(true), bdd_new_var(false)", "max_calls": ctx.tier.pick(5, 6)}));
        rep.merge(g);
    }
    // weight tables with histories
    if !crate::core::disabled("weighthist") {
        let g = weight_table_histories(ctx.tier.pick(4, 5));
        rep.add_extra("weight_table_histories", g.traces);
        rep.bound("weight_table_histories", json!({"labels": 4, "max_calls": ctx.tier.pick(4, 5), "tables": "f64, complex, polynomial in lock step with native tables", "checks": "getters of every set label; real count against brute force, complex and polynomial counts against the native fold, for five diagrams over three variables"}));
        rep.merge(g);
    }
    // two managers on one thread
    if !crate::core::disabled("twomgr") {
        let g = two_managers(ctx.tier.pick(5, 6));
        rep.add_extra("two_manager_histories", g.traces);
        rep.bound("two_managers", json!({"variables_each": 3, "alphabet": "handle-producing call on A / on B, bdd_high, bdd_low, a conjunction in B, free A", "max_calls": ctx.tier.pick(5, 6)}));
        rep.merge(g);
    }
    // constructors
    let types = clause_types(3);
    let mut sets = multisets(64, 2);
    if ctx.tier == Tier::Quick {
        sets = sets.into_iter().step_by(2).collect();
    }
    let chunks: Vec<&[Vec<usize>]> = sets.chunks(64).collect();
    let c = par_run(ctx, &chunks, |_, chunk| {
        let mut r = Report::default();
        r.exhaustive = true;
        for s in chunk.iter() {
            let clauses: Vec<Clause> = s.iter().map(|&i| types[i].clone()).collect();
            r.states += 1;
            check_cnf_path(&clauses, &mut r);
            if r.n_violations > 8 {
                break;
            }
        }
        r
    });
    rep.add_extra("cnfs_through_the_c_constructors", c.states);
    rep.merge(c);
    rep.evaluations += rep.transitions;
    rep.distinct_nontrivial = rep.transitions;
    rep.sample(json!({"history": ["mk_bdd_manager_default_order(3)", "bdd_var(0,true)", "bdd_ite(x0, ..)", "bdd_and(F[0x96], F[0xe8])", "bdd_to_json", "bdd_wmc_poly"]}));
    rep.assumptions.push("bdd_topvar is compared on non-constant handles only (it returns 0 for constants by design)".into());
    rep.assumptions.push("robdd_model_count is compared with the number of models over the manager's variables, below 2^64".into());
    rep
}

pub fn replay(ctx: &Ctx, case: &Value) -> Report {
    let mut rep = Report::default();
    match case["kind"].as_str() {
        Some("ffi_cnf") => check_cnf_path(&cnf_from_json(&case["cnf"]), &mut rep),
        Some("ffi_wide") => rep.merge(wide_counts(case["n"].as_u64().unwrap_or(20) as usize)),
        Some("ffi_two_managers") => rep.merge(two_managers(case["depth"].as_u64().unwrap_or(5) as usize)),
        Some("ffi_weights") => rep.merge(weight_table_histories(case["depth"].as_u64().unwrap_or(4) as usize)),
        Some("ffi_growth") => rep.merge(growth_schedules(case["depth"].as_u64().unwrap_or(5) as usize)),
        _ => {
            let n = case["n"].as_u64().unwrap_or(3) as usize;
            rep.merge(sweep(n.min(3), ctx));
        }
    }
    rep
}
