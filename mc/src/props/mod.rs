use crate::core::{Ctx, Report};
use serde_json::Value;

pub mod bddsweep;
pub mod bddmid;
pub mod sddmid;
pub mod wide;
pub mod longcnf;
pub mod c01;
pub mod c02;
pub mod c03;
pub mod c04;
pub mod c05;
pub mod sddsweep;
pub mod c06;
pub mod c07;
pub mod c08;
pub mod bddutil;
pub mod wparams;
pub mod c10;
pub mod c11;
pub mod c12;
pub mod c13;
pub mod c14;
pub mod c15;
pub mod c16;
pub mod c17;
pub mod c18;
pub mod c19;
pub mod c09;

pub struct Prop {
    pub id: &'static str,
    pub run: fn(&Ctx) -> Report,
    pub replay: fn(&Ctx, &Value) -> Report,
}

pub fn registry() -> Vec<Prop> {
    vec![
        Prop { id: "C01", run: c01::run, replay: c01::replay },
        Prop { id: "C02", run: c02::run, replay: c02::replay },
        Prop { id: "C03", run: c03::run, replay: c03::replay },
        Prop { id: "C04", run: c04::run, replay: c04::replay },
        Prop { id: "C05", run: c05::run, replay: c05::replay },
        Prop { id: "C06", run: c06::run, replay: c06::replay },
        Prop { id: "C07", run: c07::run, replay: c07::replay },
        Prop { id: "C08", run: c08::run, replay: c08::replay },
        Prop { id: "C09", run: c09::run, replay: c09::replay },
        Prop { id: "C10", run: c10::run, replay: c10::replay },
        Prop { id: "C11", run: c11::run, replay: c11::replay },
        Prop { id: "C12", run: c12::run, replay: c12::replay },
        Prop { id: "C13", run: c13::run, replay: c13::replay },
        Prop { id: "C14", run: c14::run, replay: c14::replay },
        Prop { id: "C15", run: c15::run, replay: c15::replay },
        Prop { id: "C16", run: c16::run, replay: c16::replay },
        Prop { id: "C17", run: c17::run, replay: c17::replay },
        Prop { id: "C18", run: c18::run, replay: c18::replay },
        Prop { id: "C19", run: c19::run, replay: c19::replay },
    ]
}
