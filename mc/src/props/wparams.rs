//! Weight tables are objects with a history too: `WmcParams` can be created from a map or grown
//! and overwritten in place with `set_weight`. Every check that counts builds its tables through
//! `build_params`, which rotates through a fixed set of construction histories that all have to
//! end in the same table; `table_histories` explores all short `set_weight` histories on the real
//! object against a plain map.

use crate::core::*;
use rsdd::repr::{VarLabel, WmcParams};
use rsdd::util::semirings::Semiring;
use std::collections::HashMap;

pub const N_HISTORIES: usize = 8;

fn from_map<T: Semiring>(w: &[(T, T)]) -> WmcParams<T> {
    let m: HashMap<VarLabel, (T, T)> = w.iter().enumerate().map(|(v, x)| (VarLabel::new(v as u64), *x)).collect();
    WmcParams::new(m)
}

/// other weights for the same variables: the table rotated by one position with low and high
/// swapped (for unnormalised alphabets the totals differ as well)
fn other<T: Semiring>(w: &[(T, T)]) -> Vec<(T, T)> {
    let n = w.len();
    (0..n).map(|v| (w[(v + 1) % n].1, w[(v + 1) % n].0)).collect()
}

/// the table `w` (index = variable label), reached by construction history number `hist`
pub fn build_params<T: Semiring>(w: &[(T, T)], hist: usize) -> WmcParams<T> {
    let n = w.len();
    let lbl = |v: usize| VarLabel::new(v as u64);
    if n == 0 {
        return if hist % 2 == 0 { from_map(w) } else { WmcParams::default() };
    }
    match hist % N_HISTORIES {
        0 => from_map(w),
        1 => {
            // empty table filled in ascending label order
            let mut p = WmcParams::default();
            for v in 0..n {
                p.set_weight(lbl(v), w[v].0, w[v].1);
            }
            p
        }
        2 => {
            // ... in descending order (the first call sizes the table, the others fill holes)
            let mut p = WmcParams::default();
            for v in (0..n).rev() {
                p.set_weight(lbl(v), w[v].0, w[v].1);
            }
            p
        }
        3 => {
            // ... starting in the middle
            let mut p = WmcParams::default();
            for k in 0..n {
                let v = (k + n / 2) % n;
                p.set_weight(lbl(v), w[v].0, w[v].1);
            }
            p
        }
        4 => {
            // created with other weights, every entry overwritten in ascending order
            let mut p = from_map(&other(w));
            for v in 0..n {
                p.set_weight(lbl(v), w[v].0, w[v].1);
            }
            p
        }
        5 => {
            // created with the right weights, every entry changed and changed back
            let o = other(w);
            let mut p = from_map(w);
            for v in 0..n {
                p.set_weight(lbl(v), o[v].0, o[v].1);
            }
            for v in (0..n).rev() {
                p.set_weight(lbl(v), w[v].0, w[v].1);
            }
            p
        }
        6 => {
            // created with other weights, overwritten in descending order
            let mut p = from_map(&other(w));
            for v in (0..n).rev() {
                p.set_weight(lbl(v), w[v].0, w[v].1);
            }
            p
        }
        _ => {
            // a clone of a table that was re-weighted one variable at a time, lowest label last
            let o = other(w);
            let mut p = from_map(&o);
            for v in (0..n).rev() {
                p.set_weight(lbl(v), w[v].0, w[v].1);
                if v > 0 {
                    p.set_weight(lbl(v - 1), o[v - 1].1, o[v - 1].0);
                }
            }
            p.clone()
        }
    }
}

/// `var_weight` of every label must return the pair of `w` (compared through `same`)
pub fn table_matches<T: Semiring>(p: &WmcParams<T>, w: &[(T, T)], same: &dyn Fn(&T, &T) -> bool) -> Option<String> {
    for (v, x) in w.iter().enumerate() {
        match guarded(|| *p.var_weight(VarLabel::new(v as u64))) {
            Ok((l, h)) => {
                if !same(&l, &x.0) || !same(&h, &x.1) {
                    return Some(format!("var_weight(x{}) = ({:?}, {:?}), the table was given ({:?}, {:?})", v, l, h, x.0, x.1));
                }
            }
            Err(e) => return Some(format!("var_weight(x{}) panicked: {}", v, e)),
        }
    }
    None
}

// ---------------------------------------------------------------------------------------------
// Partial models are input objects with histories as well.

use rsdd::repr::{Literal, PartialModel};

pub const N_MODEL_HISTORIES: usize = 6;

/// the partial model `a` (index = variable label), reached by construction history `hist`
pub fn build_model(a: &[Option<bool>], hist: usize) -> PartialModel {
    let n = a.len();
    let lbl = |v: usize| VarLabel::new(v as u64);
    let finish = |m: &mut PartialModel, rev: bool| {
        let idx: Vec<usize> = if rev { (0..n).rev().collect() } else { (0..n).collect() };
        for v in idx {
            match a[v] {
                Some(x) => m.set(lbl(v), x),
                None => m.unset(lbl(v)),
            }
        }
    };
    match hist % N_MODEL_HISTORIES {
        0 => PartialModel::from_assignments(a),
        1 => {
            let lits: Vec<Literal> = (0..n).rev().filter_map(|v| a[v].map(|x| Literal::new(lbl(v), x))).collect();
            PartialModel::from_litvec(&lits, n)
        }
        2 => {
            // empty model, filled in descending label order
            let mut m = PartialModel::new(n);
            finish(&mut m, true);
            m
        }
        3 => {
            // every variable first holds the opposite value (true where the target leaves it
            // unset), then the target is written over it
            let opp: Vec<Option<bool>> = a.iter().map(|x| Some(!x.unwrap_or(false))).collect();
            let mut m = PartialModel::from_assignments(&opp);
            finish(&mut m, false);
            m
        }
        4 => {
            // a total model taken apart: all true, flipped / unset in descending order, and the
            // result cloned
            let mut m = PartialModel::from_total_model(&vec![true; n]);
            finish(&mut m, true);
            m.clone()
        }
        _ => {
            // set, flipped, unset and set again, one variable at a time
            let mut m = PartialModel::new(n);
            for v in 0..n {
                if let Some(x) = a[v] {
                    m.set(lbl(v), !x);
                    m.set(lbl(v), x);
                    m.unset(lbl(v));
                    m.set(lbl(v), x);
                } else {
                    m.set(lbl(v), true);
                    m.set(lbl(v), false);
                    m.unset(lbl(v));
                }
            }
            m
        }
    }
}
