//! Wide-manager regimes shared by the counting, smoothing and optimisation checks (C07, C08, C12).
//!
//! The exhaustive input-space sweeps of those checks stop at 3 to 5 variables with labels 0..n. Here eight
//! table variables are placed at labels chosen to collide modulo 32 / 64 and to straddle the 2^5, 2^6, 2^7,
//! 2^8 boundaries inside managers of 70 to 300 variables; the functions are the rule-defined operand
//! families of `bigtt::families` (about 200 per configuration) and their negations. The reference values
//! are brute-force sums over the 256 assignments of the table variables with exact dyadic / modular
//! arithmetic; every other variable of the manager carries a weight too (it must not enter).

use crate::bigtt::{self, Alg, Big, BigAlg};
use crate::core::*;
use crate::props::c13::mulmod_ref;
use rsdd::builder::bdd::RobddBuilder;
use rsdd::builder::cache::AllIteTable;
use rsdd::builder::decision_nnf::{DecisionNNFBuilder, SemanticDecisionNNFBuilder, StandardDecisionNNFBuilder};
use rsdd::builder::sdd::CompressionSddBuilder;
use rsdd::builder::BottomUpBuilder;
use rsdd::constants::primes;
use rsdd::repr::{BddPtr, Cnf, DDNNFPtr, Literal, PartialModel, SddPtr, VTree, VarLabel, VarOrder, WmcParams};
use rsdd::util::semirings::{ExpectedUtility, FiniteField, RealSemiring};
use serde_json::{json, Value};
use std::collections::HashMap;

const P_TINY: u128 = primes::U32_TINY;

#[derive(Clone, Debug)]
pub struct WCfg {
    pub width: usize,
    pub labels: Vec<usize>,
    pub reversed: bool,
}

impl WCfg {
    pub fn json(&self) -> Value {
        json!({"manager_variables": self.width, "labels_of_table_variables": self.labels, "order": if self.reversed { "reversed label order" } else { "label order" }})
    }
    fn order(&self) -> VarOrder {
        let v: Vec<VarLabel> = (0..self.width).map(|x| VarLabel::new(if self.reversed { self.width - 1 - x } else { x } as u64)).collect();
        VarOrder::new(&v)
    }
    fn idx(&self, l: usize) -> Option<usize> {
        self.labels.iter().position(|&x| x == l)
    }
}

pub fn configs(ctx: &Ctx) -> Vec<WCfg> {
    let mut v = Vec::new();
    let sets: Vec<(usize, Vec<usize>)> = vec![
        (130, vec![0, 64, 128, 1, 65, 63, 127, 32]),
        (70, vec![3, 67, 2, 66, 1, 65, 0, 64]),
        (40, vec![0, 32, 1, 33, 4, 36, 7, 39]),
        (300, vec![0, 256, 1, 257, 128, 255, 44, 299]),
        (100, vec![0, 1, 45, 89, 90, 91, 98, 99]),
        (1001, vec![5, 90, 100, 500, 777, 998, 999, 1000]),
    ];
    for (w, l) in sets {
        for reversed in [false, true] {
            if reversed && w >= 300 && ctx.tier == Tier::Quick {
                continue;
            }
            v.push(WCfg { width: w, labels: l.clone(), reversed });
        }
    }
    v
}

struct BAlg<'a> {
    b: &'a RobddBuilder<'a, AllIteTable<BddPtr<'a>>>,
    lab: Vec<usize>,
}

impl<'a> Alg for BAlg<'a> {
    type F = BddPtr<'a>;
    fn n(&self) -> usize {
        self.lab.len()
    }
    fn konst(&self, v: bool) -> BddPtr<'a> {
        if v { BddPtr::PtrTrue } else { BddPtr::PtrFalse }
    }
    fn lit(&self, v: usize, pol: bool) -> BddPtr<'a> {
        self.b.var(VarLabel::new(self.lab[v] as u64), pol)
    }
    fn not(&self, f: &BddPtr<'a>) -> BddPtr<'a> {
        self.b.negate(*f)
    }
    fn and(&self, f: &BddPtr<'a>, g: &BddPtr<'a>) -> BddPtr<'a> {
        self.b.and(*f, *g)
    }
    fn or(&self, f: &BddPtr<'a>, g: &BddPtr<'a>) -> BddPtr<'a> {
        self.b.or(*f, *g)
    }
    fn xor(&self, f: &BddPtr<'a>, g: &BddPtr<'a>) -> BddPtr<'a> {
        self.b.xor(*f, *g)
    }
    fn ite(&self, f: &BddPtr<'a>, g: &BddPtr<'a>, h: &BddPtr<'a>) -> BddPtr<'a> {
        self.b.ite(*f, *g, *h)
    }
}

struct SAlg<'a> {
    b: &'a CompressionSddBuilder<'a>,
    lab: Vec<usize>,
}

impl<'a> Alg for SAlg<'a> {
    type F = SddPtr<'a>;
    fn n(&self) -> usize {
        self.lab.len()
    }
    fn konst(&self, v: bool) -> SddPtr<'a> {
        if v { SddPtr::PtrTrue } else { SddPtr::PtrFalse }
    }
    fn lit(&self, v: usize, pol: bool) -> SddPtr<'a> {
        self.b.var(VarLabel::new(self.lab[v] as u64), pol)
    }
    fn not(&self, f: &SddPtr<'a>) -> SddPtr<'a> {
        self.b.negate(*f)
    }
    fn and(&self, f: &SddPtr<'a>, g: &SddPtr<'a>) -> SddPtr<'a> {
        self.b.and(*f, *g)
    }
    fn or(&self, f: &SddPtr<'a>, g: &SddPtr<'a>) -> SddPtr<'a> {
        self.b.or(*f, *g)
    }
    fn xor(&self, f: &SddPtr<'a>, g: &SddPtr<'a>) -> SddPtr<'a> {
        self.b.xor(*f, *g)
    }
    fn ite(&self, f: &SddPtr<'a>, g: &SddPtr<'a>, h: &SddPtr<'a>) -> SddPtr<'a> {
        self.b.ite(*f, *g, *h)
    }
}

/// normalised dyadic weight of a label: (low, high) = (k/8, 1 - k/8), k in 1..=7, different for labels that
/// collide modulo 32 or 64
fn real_w(l: usize) -> (f64, f64) {
    let k = 1 + (l * 5 + l / 32 + l / 64) % 7;
    (k as f64 / 8.0, 1.0 - k as f64 / 8.0)
}

fn ff_w(l: usize) -> (u128, u128) {
    let lo = (l as u128 * 7919 + 2 + (l as u128 / 64) * 31) % P_TINY;
    (lo, (P_TINY + 1 - lo) % P_TINY)
}

fn real_params(width: usize, w: &dyn Fn(usize) -> (f64, f64)) -> WmcParams<RealSemiring> {
    WmcParams::new((0..width).map(|l| (VarLabel::new(l as u64), (RealSemiring(w(l).0), RealSemiring(w(l).1)))).collect::<HashMap<_, _>>())
}

fn ff_params(width: usize) -> WmcParams<FiniteField<{ P_TINY }>> {
    WmcParams::new((0..width).map(|l| (VarLabel::new(l as u64), (FiniteField::new(ff_w(l).0), FiniteField::new(ff_w(l).1)))).collect::<HashMap<_, _>>())
}

/// sum over the models of f (over the table variables) of the product of the chosen literal weights
fn brute_real(f: &Big, labels: &[usize], w: &dyn Fn(usize) -> (f64, f64)) -> f64 {
    let mut total = 0.0;
    for a in 0..(1usize << f.n) {
        if f.eval(a) {
            let mut p = 1.0;
            for (v, &l) in labels.iter().enumerate() {
                p *= if (a >> v) & 1 == 1 { w(l).1 } else { w(l).0 };
            }
            total += p;
        }
    }
    total
}

fn brute_ff(f: &Big, labels: &[usize]) -> u128 {
    let mut total = 0u128;
    for a in 0..(1usize << f.n) {
        if f.eval(a) {
            let mut p = 1u128;
            for (v, &l) in labels.iter().enumerate() {
                p = mulmod_ref(p, if (a >> v) & 1 == 1 { ff_w(l).1 } else { ff_w(l).0 }, P_TINY);
            }
            total = (total + p) % P_TINY;
        }
    }
    total
}

fn viol(rep: &mut Report, key: &str, cfg: &WCfg, kind: &str, what: String) {
    rep.violation(key, format!("[wide manager {}] {}", cfg.json(), what), json!({"kind": kind, "cfg": cfg.json()}));
}

/// counts, evaluation and (for BDDs) both polarities of every family function in one representation
fn count_checks<'a, P: DDNNFPtr<'a> + Copy>(rep: &mut Report, cfg: &WCfg, repr: &str, items: &[(String, P, Big)], real: &WmcParams<RealSemiring>, ff: &WmcParams<FiniteField<{ P_TINY }>>) {
    for (i, (name, p, x)) in items.iter().enumerate() {
        if rep.n_violations > 8 {
            return;
        }
        for (pp, xx, pol) in [(*p, x.clone(), ""), (p.neg(), x.not(), "not ")] {
            rep.transitions += 2;
            rep.evaluations += 2;
            let want = brute_real(&xx, &cfg.labels, &real_w);
            match guarded(|| pp.unsmoothed_wmc(real).0) {
                Ok(g) if g == want => {}
                Ok(g) => viol(rep, "count:wrong", cfg, "wide_counts", format!("{} of {}{}: real-valued count {} but the sum over models is {}", repr, pol, name, g, want)),
                Err(e) => viol(rep, "count:panic", cfg, "wide_counts", format!("{} of {}{}: count panicked: {}", repr, pol, name, e)),
            }
            let wantf = brute_ff(&xx, &cfg.labels);
            match guarded(|| pp.unsmoothed_wmc(ff).value()) {
                Ok(g) if g == wantf => {}
                Ok(g) => viol(rep, "count:wrong", cfg, "wide_counts", format!("{} of {}{}: count modulo {} is {} but the sum over models is {}", repr, pol, name, P_TINY, g, wantf)),
                Err(e) => viol(rep, "count:panic", cfg, "wide_counts", format!("{} of {}{}: count panicked: {}", repr, pol, name, e)),
            }
            // Boolean evaluation on a rotating slice of the assignments of the table variables; the other
            // variables alternate
            for k in 0..8usize {
                let a = (i * 37 + k * 29 + 1) % (1 << xx.n);
                let mut v: Vec<bool> = (0..cfg.width).map(|l| (l + k) % 3 == 0).collect();
                for (t, &l) in cfg.labels.iter().enumerate() {
                    v[l] = (a >> t) & 1 == 1;
                }
                rep.evaluations += 1;
                match guarded(|| pp.evaluate(&v)) {
                    Ok(r) if r == xx.eval(a) => {}
                    Ok(r) => viol(rep, "count:evaluate", cfg, "wide_counts", format!("{} of {}{}: evaluate on table assignment {:#b} gives {}, the function {}", repr, pol, name, a, r, xx.eval(a))),
                    Err(e) => viol(rep, "count:panic", cfg, "wide_counts", format!("{} of {}{}: evaluate panicked: {}", repr, pol, name, e)),
                }
            }
        }
    }
}

fn counts_cfg(cfg: &WCfg) -> Report {
    let mut rep = Report::default();
    rep.exhaustive = true;
    let n = cfg.labels.len();
    let reference = bigtt::families(&BigAlg(n));
    let real = real_params(cfg.width, &real_w);
    let ff = ff_params(cfg.width);
    // BDD
    {
        rsdd::verif::set_table_capacity(4);
        let b = RobddBuilder::<AllIteTable<BddPtr>>::new(cfg.order());
        rsdd::verif::set_table_capacity(0);
        match guarded(|| bigtt::families(&BAlg { b: &b, lab: cfg.labels.clone() })) {
            Err(e) => viol(&mut rep, "count:panic", cfg, "wide_counts", format!("building the operand families (BDD) panicked: {}", e)),
            Ok(built) => {
                let mut items: Vec<(String, BddPtr, Big)> = Vec::new();
                for ((name, _, want), (_, _, p)) in reference.iter().cloned().zip(built.into_iter()) {
                    // construction is C01's business: only diagrams that denote their function are counted
                    if bigtt::bdd_big(p, n, &|l| cfg.idx(l)).ok().as_ref() == Some(&want) {
                        items.push((name, p, want));
                    }
                }
                rep.states += items.len() as u64;
                count_checks(&mut rep, cfg, "BDD", &items, &real, &ff);
            }
        }
    }
    // SDD on the right-linear vtree over all labels of the manager (label order or reversed; managers of at most 300)
    if cfg.width <= 300 {
        let labs: Vec<VarLabel> = (0..cfg.width).map(|x| VarLabel::new(if cfg.reversed { cfg.width - 1 - x } else { x } as u64)).collect();
        rsdd::verif::set_table_capacity(4);
        let b = CompressionSddBuilder::new(VTree::right_linear(&labs));
        rsdd::verif::set_table_capacity(0);
        match guarded(|| bigtt::families(&SAlg { b: &b, lab: cfg.labels.clone() })) {
            Err(e) => viol(&mut rep, "count:panic", cfg, "wide_counts", format!("building the operand families (SDD) panicked: {}", e)),
            Ok(built) => {
                let mut items: Vec<(String, SddPtr, Big)> = Vec::new();
                for ((name, _, want), (_, _, p)) in reference.iter().cloned().zip(built.into_iter()).step_by(2) {
                    if bigtt::sdd_big(p, n, &|l| cfg.idx(l)).ok().as_ref() == Some(&want) {
                        items.push((name, p, want));
                    }
                }
                rep.states += items.len() as u64;
                count_checks(&mut rep, cfg, "SDD", &items, &real, &ff);
            }
        }
    }
    // decision-DNNF of three-clause formulas over every triple of table variables, both stores
    {
        let mut cnfs: Vec<(String, Cnf, Big)> = Vec::new();
        for i in 0..n {
            for j in i + 1..n {
                for k in j + 1..n {
                    let lit = |v: usize, p: bool| Literal::new(VarLabel::new(cfg.labels[v] as u64), p);
                    let clauses = vec![vec![lit(i, true), lit(j, true)], vec![lit(i, false), lit(k, true)], vec![lit(j, false), lit(k, false), lit(i, true)]];
                    let want = Big::lit(n, i, true).or(&Big::lit(n, j, true)).and(&Big::lit(n, i, false).or(&Big::lit(n, k, true))).and(&Big::lit(n, j, false).or(&Big::lit(n, k, false)).or(&Big::lit(n, i, true)));
                    cnfs.push((format!("(x{i}|x{j})(!x{i}|x{k})(!x{j}|!x{k}|x{i})"), Cnf::new(&clauses), want));
                }
            }
        }
        rsdd::verif::set_table_capacity(4);
        let b1 = StandardDecisionNNFBuilder::new(cfg.order());
        let b2 = SemanticDecisionNNFBuilder::<{ primes::U64_LARGEST }>::new(cfg.order());
        rsdd::verif::set_table_capacity(0);
        let mut items: Vec<(String, BddPtr, Big)> = Vec::new();
        for (name, cnf, want) in cnfs.iter() {
            for (store, r) in [("standard", guarded(|| b1.compile_cnf_topdown(cnf))), ("hash-identified", guarded(|| b2.compile_cnf_topdown(cnf)))] {
                if let Ok(p) = r {
                    // compilation is C06's business
                    if bigtt::bdd_big(p, n, &|l| cfg.idx(l)).ok().as_ref() == Some(want) {
                        items.push((format!("{} [{} store]", name, store), p, want.clone()));
                    }
                }
            }
        }
        rep.states += items.len() as u64;
        count_checks(&mut rep, cfg, "decision-DNNF", &items, &real, &ff);
    }
    rep.traces += 1;
    rep
}

/// decision nodes with hundreds of elements and distinct subs: a xorshift-filled truth table over 12 (11, 13)
/// variables as an SDD on vtrees whose root splits the variables 8 | 4, 7 | 5 (6 | 5, 9 | 4): the root has up to
/// 2^8 elements, almost all with different subs. Counts and evaluate against the table.
fn many_elements(ctx: &Ctx) -> Report {
    let items: Vec<(usize, usize, bool)> = ctx.tier.pick(vec![(12usize, 8usize, true), (12, 7, true), (11, 6, true), (12, 8, false)], vec![(12, 8, true), (12, 7, true), (11, 6, true), (13, 9, true), (12, 8, false), (12, 4, true), (10, 7, true)]);
    let mut r = par_run(ctx, &items, |_, (n, left, compress)| {
        let mut rep = Report::default();
        rep.exhaustive = true;
        let (n, left) = (*n, *left);
        let cfg = WCfg { width: n, labels: (0..n).collect(), reversed: false };
        let mut f = Big::konst(n, false);
        let mut x = (n as u64 * 31 + left as u64).wrapping_mul(0x9E3779B97F4A7C15) | 1;
        for w in f.w.iter_mut() {
            x ^= x << 13;
            x ^= x >> 7;
            x ^= x << 17;
            *w = x;
        }
        let labs = |r: std::ops::Range<usize>| r.map(|v| VarLabel::new(v as u64)).collect::<Vec<_>>();
        let vt = VTree::new_node(Box::new(VTree::right_linear(&labs(0..left))), Box::new(VTree::right_linear(&labs(left..n))));
        rsdd::verif::set_table_capacity(4);
        let mut b = CompressionSddBuilder::new(vt);
        rsdd::verif::set_table_capacity(0);
        rsdd::builder::sdd::SddBuilder::set_compression(&mut b, *compress);
        fn build<'a>(b: &'a CompressionSddBuilder<'a>, f: &Big, v: usize) -> SddPtr<'a> {
            if f.is_false() {
                return SddPtr::PtrFalse;
            }
            if f.is_true() {
                return SddPtr::PtrTrue;
            }
            let (lo, hi) = (build(b, &f.cofactor(v, false), v + 1), build(b, &f.cofactor(v, true), v + 1));
            let x = b.var(VarLabel::new(v as u64), true);
            b.or(b.and(x, hi), b.and(x.neg(), lo))
        }
        let p = match guarded(|| build(&b, &f, 0)) {
            Ok(p) => p,
            Err(_) => return rep, // construction is C03's business
        };
        if bigtt::sdd_big(p, n, &|l| Some(l)).ok().as_ref() != Some(&f) {
            return rep;
        }
        let elems = match p {
            SddPtr::Reg(o) | SddPtr::Compl(o) => o.iter().count(),
            _ => 0,
        };
        rep.max_depth = elems as u64;
        let real = real_params(n, &real_w);
        let ff = ff_params(n);
        rep.states += 1;
        count_checks(&mut rep, &cfg, &format!("SDD with a root of {} elements (vtree split {} | {}, compression {})", elems, left, n - left, compress), &[("xorshift-filled truth table".to_string(), p, f.clone())], &real, &ff);
        // evaluate on every assignment (count_checks samples eight)
        for a in 0..(1usize << n) {
            let v: Vec<bool> = (0..n).map(|i| (a >> i) & 1 == 1).collect();
            rep.evaluations += 1;
            match guarded(|| p.evaluate(&v)) {
                Ok(r) if r == f.eval(a) => {}
                Ok(r) => {
                    viol(&mut rep, "count:evaluate", &cfg, "wide_counts", format!("SDD with a root of {} elements: evaluate on assignment {:#b} gives {}, the function {}", elems, a, r, f.eval(a)));
                    break;
                }
                Err(e) => {
                    viol(&mut rep, "count:panic", &cfg, "wide_counts", format!("evaluate panicked: {}", e));
                    break;
                }
            }
        }
        rep.traces += 1;
        rep
    });
    r.bound("many_element_nodes", json!({"configurations": items.iter().map(|(n, l, c)| json!({"variables": n, "root_split": [l, n - l], "compression": c})).collect::<Vec<_>>(), "function": "xorshift-filled truth table", "checks": "real-valued and modular counts of both polarities against brute force, evaluate on every assignment"}));
    r.add_extra("largest_decision_node_elements", r.max_depth);
    r.max_depth = 0;
    r
}

pub fn counts(ctx: &Ctx) -> Report {
    let cfgs = configs(ctx);
    let mut r = par_run(ctx, &cfgs, |_, c| counts_cfg(c));
    r.merge(many_elements(ctx));
    r.bound("wide_managers", json!({"configurations": cfgs.iter().map(|c| c.json()).collect::<Vec<_>>(), "functions": "rule-defined families over the 8 table variables and their negations (BDD: all, SDD on the right-linear vtree over the whole manager: every second, decision-DNNF of both stores: a three-clause formula over every triple)", "checks": "real-valued and modular counts against the brute-force sum, evaluate on 8 assignments each"}));
    r.add_extra("wide_manager_count_checks", r.transitions);
    r
}

// ---------------------------------------------------------------------------------------------
// smoothing in wide managers (C08)

/// every edge of a diagram smoothed over all `width` levels goes from level i to level i + 1, terminals hang
/// below the last level only, and the root sits at level 0
fn fully_smoothed_defect(p: BddPtr, width: usize, level_of: &dyn Fn(usize) -> usize) -> Option<String> {
    fn rec(p: BddPtr, expect: usize, width: usize, level_of: &dyn Fn(usize) -> usize, seen: &mut HashMap<usize, usize>) -> Option<String> {
        match p {
            BddPtr::PtrTrue | BddPtr::PtrFalse => {
                if expect != width {
                    Some(format!("a path ends after testing {} of the {} levels (the level-{} variable is skipped)", expect, width, expect))
                } else {
                    None
                }
            }
            BddPtr::Reg(n) | BddPtr::Compl(n) => {
                let lv = level_of(n.var.value_usize());
                if lv != expect {
                    return Some(format!("a path reaches a node at level {} (label {}) where level {} is due", lv, n.var.value(), expect));
                }
                let addr = n as *const _ as usize;
                if seen.insert(addr, lv).is_some() {
                    return None;
                }
                rec(n.low, expect + 1, width, level_of, seen).or_else(|| rec(n.high, expect + 1, width, level_of, seen))
            }
        }
    }
    rec(p, 0, width, level_of, &mut HashMap::new())
}

/// function of a diagram over the table variables in which other labels may occur as don't-care tests
fn big_with_dont_cares(p: BddPtr, n: usize, idx: &dyn Fn(usize) -> Option<usize>) -> Result<Big, String> {
    fn rec(p: BddPtr, n: usize, idx: &dyn Fn(usize) -> Option<usize>, memo: &mut HashMap<usize, Big>) -> Result<Big, String> {
        match p {
            BddPtr::PtrTrue => Ok(Big::konst(n, true)),
            BddPtr::PtrFalse => Ok(Big::konst(n, false)),
            BddPtr::Reg(node) | BddPtr::Compl(node) => {
                let addr = node as *const _ as usize;
                let reg = if let Some(t) = memo.get(&addr) {
                    t.clone()
                } else {
                    let (lo, hi) = (rec(node.low, n, idx, memo)?, rec(node.high, n, idx, memo)?);
                    let t = match idx(node.var.value_usize()) {
                        Some(v) => Big::var(n, v).ite(&hi, &lo),
                        None => {
                            if lo != hi {
                                return Err(format!("the result depends on label {} which the function does not mention", node.var.value()));
                            }
                            lo
                        }
                    };
                    memo.insert(addr, t.clone());
                    t
                };
                Ok(if matches!(p, BddPtr::Compl(_)) { reg.not() } else { reg })
            }
        }
    }
    rec(p, n, idx, &mut HashMap::new())
}

/// non-normalised weights: table variables get distinct dyadic pairs, every other variable (0.5, 1.5)
fn smooth_w(cfg: &WCfg) -> impl Fn(usize) -> (f64, f64) + '_ {
    move |l: usize| match cfg.idx(l) {
        Some(v) => ((1 + v % 4) as f64 / 4.0, (2 + (v * 3) % 5) as f64 / 8.0),
        None => (0.5, 1.5),
    }
}

fn smooth_cfg(cfg: &WCfg, ctx: &Ctx) -> Report {
    let mut rep = Report::default();
    rep.exhaustive = true;
    let n = cfg.labels.len();
    let w = cfg.width;
    let reference = bigtt::families(&BigAlg(n));
    rsdd::verif::set_table_capacity(4);
    let b = RobddBuilder::<AllIteTable<BddPtr>>::new(cfg.order());
    rsdd::verif::set_table_capacity(0);
    let built = match guarded(|| bigtt::families(&BAlg { b: &b, lab: cfg.labels.clone() })) {
        Ok(v) => v,
        Err(e) => {
            viol(&mut rep, "panic", cfg, "wide_smooth", format!("building the operand families panicked: {}", e));
            return rep;
        }
    };
    let level_of = |l: usize| if cfg.reversed { w - 1 - l } else { l };
    let wf = smooth_w(cfg);
    let params = real_params(w, &wf);
    let unit = real_params(w, &|_| (1.0, 1.0));
    let scale = 2f64.powi((w - n) as i32);
    let step = ctx.tier.pick(3, 1);
    let mut subjects: Vec<(String, BddPtr, Big)> = reference.into_iter().zip(built.into_iter()).step_by(step).map(|((name, _, want), (_, _, p))| (name, p, want)).collect();
    // one sub-diagram reached from two levels: ite(xa, g, xb & g) and ite(xa, !g, xb | g) with g a literal
    // of a third table variable, for every ordered triple of distinct table variables (the two parents sit at
    // every pair of distances the label set offers, 32, 64, 128 and 256 levels among them)
    for a in 0..n {
        for c in 0..n {
            for d in 0..n {
                if a == c || a == d || c == d {
                    continue;
                }
                let lit = |v: usize, p: bool| b.var(VarLabel::new(cfg.labels[v] as u64), p);
                if let Ok(p) = guarded(|| b.ite(lit(a, true), lit(d, true), b.and(lit(c, true), lit(d, true)))) {
                    subjects.push((format!("ite(x{a}, x{d}, x{c} & x{d})"), p, Big::lit(n, a, true).ite(&Big::lit(n, d, true), &Big::lit(n, c, true).and(&Big::lit(n, d, true)))));
                }
                if (a + c + d) % 2 == 0 {
                    if let Ok(p) = guarded(|| b.ite(lit(a, true), lit(d, false), b.or(lit(c, true), lit(d, true)))) {
                        subjects.push((format!("ite(x{a}, !x{d}, x{c} | x{d})"), p, Big::lit(n, a, true).ite(&Big::lit(n, d, false), &Big::lit(n, c, true).or(&Big::lit(n, d, true)))));
                    }
                }
            }
        }
    }
    for (name, p, want) in subjects.into_iter() {
        if rep.n_violations > 8 {
            break;
        }
        if bigtt::bdd_big(p, n, &|l| cfg.idx(l)).ok().as_ref() != Some(&want) {
            continue; // construction is C01's business
        }
        for (pp, xx, pol) in [(p, want.clone(), ""), (p.neg(), want.not(), "not ")] {
            rep.transitions += 1;
            rep.states += 1;
            let s = match guarded(|| b.smooth(pp, w)) {
                Ok(s) => s,
                Err(e) => {
                    viol(&mut rep, "panic", cfg, "wide_smooth", format!("smooth({}{}, {}) panicked: {}", pol, name, w, e));
                    continue;
                }
            };
            rep.evaluations += 4;
            match big_with_dont_cares(s, n, &|l| cfg.idx(l)) {
                Ok(g) if g == xx => {}
                Ok(_) => viol(&mut rep, "smooth:function-changed", cfg, "wide_smooth", format!("smooth({}{}, {}) denotes another function", pol, name, w)),
                Err(e) => viol(&mut rep, "smooth:function-changed", cfg, "wide_smooth", format!("smooth({}{}, {}): {}", pol, name, w, e)),
            }
            if let Some(d) = fully_smoothed_defect(s, w, &level_of) {
                viol(&mut rep, "smooth:path-misses-level", cfg, "wide_smooth", format!("smooth({}{}, {}): {}", pol, name, w, d));
            }
            let want_w = brute_real(&xx, &cfg.labels, &wf) * scale;
            match guarded(|| s.unsmoothed_wmc(&params).0) {
                Ok(g) if g == want_w => {}
                Ok(g) => viol(&mut rep, "smooth:count-wrong", cfg, "wide_smooth", format!("count of smooth({}{}, {}) under non-normalised weights is {:e}, the sum over models is {:e}", pol, name, w, g, want_w)),
                Err(e) => viol(&mut rep, "panic", cfg, "wide_smooth", format!("count of smooth({}{}, {}) panicked: {}", pol, name, w, e)),
            }
            let want_c = xx.count() as f64 * scale;
            match guarded(|| s.unsmoothed_wmc(&unit).0) {
                Ok(g) if g == want_c => {}
                Ok(g) => viol(&mut rep, "smooth:count-wrong", cfg, "wide_smooth", format!("unweighted count of smooth({}{}, {}) is {:e}, the number of models is {:e}", pol, name, w, g, want_c)),
                Err(e) => viol(&mut rep, "panic", cfg, "wide_smooth", format!("count of smooth({}{}, {}) panicked: {}", pol, name, w, e)),
            }
        }
    }
    rep.traces += 1;
    rep
}

pub fn smooth(ctx: &Ctx) -> Report {
    let cfgs = configs(ctx);
    let mut r = par_run(ctx, &cfgs, |_, c| smooth_cfg(c, ctx));
    r.bound("wide_managers", json!({"configurations": cfgs.iter().map(|c| c.json()).collect::<Vec<_>>(), "functions": "rule-defined families over the 8 table variables and their negations", "checks": "smooth over all levels of the manager: function (other labels only as don't-care tests), every edge from level i to level i + 1 and terminals below the last level, weighted count under non-normalised weights and unweighted count against brute force"}));
    r.add_extra("wide_manager_smoothings", r.transitions);
    r
}

// ---------------------------------------------------------------------------------------------
// marginal MAP and branch and bound in wide managers (C12)

fn optimum_cfg(cfg: &WCfg, ctx: &Ctx) -> Report {
    let mut rep = Report::default();
    rep.exhaustive = true;
    let n = cfg.labels.len();
    let w = cfg.width;
    let reference = bigtt::families(&BigAlg(n));
    rsdd::verif::set_table_capacity(4);
    let b = RobddBuilder::<AllIteTable<BddPtr>>::new(cfg.order());
    rsdd::verif::set_table_capacity(0);
    let built = match guarded(|| bigtt::families(&BAlg { b: &b, lab: cfg.labels.clone() })) {
        Ok(v) => v,
        Err(e) => {
            viol(&mut rep, "panic", cfg, "wide_optimum", format!("building the operand families panicked: {}", e));
            return rep;
        }
    };
    // probability weights: normalised on every variable (query variables included)
    let params = real_params(w, &real_w);
    // query lists over table variables: every pair in both orders and a rotating triple
    let mut qlists: Vec<Vec<usize>> = Vec::new();
    for i in 0..n {
        qlists.push(vec![i]);
        for j in 0..n {
            if i != j {
                qlists.push(vec![i, j]);
            }
        }
        qlists.push(vec![i, (i + 3) % n, (i + 5) % n]);
    }
    let step = ctx.tier.pick(5, 2);
    for (fi, ((name, lvl, want), (_, _, p))) in reference.into_iter().zip(built.into_iter()).enumerate() {
        if rep.n_violations > 8 {
            break;
        }
        if want.is_const() || (lvl != 0 && (ctx.tier == Tier::Quick || fi % 3 != 0)) {
            continue;
        }
        if bigtt::bdd_big(p, n, &|l| cfg.idx(l)).ok().as_ref() != Some(&want) {
            continue;
        }
        for q in qlists.iter().skip(fi % step).step_by(step) {
            // value of every assignment of the query variables
            let mut vals: Vec<f64> = Vec::new();
            for a in 0..(1usize << q.len()) {
                let mut g = want.clone();
                let mut wq = 1.0;
                for (k, &v) in q.iter().enumerate() {
                    let val = (a >> k) & 1 == 1;
                    g = g.and(&Big::lit(n, v, val));
                    let _ = wq;
                    wq = 1.0;
                }
                let _ = wq;
                vals.push(brute_real(&g, &cfg.labels, &real_w));
            }
            let best = vals.iter().cloned().fold(f64::MIN, f64::max);
            let qvars: Vec<VarLabel> = q.iter().map(|&v| VarLabel::new(cfg.labels[v] as u64)).collect();
            for alg in ["marginal_map", "bb"] {
                rep.transitions += 1;
                rep.evaluations += 1;
                let r = guarded(|| {
                    if alg == "marginal_map" {
                        p.marginal_map(&qvars, w, &params)
                    } else {
                        let (v, m) = p.bb(&qvars, w, &params);
                        (v.0, m)
                    }
                });
                match r {
                    Err(e) => viol(&mut rep, &format!("optimum:{}", alg), cfg, "wide_optimum", format!("{} of {} with query variables {:?} panicked: {}", alg, name, q, e)),
                    Ok((val, m)) => {
                        if val != best {
                            viol(&mut rep, &format!("optimum:{}", alg), cfg, "wide_optimum", format!("{} of {} with query table variables {:?} returns {}, the maximum over the query assignments is {} (values {:?})", alg, name, q, val, best, vals));
                        } else {
                            let mut bits = 0usize;
                            let mut ok = true;
                            for (k, l) in qvars.iter().enumerate() {
                                match m.get(*l) {
                                    Some(true) => bits |= 1 << k,
                                    Some(false) => {}
                                    None => ok = false,
                                }
                            }
                            if !ok || vals[bits] != best {
                                viol(&mut rep, &format!("optimum:{}", alg), cfg, "wide_optimum", format!("{} of {} with query table variables {:?}: the returned assignment {:?} does not attain the optimum {}", alg, name, q, m, best));
                            }
                        }
                    }
                }
            }
        }
        // maximum expected utility: the two table variables at the smallest levels are decisions (unit weight), the
        // three at the largest levels carry non-negative utilities, all other variables are chance variables
        {
            let level_of = |l: usize| if cfg.reversed { w - 1 - l } else { l };
            let mut by_level: Vec<usize> = (0..n).collect();
            by_level.sort_by_key(|&v| level_of(cfg.labels[v]));
            let (d0, d1) = (by_level[0], by_level[1]);
            let rewarded: Vec<usize> = by_level[n - 3..].to_vec();
            let eu_w = |v: usize| -> ((f64, f64), (f64, f64)) {
                if v == d0 || v == d1 {
                    return ((1.0, 0.0), (1.0, 0.0));
                }
                let p = real_w(cfg.labels[v]).1;
                let u = if rewarded.contains(&v) { 1.0 + (v % 3) as f64 } else { 0.0 };
                ((1.0 - p, 0.0), (p, p * u))
            };
            // the count of a BDD that was not smoothed: a sub-function contributes only the variables it depends on
            fn dep(g: &Big, order: &[usize], w: &dyn Fn(usize) -> ((f64, f64), (f64, f64))) -> (f64, f64) {
                if g.is_false() {
                    return (0.0, 0.0);
                }
                if g.is_true() {
                    return (1.0, 0.0);
                }
                let v = *order.iter().find(|&&v| g.depends_on(v)).unwrap();
                let (lo, hi) = (dep(&g.cofactor(v, false), order, w), dep(&g.cofactor(v, true), order, w));
                let (wl, wh) = w(v);
                let m = |a: (f64, f64), b: (f64, f64)| (a.0 * b.0, a.0 * b.1 + a.1 * b.0);
                let (x, y) = (m(wl, lo), m(wh, hi));
                (x.0 + y.0, x.1 + y.1)
            }
            let params_eu: WmcParams<ExpectedUtility> = WmcParams::new(
                (0..w)
                    .map(|l| {
                        let (lo, hi) = match cfg.idx(l) {
                            Some(v) => eu_w(v),
                            None => ((0.5, 0.0), (0.5, 0.0)),
                        };
                        (VarLabel::new(l as u64), (ExpectedUtility(lo.0, lo.1), ExpectedUtility(hi.0, hi.1)))
                    })
                    .collect::<HashMap<_, _>>(),
            );
            for q in [vec![d0], vec![d0, d1], vec![d1, d0]] {
                let mut vals: Vec<f64> = Vec::new();
                for a in 0..(1usize << q.len()) {
                    let mut g = want.clone();
                    for (k, &v) in q.iter().enumerate() {
                        g = g.cofactor(v, (a >> k) & 1 == 1);
                    }
                    vals.push(dep(&g, &by_level, &eu_w).1);
                }
                let best = vals.iter().cloned().fold(f64::MIN, f64::max);
                let qvars: Vec<VarLabel> = q.iter().map(|&v| VarLabel::new(cfg.labels[v] as u64)).collect();
                for alg in ["meu", "bb<ExpectedUtility>"] {
                    rep.transitions += 1;
                    rep.evaluations += 1;
                    match guarded(|| if alg == "meu" { p.meu(&qvars, w, &params_eu) } else { p.bb(&qvars, w, &params_eu) }) {
                        Err(e) => viol(&mut rep, &format!("optimum:{}", alg), cfg, "wide_optimum", format!("{} of {} with decision table variables {:?} panicked: {}", alg, name, q, e)),
                        Ok((val, m)) => {
                            let mut bits = 0usize;
                            let mut ok = true;
                            for (k, l) in qvars.iter().enumerate() {
                                match m.get(*l) {
                                    Some(true) => bits |= 1 << k,
                                    Some(false) => {}
                                    None => ok = false,
                                }
                            }
                            if val.1 != best {
                                viol(&mut rep, &format!("optimum:{}", alg), cfg, "wide_optimum", format!("{} of {} with decision table variables {:?} returns expected utility {}, the maximum over the decision assignments is {} (values {:?})", alg, name, q, val.1, best, vals));
                            } else if !ok || vals[bits] != best {
                                viol(&mut rep, &format!("optimum:{}", alg), cfg, "wide_optimum", format!("{} of {} with decision table variables {:?}: the returned decision {:?} does not attain the optimum {}", alg, name, q, m, best));
                            }
                        }
                    }
                }
            }
        }
        rep.states += 1;
    }
    rep.traces += 1;
    rep
}

pub fn optimum(ctx: &Ctx) -> Report {
    let cfgs: Vec<WCfg> = configs(ctx).into_iter().filter(|c| c.width <= 130).collect();
    let mut r = par_run(ctx, &cfgs, |_, c| optimum_cfg(c, ctx));
    r.bound("wide_managers", json!({"configurations": cfgs.iter().map(|c| c.json()).collect::<Vec<_>>(), "functions": "rule-defined families over the 8 table variables", "query_lists": "every single table variable, every ordered pair, a rotating triple", "checks": "marginal_map and bb<RealSemiring>: value equals the brute-force maximum and the returned assignment attains it; meu and bb<ExpectedUtility> with the two lowest-level table variables as decisions and utilities on the three highest-level ones against the depends-on recursion"}));
    r.add_extra("wide_manager_optimisation_queries", r.transitions);
    r
}

pub fn replay(ctx: &Ctx, case: &Value) -> Option<Report> {
    match case["kind"].as_str() {
        Some("wide_counts") => Some(counts(ctx)),
        Some("wide_smooth") => Some(smooth(ctx)),
        Some("wide_optimum") => Some(optimum(ctx)),
        _ => None,
    }
}

#[allow(dead_code)]
fn _unused(_: &PartialModel) {}
