//! C04 – SDDs of the compressing builder are vtree-normalised, compressed, trimmed, canonical.
use crate::core::*;
use serde_json::{json, Value};
pub fn run(ctx: &Ctx) -> Report {
    let mut r = crate::props::sddsweep::run_all(ctx, false);
    crate::props::sddsweep::filter_for(&mut r, "C04");
    let walked = r.extra.get("sdd_nodes_walked").and_then(|v| v.as_u64()).unwrap_or(0);
    r.floor("decision nodes checked for the normal form", walked, 100);
    r.set_extra("note", json!("normal-form and canonicity checks apply to configurations with compression on"));
    r
}
pub fn replay(ctx: &Ctx, case: &Value) -> Report {
    crate::props::sddsweep::replay_for(ctx, "C04", case)
}
