//! C05 – bottom-up compilation of CNFs, expressions and plans is exact.
//! Input-space enumeration: CNFs (clause sequences) x orders x vtrees x partial models;
//! expression trees; dtree-derived plans and small plan trees with constants.

use crate::core::*;
use crate::enumerate::*;
use crate::props::bddutil::*;
use crate::tt::{self, TT};
use crate::walk::*;
use rsdd::builder::bdd::BddBuilder;
use rsdd::builder::sdd::CompressionSddBuilder;
use rsdd::builder::BottomUpBuilder;
use rsdd::plan::BottomUpPlan;
use rsdd::repr::{BddPtr, DTree, PartialModel, SddPtr, VTree, VarLabel};
use serde_json::{json, Value};

fn sdd_builder<'a>(vt: &VT, cap: usize) -> CompressionSddBuilder<'a> {
    rsdd::verif::set_table_capacity(cap);
    let b = CompressionSddBuilder::new(vt.to_rsdd());
    rsdd::verif::set_table_capacity(0);
    b
}

fn model_of(code: usize, n: usize) -> (PartialModel, Vec<Option<bool>>) {
    let mut a = Vec::new();
    let mut c = code;
    for _ in 0..n {
        a.push(match c % 3 {
            0 => None,
            1 => Some(true),
            _ => Some(false),
        });
        c /= 3;
    }
    (crate::props::wparams::build_model(&a, code), a)
}

#[derive(Default)]
struct Cn {
    bdd_compiles: u64,
    sdd_compiles: u64,
    assign_compiles: u64,
    plan_compiles: u64,
}

fn vtrees_for(nv: usize) -> Vec<VT> {
    if nv == 0 {
        vec![VT::Leaf(0)]
    } else {
        all_vtrees(nv)
    }
}

/// quick tier: the history regimes (recompilation after a compilation under an assignment, look-alike
/// formulas on one builder) take a rotating quarter / eighth of their cases (a bottom-up CNF compilation
/// costs about 0.3 ms in this build); the thorough tier takes all
static LIGHT: std::sync::atomic::AtomicBool = std::sync::atomic::AtomicBool::new(false);
fn light() -> bool {
    LIGHT.load(std::sync::atomic::Ordering::Relaxed)
}

/// formulas one small edit away from `c` that still mention exactly `nv` variables
pub fn neighbours(c: &[Clause], nv: usize) -> Vec<Vec<Clause>> {
    let mut out: Vec<Vec<Clause>> = Vec::new();
    for (i, cl) in c.iter().enumerate() {
        for k in 0..cl.len() {
            let mut x = c.to_vec();
            x[i].remove(k);
            out.push(x);
            let mut y = c.to_vec();
            y[i][k].1 = !y[i][k].1;
            out.push(y);
        }
        for v in 0..nv {
            for p in [true, false] {
                if !cl.contains(&(v, p)) {
                    let mut x = c.to_vec();
                    x[i].push((v, p));
                    out.push(x);
                }
            }
        }
        let mut x = c.to_vec();
        x.remove(i);
        out.push(x);
        let mut y = c.to_vec();
        y.push(cl.clone());
        out.push(y);
    }
    out.retain(|x| num_vars(x) == nv && x != c);
    out
}

/// all checks for one clause list; returns (key, text, replay)
fn check_cnf(clauses: &[Clause], cn: &mut Cn, with_models: bool) -> Option<(String, String)> {
    let cnf = to_cnf(clauses);
    let nv = cnf.num_vars();
    let f: TT = tt::of_cnf(clauses, nv);
    for order in permutations(nv) {
        let b = small_builder(&order, 4);
        let r = match guarded(|| b.compile_cnf(&cnf)) {
            Ok(r) => r,
            Err(p) => return Some(("bdd-cnf-panic".into(), format!("order {:?}: compile_cnf panicked: {}", order, p))),
        };
        cn.bdd_compiles += 1;
        let g = bdd_tt(r, nv);
        if g != f {
            return Some(("bdd-cnf".into(), format!("order {:?}: compile_cnf has models {:#x}, the CNF {:#x}", order, g, f)));
        }
        if with_models {
            for code in 0..3usize.pow(nv as u32) {
                let (m, a) = model_of(code, nv);
                let r2 = match guarded(|| b.compile_cnf_with_assignments(&cnf, &m)) {
                    Ok(r) => r,
                    Err(p) => return Some(("bdd-assign-panic".into(), format!("order {:?} model {:?}: panicked: {}", order, a, p))),
                };
                cn.assign_compiles += 1;
                let mut want = f;
                for (v, x) in a.iter().enumerate() {
                    if let Some(val) = x {
                        want = tt::cofactor(want, v, *val, nv);
                    }
                }
                let g2 = bdd_tt(r2, nv);
                if g2 != want {
                    return Some(("bdd-assign".into(), format!("order {:?}: compile_cnf_with_assignments({:?}) denotes {:#x}, the restricted CNF {:#x}", order, a, g2, want)));
                }
                let r3 = match guarded(|| b.condition_model(r, &m)) {
                    Ok(r) => r,
                    Err(p) => return Some(("bdd-assign-panic".into(), format!("condition_model panicked: {}", p))),
                };
                if r2 != r3 {
                    return Some(("bdd-assign-not-same-diagram".into(), format!("order {:?} model {:?}: compiling under the assignment and compile-then-condition give different diagrams", order, a)));
                }
                // ask, disturb, ask again: compiling the plain formula once more on the same builder (from
                // the same object and from an equal formula constructed separately) after a compilation
                // under an assignment must give the first answer again
                if !crate::core::disabled("recompile") && (!light() || (code + cn.assign_compiles as usize / 27) % 4 == 0) {
                    let again = if code % 2 == 0 { guarded(|| b.compile_cnf(&cnf)) } else { guarded(|| b.compile_cnf(&to_cnf(clauses))) };
                    cn.bdd_compiles += 1;
                    match again {
                        Ok(r5) => {
                            if bdd_tt(r5, nv) != f || r5 != r {
                                return Some(("bdd-cnf".into(), format!("order {:?}: compile_cnf after compile_cnf_with_assignments({:?}) on the same builder has models {:#x} (same diagram as the first compilation: {}), the CNF {:#x}", order, a, bdd_tt(r5, nv), r5 == r, f)));
                            }
                        }
                        Err(p) => return Some(("bdd-cnf-panic".into(), format!("order {:?}: compile_cnf after compile_cnf_with_assignments({:?}) panicked: {}", order, a, p))),
                    }
                }
            }
        }
        // look-alikes on the same builder: every formula one small edit away from this one (a literal removed,
        // added or flipped, a clause dropped or repeated) is compiled next, then this one again - a builder
        // that remembers compilations under too coarse a key confuses exactly these
        if with_models && clauses.len() <= 2 && !crate::core::disabled("lookalike") && (!light() || (cn.assign_compiles / 27) % 8 == 0 || nv <= 2) {
            for other in crate::props::c05::neighbours(clauses, nv) {
                let fo = tt::of_cnf(&other, nv);
                cn.bdd_compiles += 2;
                match guarded(|| (b.compile_cnf(&to_cnf(&other)), b.compile_cnf(&cnf))) {
                    Ok((ro, ra)) => {
                        if bdd_tt(ro, nv) != fo {
                            return Some(("bdd-cnf".into(), format!("order {:?}: on the builder that had compiled this formula, compile_cnf of {} has models {:#x}, that CNF has {:#x}", order, cnf_json(&other), bdd_tt(ro, nv), fo)));
                        }
                        if bdd_tt(ra, nv) != f || ra != r {
                            return Some(("bdd-cnf".into(), format!("order {:?}: compiled again after {} the formula has models {:#x} (same diagram as before: {}), the CNF {:#x}", order, cnf_json(&other), bdd_tt(ra, nv), ra == r, f)));
                        }
                    }
                    Err(p) => return Some(("bdd-cnf-panic".into(), format!("order {:?}: compiling {} after this formula panicked: {}", order, cnf_json(&other), p))),
                }
            }
        }
        // dtree plan with this order as elimination order
        if !clauses.is_empty() {
            let vo = order_of(&order);
            match guarded(|| BottomUpPlan::from_dtree(&DTree::from_cnf(&cnf, &vo))) {
                Ok(plan) => {
                    let r4 = match guarded(|| b.compile_plan(&plan)) {
                        Ok(r) => r,
                        Err(p) => return Some(("bdd-plan-panic".into(), format!("compile_plan panicked: {}", p))),
                    };
                    cn.plan_compiles += 1;
                    if bdd_tt(r4, nv) != f {
                        return Some(("bdd-plan".into(), format!("elimination/variable order {:?}: dtree plan compiles to {:#x}, the CNF is {:#x}", order, bdd_tt(r4, nv), f)));
                    }
                    if r4 != r {
                        return Some(("bdd-plan-not-canonical".into(), format!("order {:?}: plan and clause compilation give different pointers for one function", order)));
                    }
                }
                Err(p) => return Some(("plan-panic".into(), format!("from_dtree panicked: {}", p))),
            }
        }
    }
    // SDD: every vtree over the CNF's variables + every dtree-derived vtree
    let mut vts: Vec<VT> = vtrees_for(nv);
    if !clauses.is_empty() {
        for elim in permutations(nv) {
            if let Ok(Some(v)) = guarded(|| VTree::from_dtree(&DTree::from_cnf(&cnf, &order_of(&elim)))) {
                let vt = VT::from_rsdd(&v);
                if !vts.contains(&vt) {
                    vts.push(vt);
                }
            }
        }
    }
    let occurring: u32 = clauses.iter().flat_map(|c| c.iter()).fold(0, |m, l| m | (1 << l.0));
    for vt in vts.iter() {
        if occurring & !vt.leaf_mask() != 0 {
            continue;
        }
        let b = sdd_builder(vt, 4);
        let r = match guarded(|| b.compile_cnf(&cnf)) {
            Ok(r) => r,
            Err(p) => return Some(("sdd-cnf-panic".into(), format!("vtree {}: compile_cnf panicked: {}", vt.show(), p))),
        };
        cn.sdd_compiles += 1;
        let g = sdd_tt(r, nv);
        if g != f {
            return Some(("sdd-cnf".into(), format!("vtree {}: compile_cnf has models {:#x}, the CNF {:#x}", vt.show(), g, f)));
        }
        if !clauses.is_empty() {
            for elim in permutations(nv).into_iter().take(2) {
                if let Ok(plan) = guarded(|| BottomUpPlan::from_dtree(&DTree::from_cnf(&cnf, &order_of(&elim)))) {
                    let r4 = match guarded(|| b.compile_plan(&plan)) {
                        Ok(r) => r,
                        Err(p) => return Some(("sdd-plan-panic".into(), format!("vtree {}: compile_plan panicked: {}", vt.show(), p))),
                    };
                    cn.plan_compiles += 1;
                    if sdd_tt(r4, nv) != f {
                        return Some(("sdd-plan".into(), format!("vtree {} elimination order {:?}: plan compiles to {:#x}, CNF is {:#x}", vt.show(), elim, sdd_tt(r4, nv), f)));
                    }
                    if r4 != r {
                        return Some(("sdd-plan-not-canonical".into(), format!("vtree {}: plan and clause compilation give different pointers", vt.show())));
                    }
                }
            }
        }
    }
    None
}


fn relabel_vt(vt: &VT, map: &[usize]) -> VT {
    match vt {
        VT::Leaf(i) => VT::Leaf(map[*i]),
        VT::Node(l, r) => VT::Node(Box::new(relabel_vt(l, map)), Box::new(relabel_vt(r, map))),
    }
}

/// the same CNF written over sparse, large labels (`map[i]` = label of small variable i) in a
/// wide manager: compiled under the identity, the reversed and a rotated order (BDD) and under
/// every vtree over the occurring labels (SDD); models are read over the occurring labels
fn check_cnf_sparse(clauses: &[Clause], map: &[usize], cn: &mut Cn) -> Option<(String, String)> {
    let k = map.len();
    let f: TT = tt::of_cnf(clauses, k);
    let wide: Vec<Clause> = clauses.iter().map(|c| c.iter().map(|&(v, p)| (map[v], p)).collect()).collect();
    let cnf = to_cnf(&wide);
    let nvw = cnf.num_vars();
    let idx = |l: usize| map.iter().position(|&m| m == l);
    let id: Vec<usize> = (0..nvw).collect();
    let rev: Vec<usize> = (0..nvw).rev().collect();
    let rot: Vec<usize> = (0..nvw).map(|i| (i + nvw / 2) % nvw.max(1)).collect();
    for order in [id, rev, rot] {
        let b = small_builder(&order, 4);
        let r = match guarded(|| b.compile_cnf(&cnf)) {
            Ok(r) => r,
            Err(p) => return Some(("bdd-cnf-panic".into(), format!("labels {:?}, order {}..: compile_cnf panicked: {}", map, order.first().cloned().unwrap_or(0), p))),
        };
        cn.bdd_compiles += 1;
        match bdd_tt_mapped(r, k, &idx) {
            Ok(g) => {
                if g != f {
                    return Some(("bdd-cnf".into(), format!("labels {:?}, order starting {:?}: compile_cnf has models {:#x} over the occurring labels, the CNF {:#x}", map, &order[..order.len().min(3)], g, f)));
                }
            }
            Err(e) => return Some(("bdd-cnf".into(), format!("labels {:?}: {}", map, e))),
        }
    }
    let used: Vec<usize> = (0..k).filter(|v| clauses.iter().any(|c| c.iter().any(|l| l.0 == *v))).collect();
    if used.len() == k && k >= 1 {
        for vt in vtrees_for(k) {
            let wvt = relabel_vt(&vt, map);
            let b = sdd_builder(&wvt, 4);
            let r = match guarded(|| b.compile_cnf(&cnf)) {
                Ok(r) => r,
                Err(p) => return Some(("sdd-cnf-panic".into(), format!("labels {:?}, vtree {}: compile_cnf panicked: {}", map, wvt.show(), p))),
            };
            cn.sdd_compiles += 1;
            match sdd_tt_mapped(r, k, &idx) {
                Ok(g) => {
                    if g != f {
                        return Some(("sdd-cnf".into(), format!("labels {:?}, vtree {}: compile_cnf has models {:#x}, the CNF {:#x}", map, wvt.show(), g, f)));
                    }
                }
                Err(e) => return Some(("sdd-cnf".into(), format!("labels {:?}: {}", map, e))),
            }
        }
    }
    None
}

const SPARSE_MAPS: [[usize; 3]; 4] = [[0, 64, 1], [63, 64, 127], [5, 69, 133], [128, 0, 64]];

fn check_expr(e: &Ex, cn: &mut Cn) -> Option<(String, String)> {
    let vars = e.vars();
    let n = vars.len();
    let (f, _) = e.tt();
    let mut idx = vec![usize::MAX; 32];
    for (i, v) in vars.iter().enumerate() {
        idx[*v] = i;
    }
    // two renderings of the same text: negated variables as negative literals, and every Not
    // kept as a Not node (stacked negations included)
    let mut les = vec![("literal form", e.to_logical(&idx))];
    if e.has_negated_var() {
        les.push(("plain form", e.to_logical_plain(&idx)));
    }
    for (form, le) in les.iter() {
        for order in permutations(n) {
            let b = small_builder(&order, 4);
            match guarded(|| b.compile_logical_expr(le)) {
                Ok(r) => {
                    cn.bdd_compiles += 1;
                    if bdd_tt(r, n) != f {
                        return Some(("bdd-expr".into(), format!("{}, order {:?}: compiles to {:#x}, the expression denotes {:#x}", form, order, bdd_tt(r, n), f)));
                    }
                }
                Err(p) => return Some(("bdd-expr-panic".into(), format!("compile_logical_expr panicked: {}", p))),
            }
            // the same compilation on a builder that has been used by another feature family first:
            // every literal and every two-literal conjunction / disjunction conditioned on every literal and
            // quantified over every variable (conditioning and compilation share the builder's tables); then
            // the result is conditioned on every literal and the expression compiled once more
            if n >= 1 && !crate::core::disabled("warmexpr") {
                let b = small_builder(&order, 4);
                let r = guarded(|| {
                    let lits: Vec<BddPtr> = (0..n).flat_map(|v| [b.var(VarLabel::new(v as u64), true), b.var(VarLabel::new(v as u64), false)]).collect();
                    let mut roots = lits.clone();
                    for i in 0..lits.len() {
                        for j in 0..lits.len() {
                            if i / 2 != j / 2 {
                                roots.push(b.and(lits[i], lits[j]));
                                roots.push(b.or(lits[i], lits[j]));
                            }
                        }
                    }
                    for &p in roots.iter() {
                        for v in 0..n {
                            let _ = b.condition(p, VarLabel::new(v as u64), true);
                            let _ = b.condition(p, VarLabel::new(v as u64), false);
                            let _ = b.exists(p, VarLabel::new(v as u64));
                        }
                    }
                    let r1 = b.compile_logical_expr(le);
                    let mut conds = Vec::new();
                    for v in 0..n {
                        for val in [true, false] {
                            conds.push((v, val, b.condition(r1, VarLabel::new(v as u64), val)));
                        }
                    }
                    (r1, conds, b.compile_logical_expr(le))
                });
                cn.bdd_compiles += 2;
                match r {
                    Ok((r1, conds, r2)) => {
                        if bdd_tt(r1, n) != f || bdd_tt(r2, n) != f {
                            return Some(("bdd-expr".into(), format!("{}, order {:?}, on a builder that had conditioned and quantified literals and two-literal diagrams before: compiles to {:#x} (again after conditioning the result: {:#x}), the expression denotes {:#x}", form, order, bdd_tt(r1, n), bdd_tt(r2, n), f)));
                        }
                        for (v, val, c) in conds {
                            if bdd_tt(c, n) != tt::cofactor(f, v, val, n) {
                                return Some(("bdd-expr".into(), format!("{}, order {:?}: the compiled expression conditioned on x{} = {} denotes {:#x}, the restricted expression is {:#x}", form, order, v, val, bdd_tt(c, n), tt::cofactor(f, v, val, n))));
                            }
                        }
                    }
                    Err(p) => return Some(("bdd-expr-panic".into(), format!("compile_logical_expr on a used builder panicked: {}", p))),
                }
            }
        }
        for vt in all_vtrees(n) {
            let b = sdd_builder(&vt, 4);
            match guarded(|| b.compile_logical_expr(le)) {
                Ok(r) => {
                    cn.sdd_compiles += 1;
                    if sdd_tt(r, n) != f {
                        return Some(("sdd-expr".into(), format!("{}, vtree {}: compiles to {:#x}, the expression denotes {:#x}", form, vt.show(), sdd_tt(r, n), f)));
                    }
                }
                Err(p) => return Some(("sdd-expr-panic".into(), format!("compile_logical_expr panicked: {}", p))),
            }
        }
    }
    None
}

// small plan trees including constants -------------------------------------------------------

#[derive(Clone, Debug)]
enum Pl {
    T,
    F,
    Lit(usize, bool),
    Not(Box<Pl>),
    And(Box<Pl>, Box<Pl>),
    Or(Box<Pl>, Box<Pl>),
    Iff(Box<Pl>, Box<Pl>),
    Ite(Box<Pl>, Box<Pl>, Box<Pl>),
}

impl Pl {
    fn tt(&self, n: usize) -> TT {
        match self {
            Pl::T => tt::mask(n),
            Pl::F => 0,
            Pl::Lit(v, p) => tt::lit(*v, *p, n),
            Pl::Not(a) => tt::not(a.tt(n), n),
            Pl::And(a, b) => a.tt(n) & b.tt(n),
            Pl::Or(a, b) => a.tt(n) | b.tt(n),
            Pl::Iff(a, b) => tt::iff(a.tt(n), b.tt(n), n),
            Pl::Ite(a, b, c) => tt::ite(a.tt(n), b.tt(n), c.tt(n), n),
        }
    }
    fn to_plan(&self) -> BottomUpPlan {
        match self {
            Pl::T => BottomUpPlan::ConstTrue,
            Pl::F => BottomUpPlan::ConstFalse,
            Pl::Lit(v, p) => BottomUpPlan::literal(VarLabel::new(*v as u64), *p),
            Pl::Not(a) => BottomUpPlan::not(a.to_plan()),
            Pl::And(a, b) => BottomUpPlan::and(a.to_plan(), b.to_plan()),
            Pl::Or(a, b) => BottomUpPlan::or(a.to_plan(), b.to_plan()),
            Pl::Iff(a, b) => BottomUpPlan::iff(a.to_plan(), b.to_plan()),
            Pl::Ite(a, b, c) => BottomUpPlan::ite(a.to_plan(), b.to_plan(), c.to_plan()),
        }
    }
}

fn plans(depth: usize) -> Vec<Pl> {
    let leaves = vec![Pl::T, Pl::F, Pl::Lit(0, true), Pl::Lit(0, false), Pl::Lit(1, true), Pl::Lit(1, false)];
    let mut level: Vec<Pl> = leaves.clone();
    let mut all = leaves.clone();
    for _ in 0..depth {
        let mut next = Vec::new();
        for a in level.iter() {
            next.push(Pl::Not(Box::new(a.clone())));
            for b in leaves.iter() {
                next.push(Pl::And(Box::new(a.clone()), Box::new(b.clone())));
                next.push(Pl::Or(Box::new(b.clone()), Box::new(a.clone())));
                next.push(Pl::Iff(Box::new(a.clone()), Box::new(b.clone())));
                for c in leaves.iter() {
                    next.push(Pl::Ite(Box::new(a.clone()), Box::new(b.clone()), Box::new(c.clone())));
                    next.push(Pl::Ite(Box::new(b.clone()), Box::new(a.clone()), Box::new(c.clone())));
                    next.push(Pl::Ite(Box::new(b.clone()), Box::new(c.clone()), Box::new(a.clone())));
                }
            }
        }
        all.extend(next.iter().cloned());
        level = next;
    }
    all
}

fn check_plan(p: &Pl, cn: &mut Cn) -> Option<(String, String)> {
    let n = 2;
    let f = p.tt(n);
    let plan = p.to_plan();
    for order in permutations(n) {
        let b = small_builder(&order, 4);
        match guarded(|| b.compile_plan(&plan)) {
            Ok(r) => {
                cn.plan_compiles += 1;
                if bdd_tt(r, n) != f {
                    return Some(("bdd-plan-tree".into(), format!("order {:?}: plan compiles to {:#x}, it denotes {:#x}", order, bdd_tt(r, n), f)));
                }
            }
            Err(e) => return Some(("bdd-plan-tree-panic".into(), format!("compile_plan panicked: {}", e))),
        }
    }
    for vt in all_vtrees(n) {
        let b = sdd_builder(&vt, 4);
        match guarded(|| b.compile_plan(&plan)) {
            Ok(r) => {
                cn.plan_compiles += 1;
                if sdd_tt(r, n) != f {
                    return Some(("sdd-plan-tree".into(), format!("vtree {}: plan compiles to {:#x}, it denotes {:#x}", vt.show(), sdd_tt(r, n), f)));
                }
            }
            Err(e) => return Some(("sdd-plan-tree-panic".into(), format!("compile_plan panicked: {}", e))),
        }
    }
    None
}

pub fn run(ctx: &Ctx) -> Report {
    LIGHT.store(ctx.tier == Tier::Quick, std::sync::atomic::Ordering::Relaxed);
    let mut rep = Report::new(
        "CNFs as clause sequences (4^n clause types per clause: absent/positive/negative/both; empty formula, empty/unit/tautological/duplicate clauses; n = 2 clauses with repeated literals; a > 20-clause family) x every variable order (BDD) x every vtree and every dtree-derived vtree (SDD) x all 3^n partial models (compile-with-assignments == compile-then-condition); every expression tree with <= k connectives over 3 variables x all orders x all vtrees; dtree plans for every elimination order and all small plan trees with constants; models compared with direct clause/expression evaluation; distinct = (input, configuration); non-trivial = input neither valid nor unsatisfiable",
    );
    // (i) clause sequences
    let mut fams: Vec<(usize, Vec<Vec<usize>>, &str, bool)> = Vec::new();
    match ctx.tier {
        Tier::Quick => {
            fams.push((3, sequences(64, 2), "n3_sequences_le2", true));
            fams.push((3, multisets(64, 3).into_iter().filter(|m| m.len() == 3).step_by(37).collect(), "n3_multisets_3_every_37th", true));
        }
        Tier::Thorough => {
            fams.push((3, sequences(64, 2), "n3_sequences_le2", true));
            fams.push((3, sequences(64, 3).into_iter().filter(|m| m.len() == 3).collect(), "n3_sequences_3", false));
            fams.push((3, multisets(64, 3).into_iter().filter(|m| m.len() == 3).step_by(3).collect(), "n3_multisets_3_every_3rd_with_partial_models", true));
            fams.push((4, multisets(256, 2), "n4_multisets_le2", false));
        }
    }
    for (n, mut sets, name, with_models) in fams {
        let types = clause_types(n);
        ctx.rotate(&mut sets);
        let chunks: Vec<&[Vec<usize>]> = sets.chunks(32).collect();
        let fam = par_run(ctx, &chunks, |_, chunk| {
            let mut r = Report::default();
            r.exhaustive = true;
            let mut cn = Cn::default();
            for s in chunk.iter() {
                let clauses: Vec<Clause> = s.iter().map(|&i| types[i].clone()).collect();
                r.states += 1;
                r.traces += 1;
                let nv = num_vars(&clauses);
                let f = tt::of_cnf(&clauses, nv);
                if f != 0 && f != tt::mask(nv) {
                    r.distinct_nontrivial += 1;
                }
                if let Some((k, w)) = check_cnf(&clauses, &mut cn, with_models) {
                    r.violation(format!("compile:{}", k), format!("cnf {}: {}", cnf_json(&clauses), w), json!({"kind": "cnf", "cnf": cnf_json(&clauses)}));
                }
                if r.n_violations > 16 {
                    break;
                }
            }
            r.transitions += cn.bdd_compiles + cn.sdd_compiles + cn.assign_compiles + cn.plan_compiles;
            r.add_extra("bdd_compilations", cn.bdd_compiles);
            r.add_extra("sdd_compilations", cn.sdd_compiles);
            r.add_extra("compilations_under_assignment", cn.assign_compiles);
            r.add_extra("plan_compilations", cn.plan_compiles);
            r
        });
        rep.add_extra(&format!("{}_cnfs", name), fam.states);
        rep.bound(name, json!({"variables": n, "cnfs": sets.len()}));
        rep.merge(fam);
    }
    // (ii) literal repetition, n = 2; (iii) more than 20 clauses
    {
        let lits: Vec<Lit> = vec![(0, true), (0, false), (1, true), (1, false)];
        let cl: Vec<Clause> = sequences(4, 3).into_iter().map(|s| s.into_iter().map(|i| lits[i]).collect()).collect();
        let mut lists: Vec<Vec<Clause>> = sequences(cl.len(), 2).into_iter().map(|s| s.iter().map(|&i| cl[i].clone()).collect()).collect();
        let types = clause_types(3);
        let pads: Vec<Clause> = vec![vec![(0, true), (0, false)], vec![(2, true), (1, false), (2, false)]];
        let step = ctx.tier.pick(53, 7);
        for s in multisets(64, 3).into_iter().filter(|m| m.len() == 3).step_by(step) {
            for pad in pads.iter() {
                let mut c: Vec<Clause> = s.iter().map(|&i| types[i].clone()).collect();
                if c.iter().any(|x| x.is_empty()) {
                    continue;
                }
                // interleave 20 copies of a tautological clause (the function is unchanged)
                for k in 0..20 {
                    c.insert((k * 3) % (c.len() + 1), pad.clone());
                }
                lists.push(c);
            }
        }
        // long inputs: clauses with up to maxk literals and lists of up to maxk unit clauses
        lists.extend(long_lists(ctx.tier.pick(9, 14)));
        // clause counts around the powers of two up to 70 (every position marked in turn)
        lists.extend(long_unit_lists(&ctx.tier.pick(vec![31, 32, 33, 48, 64, 65], vec![15, 16, 17, 31, 32, 33, 47, 48, 49, 63, 64, 65, 70])));
        let chunks: Vec<&[Vec<Clause>]> = lists.chunks(64).collect();
        let fam = par_run(ctx, &chunks, |_, chunk| {
            let mut r = Report::default();
            r.exhaustive = true;
            let mut cn = Cn::default();
            for clauses in chunk.iter() {
                r.states += 1;
                r.traces += 1;
                if let Some((k, w)) = check_cnf(clauses, &mut cn, clauses.len() < 10) {
                    r.violation(format!("compile:{}", k), format!("cnf {}: {}", cnf_json(clauses), w), json!({"kind": "cnf", "cnf": cnf_json(clauses)}));
                }
                if r.n_violations > 16 {
                    break;
                }
            }
            r.transitions += cn.bdd_compiles + cn.sdd_compiles + cn.assign_compiles + cn.plan_compiles;
            r
        });
        rep.add_extra("repeated_literal_and_long_cnfs", fam.states);
        rep.merge(fam);
    }
    // (iv) sparse, large labels (wide managers: labels on both sides of every machine-word
    // boundary up to 133): every sequence of <= 2 clauses over 3 variables, relabelled
    {
        let types = clause_types(3);
        let mut sets = sequences(64, 2);
        if ctx.tier == Tier::Thorough {
            sets.extend(multisets(64, 3).into_iter().filter(|m| m.len() == 3).step_by(11));
        }
        let maps: Vec<[usize; 3]> = SPARSE_MAPS.to_vec();
        let chunks: Vec<&[Vec<usize>]> = sets.chunks(64).collect();
        let fam = par_run(ctx, &chunks, |_, chunk| {
            let mut r = Report::default();
            r.exhaustive = true;
            let mut cn = Cn::default();
            for s in chunk.iter() {
                let clauses: Vec<Clause> = s.iter().map(|&i| types[i].clone()).collect();
                for m in maps.iter() {
                    r.states += 1;
                    r.traces += 1;
                    if let Some((k, w)) = check_cnf_sparse(&clauses, m, &mut cn) {
                        r.violation(format!("compile:{}", k), format!("cnf {} relabelled by {:?}: {}", cnf_json(&clauses), m, w), json!({"kind": "sparse", "cnf": cnf_json(&clauses), "map": m.to_vec()}));
                    }
                }
                if r.n_violations > 16 {
                    break;
                }
            }
            r.transitions += cn.bdd_compiles + cn.sdd_compiles;
            r.add_extra("bdd_compilations", cn.bdd_compiles);
            r.add_extra("sdd_compilations", cn.sdd_compiles);
            r
        });
        rep.add_extra("sparse_label_cnfs", fam.states);
        rep.bound("sparse_labels", json!({"label_maps": maps.iter().map(|m| m.to_vec()).collect::<Vec<_>>(), "cnfs": sets.len(), "bdd_orders": ["identity", "reversed", "rotated by half"], "vtrees": "all 12 over the occurring labels"}));
        rep.merge(fam);
    }
    // expressions
    let k = 3;
    let mut ex = exprs_up_to(k, 3);
    if ctx.tier == Tier::Thorough {
        // every 29th tree with exactly 4 connectives on top
        let four: Vec<Ex> = exprs_up_to(4, 3).into_iter().skip(ex.len()).step_by(29).collect();
        rep.bound("expressions_4_connectives", json!({"trees": four.len(), "rule": "every 29th tree with exactly 4 connectives"}));
        ex.extend(four);
    }
    ctx.rotate(&mut ex);
    let chunks: Vec<&[Ex]> = ex.chunks(256).collect();
    let fam = par_run(ctx, &chunks, |_, chunk| {
        let mut r = Report::default();
        r.exhaustive = true;
        let mut cn = Cn::default();
        for e in chunk.iter() {
            r.states += 1;
            r.traces += 1;
            let (f, n) = e.tt();
            if f != 0 && f != tt::mask(n) {
                r.distinct_nontrivial += 1;
            }
            if let Some((k, w)) = check_expr(e, &mut cn) {
                r.violation(format!("compile:{}", k), format!("expression {}: {}", e.sexpr(), w), json!({"kind": "expr", "expr": e.sexpr()}));
            }
            if r.n_violations > 16 {
                break;
            }
        }
        r.transitions += cn.bdd_compiles + cn.sdd_compiles;
        r
    });
    rep.add_extra("expressions", fam.states);
    rep.bound("expressions", json!({"max_connectives": k, "variables": 3, "node_kinds": 7}));
    rep.merge(fam);
    // plan trees with constants
    let pls = plans(ctx.tier.pick(1, 2));
    let pls: Vec<Pl> = if ctx.tier == Tier::Thorough { pls.into_iter().step_by(3).collect() } else { pls };
    let chunks: Vec<&[Pl]> = pls.chunks(256).collect();
    let fam = par_run(ctx, &chunks, |_, chunk| {
        let mut r = Report::default();
        r.exhaustive = true;
        let mut cn = Cn::default();
        for p in chunk.iter() {
            r.states += 1;
            r.traces += 1;
            if let Some((k, w)) = check_plan(p, &mut cn) {
                r.violation(format!("compile:{}", k), format!("plan {:?}: {}", p, w), json!({"kind": "plan", "plan": format!("{:?}", p)}));
            }
            if r.n_violations > 16 {
                break;
            }
        }
        r.transitions += cn.plan_compiles;
        r
    });
    rep.add_extra("plan_trees_with_constants", fam.states);
    rep.merge(fam);
    rep.evaluations = rep.transitions;
    rep.sample(json!({"cnf": [[1, -1], [2, 3], []], "orders": "all 6", "vtrees": "all 12 + dtree-derived", "partial_models": 27}));
    rep.sample(json!({"expr": "(Ite (Var A) (Xor (Var B) (Var C)) (Not (Var B)))"}));
    rep.assumptions.push("builders are created over exactly the CNF's variables 0..max index; dtree plans/vtrees need a non-empty clause list (DTree::from_cnf precondition)".into());
    // long formulas: 9 to 70 clauses over 6 to 10 variables (longcnf.rs)
    if !disabled("longcnf") {
        let w = crate::props::longcnf::bottom_up(ctx);
        rep.merge(w);
        rep.merge(crate::props::longcnf::wide_clauses(ctx));
    }
    rep
}

pub fn replay(_ctx: &Ctx, case: &Value) -> Report {
    if let Some(r) = crate::props::longcnf::replay(_ctx, case, false) {
        return r;
    }
    let mut rep = Report::default();
    let mut cn = Cn::default();
    match case["kind"].as_str() {
        Some("cnf") => {
            let c = cnf_from_json(&case["cnf"]);
            if let Some((k, w)) = check_cnf(&c, &mut cn, c.len() < 10) {
                rep.violation(format!("compile:{}", k), w, case.clone());
            }
        }
        Some("sparse") => {
            let c = cnf_from_json(&case["cnf"]);
            let m: Vec<usize> = case["map"].as_array().map(|a| a.iter().filter_map(|x| x.as_u64().map(|y| y as usize)).collect()).unwrap_or_default();
            if m.len() == 3 {
                if let Some((k, w)) = check_cnf_sparse(&c, &m, &mut cn) {
                    rep.violation(format!("compile:{}", k), w, case.clone());
                }
            }
        }
        Some("expr") => {
            if let Some(e) = Ex::parse(case["expr"].as_str().unwrap_or("")) {
                if let Some((k, w)) = check_expr(&e, &mut cn) {
                    rep.violation(format!("compile:{}", k), w, case.clone());
                }
            }
        }
        Some("plan") => {
            // plan trees are enumerated by rule; re-run the (cheap) plan enumeration
            for p in plans(2) {
                if format!("{:?}", p) == case["plan"].as_str().unwrap_or("") {
                    if let Some((k, w)) = check_plan(&p, &mut cn) {
                        rep.violation(format!("compile:{}", k), w, case.clone());
                    }
                }
            }
        }
        _ => {}
    }
    rep
}

#[allow(dead_code)]
fn _t(_: BddPtr, _: SddPtr) {}
