//! C11 – semantic hashing is denotational; hash-identified builders stay correct.
//! (a) every function x every representation x construction history x {32, 64-bit prime}: hash =
//! defining sum computed with independent modular arithmetic; (b) injectivity of the defining
//! sum on the explored function space for the shipped seed; (c) operation histories of the
//! semantic SDD builder (shared engine) and CNF compilation with it.

use crate::core::*;
use crate::enumerate::*;
use crate::props::bddutil::*;
use crate::props::c07::cnf_of;
use crate::props::c13::{addmod_ref, mulmod_ref, submod_ref};
use crate::tt::{self, TT};
use crate::walk::*;
use rsdd::builder::decision_nnf::{DecisionNNFBuilder, SemanticDecisionNNFBuilder, StandardDecisionNNFBuilder};
use rsdd::builder::TopDownBuilder;
use rsdd::builder::sdd::{CompressionSddBuilder, SddBuilder, SemanticSddBuilder};
use rsdd::builder::BottomUpBuilder;
use rsdd::constants::primes;
use rsdd::repr::{create_semantic_hash_map, BddPtr, DDNNFPtr, SddPtr, VarLabel, WmcParams};
use rsdd::util::semirings::FiniteField;
use serde_json::{json, Value};
use std::collections::HashSet;

/// the defining sum: sum over models of the product of literal weights, modulo P
pub fn defining_sum(f: TT, n: usize, w: &[(u128, u128)], p: u128) -> u128 {
    let mut total = 0u128;
    for a in 0..(1usize << n) {
        if tt::eval(f, a) {
            let mut prod = 1u128;
            for v in 0..n {
                prod = mulmod_ref(prod, if (a >> v) & 1 == 1 { w[v].1 } else { w[v].0 }, p);
            }
            total = addmod_ref(total, prod, p);
        }
    }
    total
}

pub fn weights_of<const P: u128>(map: &WmcParams<FiniteField<P>>, n: usize) -> Vec<(u128, u128)> {
    (0..n).map(|v| {
        let (l, h) = map.var_weight(VarLabel::new(v as u64));
        (l.value(), h.value())
    }).collect()
}

fn minterms<'a>(b: &'a AllBuilder<'a>, f: TT, n: usize) -> BddPtr<'a> {
    let mut r = BddPtr::PtrFalse;
    for a in 0..(1usize << n) {
        if tt::eval(f, a) {
            let mut c = BddPtr::PtrTrue;
            for v in 0..n {
                c = b.and(c, b.var(VarLabel::new(v as u64), (a >> v) & 1 == 1));
            }
            r = b.or(r, c);
        }
    }
    r
}

fn sdd_shannon<'a, B: SddBuilder<'a>>(b: &'a B, t: TT, v: usize, n: usize) -> SddPtr<'a> {
    if t == 0 {
        return SddPtr::PtrFalse;
    }
    if t == tt::mask(n) {
        return SddPtr::PtrTrue;
    }
    if !tt::depends_on(t, v, n) {
        return sdd_shannon(b, t, v + 1, n);
    }
    let hi = sdd_shannon(b, tt::cofactor(t, v, true, n), v + 1, n);
    let lo = sdd_shannon(b, tt::cofactor(t, v, false, n), v + 1, n);
    let x = SddPtr::Var(VarLabel::new(v as u64), true);
    b.or(b.and(x, hi), b.and(x.neg(), lo))
}

#[derive(Clone)]
enum Rep {
    Bdd(Vec<usize>),
    Sdd(VT),
    TopDown(Vec<usize>),
}

fn rep_json(r: &Rep) -> Value {
    match r {
        Rep::Bdd(o) => json!({"bdd_order": o}),
        Rep::Sdd(v) => json!({"sdd_vtree": v.show()}),
        Rep::TopDown(o) => json!({"topdown_order": o}),
    }
}

/// part (a) for one representation and one prime
fn run_rep<const P: u128>(rep: &Rep, n: usize, fstep: usize, pname: &str) -> Report {
    let mut r = Report::default();
    r.exhaustive = true;
    let map = create_semantic_hash_map::<P>(n);
    let w = weights_of(&map, n);
    // the map itself: low = 1 - high (what makes negation "one minus")
    for (l, h) in w.iter() {
        if addmod_ref(*l, *h, P) != 1 {
            r.violation("hash:weights-not-normalised", format!("create_semantic_hash_map<{}>: low + high != 1", pname), json!({"kind": "hashmap", "prime": pname}));
        }
    }
    // a second weight table over the same field (the shipped table with the variables' weights rotated) and the
    // shipped table of another exported field: the un-cached semantic_hash must answer for the table it is given,
    // whatever an earlier cached call with another table left on the nodes
    let w_alt: Vec<(u128, u128)> = (0..n).map(|v| w[(v + 1) % n.max(1)]).collect();
    let map_alt: WmcParams<FiniteField<P>> = WmcParams::new((0..n).map(|v| (VarLabel::new(v as u64), (FiniteField::new(w_alt[v].0), FiniteField::new(w_alt[v].1)))).collect::<std::collections::HashMap<_, _>>());
    let other_small = create_semantic_hash_map::<{ primes::U32_SMALL }>(n);
    let other_tiny = create_semantic_hash_map::<{ primes::U32_TINY }>(n);
    let (w_small, w_tiny) = (weights_of(&other_small, n), weights_of(&other_tiny, n));
    let total = 1u64 << (1u64 << n);
    let viol = |r: &mut Report, f: u64, what: String| {
        r.violation("hash:not-denotational", format!("n={} {} prime {} function {:#x}: {}", n, rep_json(rep), pname, f, what), json!({"kind": "hash", "n": n, "rep": rep_json(rep), "prime": pname, "function": format!("{:#x}", f)}));
    };
    let check = |got: Result<u128, String>, want: u128, what: &str| -> Option<String> {
        match got {
            Ok(g) if g == want => None,
            Ok(g) => Some(format!("{} = {}, the defining sum is {}", what, g, want)),
            Err(e) => Some(format!("{} panicked: {}", what, e)),
        }
    };
    match rep {
        Rep::Bdd(order) => {
            let b = small_builder(order, 2);
            let mut f = 0;
            while f < total {
                let want = defining_sum(f, n, &w, P);
                let wneg = submod_ref(1, want, P);
                let cnf = to_cnf(&cnf_of(f, n));
                let ptrs: Vec<(&str, BddPtr)> = vec![("shannon", build_bdd(&b, f, n)), ("minterms", minterms(&b, f, n)), ("cnf", if num_vars(&cnf_of(f, n)) <= n { b.compile_cnf(&cnf) } else { build_bdd(&b, f, n) })];
                for (how, p) in ptrs {
                    if bdd_tt(p, n) != f {
                        continue;
                    }
                    r.transitions += 1;
                    r.evaluations += 5;
                    for e in [
                        check(guarded(|| p.semantic_hash(&map).value()), want, &format!("semantic_hash ({})", how)),
                        check(guarded(|| p.cached_semantic_hash(b.order(), &map).value()), want, &format!("cached_semantic_hash ({})", how)),
                        check(guarded(|| p.cached_semantic_hash(b.order(), &map).value()), want, &format!("cached_semantic_hash, second call ({})", how)),
                        check(guarded(|| p.neg().semantic_hash(&map).value()), wneg, &format!("semantic_hash of the negation ({})", how)),
                        check(guarded(|| p.neg().cached_semantic_hash(b.order(), &map).value()), wneg, &format!("cached_semantic_hash of the negation ({})", how)),
                    ].into_iter().flatten() {
                        viol(&mut r, f, e);
                    }
                    if n >= 1 && !disabled("secondtable") {
                        r.evaluations += 3;
                        let other = if P == primes::U32_SMALL { guarded(|| p.semantic_hash(&other_tiny).value()) } else { guarded(|| p.semantic_hash(&other_small).value()) };
                        let want_other = if P == primes::U32_SMALL { defining_sum(f, n, &w_tiny, primes::U32_TINY) } else { defining_sum(f, n, &w_small, primes::U32_SMALL) };
                        for e in [
                            check(guarded(|| p.semantic_hash(&map_alt).value()), defining_sum(f, n, &w_alt, P), "semantic_hash with a second weight table of the same field, after cached hashes with the first"),
                            check(other, want_other, "semantic_hash with the shipped table of another exported field, after cached hashes in this field"),
                            check(guarded(|| p.semantic_hash(&map).value()), want, "semantic_hash with the first table again"),
                        ].into_iter().flatten() {
                            viol(&mut r, f, e);
                        }
                    }
                }
                r.states += 1;
                if r.n_violations > 16 {
                    break;
                }
                f += fstep as u64;
            }
        }
        Rep::Sdd(vt) => {
            rsdd::verif::set_table_capacity(2);
            let b = CompressionSddBuilder::new(vt.to_rsdd());
            rsdd::verif::set_table_capacity(0);
            let mut f = 0;
            while f < total {
                let want = defining_sum(f, n, &w, P);
                let wneg = submod_ref(1, want, P);
                let cl = cnf_of(f, n);
                let mut ptrs: Vec<(&str, SddPtr)> = vec![("shannon", sdd_shannon(&b, f, 0, n))];
                if num_vars(&cl) == n {
                    ptrs.push(("cnf", b.compile_cnf(&to_cnf(&cl))));
                }
                for (how, p) in ptrs {
                    if sdd_tt(p, n) != f {
                        continue;
                    }
                    r.transitions += 1;
                    r.evaluations += 5;
                    for e in [
                        check(guarded(|| p.semantic_hash(&map).value()), want, &format!("semantic_hash ({})", how)),
                        check(guarded(|| p.cached_semantic_hash(b.vtree_manager(), &map).value()), want, &format!("cached_semantic_hash ({})", how)),
                        check(guarded(|| p.cached_semantic_hash(b.vtree_manager(), &map).value()), want, &format!("cached_semantic_hash, second call ({})", how)),
                        check(guarded(|| p.neg().semantic_hash(&map).value()), wneg, &format!("semantic_hash of the negation ({})", how)),
                        check(guarded(|| p.neg().cached_semantic_hash(b.vtree_manager(), &map).value()), wneg, &format!("cached_semantic_hash of the negation ({})", how)),
                    ].into_iter().flatten() {
                        viol(&mut r, f, e);
                    }
                    if n >= 1 && !disabled("secondtable") {
                        r.evaluations += 3;
                        let other = if P == primes::U32_SMALL { guarded(|| p.semantic_hash(&other_tiny).value()) } else { guarded(|| p.semantic_hash(&other_small).value()) };
                        let want_other = if P == primes::U32_SMALL { defining_sum(f, n, &w_tiny, primes::U32_TINY) } else { defining_sum(f, n, &w_small, primes::U32_SMALL) };
                        for e in [
                            check(guarded(|| p.semantic_hash(&map_alt).value()), defining_sum(f, n, &w_alt, P), "semantic_hash with a second weight table of the same field, after cached hashes with the first"),
                            check(other, want_other, "semantic_hash with the shipped table of another exported field, after cached hashes in this field"),
                            check(guarded(|| p.semantic_hash(&map).value()), want, "semantic_hash with the first table again"),
                        ].into_iter().flatten() {
                            viol(&mut r, f, e);
                        }
                    }
                }
                r.states += 1;
                if r.n_violations > 16 {
                    break;
                }
                f += fstep as u64;
            }
        }
        Rep::TopDown(order) => {
            let mut f = 0;
            while f < total {
                let cl = cnf_of(f, n);
                if num_vars(&cl) == n {
                    let want = defining_sum(f, n, &w, P);
                    let wneg = submod_ref(1, want, P);
                    rsdd::verif::set_table_capacity(8);
                    let b = StandardDecisionNNFBuilder::new(order_of(order));
                    rsdd::verif::set_table_capacity(0);
                    let p = b.compile_cnf_topdown(&to_cnf(&cl));
                    if bdd_tt(p, n) == f {
                        // every second function: the builder's own statistics queries run first
                        // (they hash every node of the table in the builder's 32-bit field)
                        if (f / (fstep as u64 * 3)) % 2 == 1 {
                            let _ = guarded(|| (b.num_logically_redundant(), b.stats().num_nodes_alloc));
                            r.evaluations += 1;
                        }
                        r.transitions += 1;
                        r.evaluations += 4;
                        for e in [
                            check(guarded(|| p.semantic_hash(&map).value()), want, "semantic_hash (top-down)"),
                            check(guarded(|| p.cached_semantic_hash(b.order(), &map).value()), want, "cached_semantic_hash (top-down)"),
                            check(guarded(|| p.neg().semantic_hash(&map).value()), wneg, "semantic_hash of the negation (top-down)"),
                            check(guarded(|| p.neg().cached_semantic_hash(b.order(), &map).value()), wneg, "cached_semantic_hash of the negation (top-down)"),
                        ].into_iter().flatten() {
                            viol(&mut r, f, e);
                        }
                    }
                    r.states += 1;
                }
                if r.n_violations > 16 {
                    break;
                }
                f += (fstep * 3) as u64;
            }
        }
    }
    r.traces = r.states;
    r
}

/// (b) the defining sum separates all functions of n variables (shipped seed)
fn injectivity<const P: u128>(n: usize, pname: &str, demand: bool) -> Report {
    let mut r = Report::default();
    r.exhaustive = true;
    let map = create_semantic_hash_map::<P>(n);
    let w = weights_of(&map, n);
    let total = 1u64 << (1u64 << n);
    let mut seen: HashSet<u128> = HashSet::new();
    for f in 0..total {
        r.evaluations += 1;
        if !seen.insert(defining_sum(f, n, &w, P)) && demand {
            r.violation("hash:collision", format!("two different functions of {} variables have the same semantic hash over {} (shipped seed)", n, pname), json!({"kind": "injectivity", "n": n, "prime": pname}));
            break;
        }
    }
    r.states = seen.len() as u64;
    r.transitions = total;
    r.add_extra(&format!("distinct_hashes_F{}_{}", n, pname), seen.len() as u64);
    r
}

/// (c) CNF compilation with the semantic SDD builder and the semantic top-down builder
fn semantic_compile(clauses: &[Clause]) -> Option<(String, String)> {
    let cnf = to_cnf(clauses);
    let nv = cnf.num_vars();
    if nv == 0 {
        return None;
    }
    let f = tt::of_cnf(clauses, nv);
    for vt in all_vtrees(nv) {
        rsdd::verif::set_table_capacity(4);
        let b = SemanticSddBuilder::<{ primes::U64_LARGEST }>::new(vt.to_rsdd());
        rsdd::verif::set_table_capacity(0);
        let r = match guarded(|| b.compile_cnf(&cnf)) {
            Ok(r) => r,
            Err(p) => return Some(("semantic-sdd-compile-panic".into(), format!("vtree {}: {}", vt.show(), p))),
        };
        if sdd_tt(r, nv) != f {
            return Some(("semantic-sdd-compile".into(), format!("vtree {}: compile_cnf has models {:#x}, the CNF {:#x}", vt.show(), sdd_tt(r, nv), f)));
        }
        // equal functions are never judged different: compare with an independently built copy
        let r2 = sdd_shannon(&b, f, 0, nv);
        if sdd_tt(r2, nv) == f && !b.eq(r, r2) {
            return Some(("semantic-eq".into(), format!("vtree {}: eq judges two diagrams of {:#x} different", vt.show(), f)));
        }
    }
    for order in permutations(nv) {
        rsdd::verif::set_table_capacity(8);
        let b = SemanticDecisionNNFBuilder::<{ primes::U64_LARGEST }>::new(order_of(&order));
        rsdd::verif::set_table_capacity(0);
        let r = match guarded(|| b.compile_cnf_topdown(&cnf)) {
            Ok(r) => r,
            Err(p) => return Some(("semantic-topdown-panic".into(), format!("order {:?}: {}", order, p))),
        };
        if bdd_tt(r, nv) != f {
            return Some(("semantic-topdown".into(), format!("order {:?}: models {:#x}, the CNF {:#x}", order, bdd_tt(r, nv), f)));
        }
        // conditioning on the hash-identified builder: every ordered pair of conditionings of the result
        // and of its negation, back to back on the same builder (the second of a pair meets whatever the
        // first left behind); each result denotes the restricted function
        if !crate::core::disabled("semcond") {
            let m = tt::mask(nv);
            for (which, p, g) in [("result", r, f), ("negated result", r.neg(), !f & m)] {
                let lits: Vec<(usize, bool)> = (0..nv).flat_map(|v| [(v, true), (v, false)]).collect();
                for &(v1, b1) in lits.iter() {
                    for &(v2, b2) in lits.iter() {
                        for (v, val) in [(v1, b1), (v2, b2)] {
                            match guarded(|| b.condition(p, VarLabel::new(v as u64), val)) {
                                Ok(c) => {
                                    let want = tt::cofactor(g, v, val, nv);
                                    if bdd_tt(c, nv) != want {
                                        return Some(("semantic-topdown-condition".into(), format!("order {:?}: condition({}, x{} = {}) in the pair ((x{}, {}), (x{}, {})) denotes {:#x}, the restricted function is {:#x}", order, which, v + 1, val, v1 + 1, b1, v2 + 1, b2, bdd_tt(c, nv), want)));
                                    }
                                }
                                Err(e) => return Some(("semantic-topdown-panic".into(), format!("order {:?}: condition({}, x{} = {}) panicked: {}", order, which, v + 1, val, e))),
                            }
                        }
                    }
                }
            }
        }
    }
    None
}

/// (d) long-lived semantic builders: every CNF of the chunk with `nv` variables compiled in one
/// builder per order (top-down) and per vtree (SDD), first in the given sequence and then again
/// in reverse, so that every function is requested from a table that already holds it and many
/// others; returns (key, text, cnf) of the first wrong result
fn semantic_history(cnfs: &[Vec<Clause>], nv: usize, compiles: &mut u64) -> Option<(String, String, Vec<Clause>)> {
    let mine: Vec<(&Vec<Clause>, TT)> = cnfs.iter().filter(|c| num_vars(c) == nv).map(|c| (c, tt::of_cnf(c, nv))).collect();
    if mine.is_empty() || nv == 0 {
        return None;
    }
    let mut seq: Vec<usize> = (0..mine.len()).collect();
    seq.extend((0..mine.len()).rev());
    for order in permutations(nv) {
        rsdd::verif::set_table_capacity(4);
        let b = SemanticDecisionNNFBuilder::<{ primes::U64_LARGEST }>::new(order_of(&order));
        rsdd::verif::set_table_capacity(0);
        for (step, &i) in seq.iter().enumerate() {
            let (c, f) = (mine[i].0, mine[i].1);
            *compiles += 1;
            match guarded(|| b.compile_cnf_topdown(&to_cnf(c))) {
                Ok(r) => {
                    if bdd_tt(r, nv) != f {
                        return Some(("semantic-topdown-history".into(), format!("order {:?}, compilation {} of a long-lived builder: models {:#x}, the CNF {:#x}", order, step + 1, bdd_tt(r, nv), f), c.clone()));
                    }
                }
                Err(p) => return Some(("semantic-topdown-panic".into(), format!("order {:?}, compilation {}: {}", order, step + 1, p), c.clone())),
            }
        }
    }
    for vt in all_vtrees(nv) {
        rsdd::verif::set_table_capacity(4);
        let b = SemanticSddBuilder::<{ primes::U64_LARGEST }>::new(vt.to_rsdd());
        rsdd::verif::set_table_capacity(0);
        for (step, &i) in seq.iter().enumerate() {
            let (c, f) = (mine[i].0, mine[i].1);
            *compiles += 1;
            match guarded(|| b.compile_cnf(&to_cnf(c))) {
                Ok(r) => {
                    if sdd_tt(r, nv) != f {
                        return Some(("semantic-sdd-history".into(), format!("vtree {}, compilation {} of a long-lived builder: models {:#x}, the CNF {:#x}", vt.show(), step + 1, sdd_tt(r, nv), f), c.clone()));
                    }
                }
                Err(p) => return Some(("semantic-sdd-compile-panic".into(), format!("vtree {}, compilation {}: {}", vt.show(), step + 1, p), c.clone())),
            }
        }
    }
    None
}

pub fn run(ctx: &Ctx) -> Report {
    let mut rep = Report::new(
        "(a) every function of n variables (n <= 3; 4 in thorough) as BDD in every order (built three ways: Shannon ite, minterms, CNF compilation), SDD in every vtree (two ways), top-down diagram in every order, for the exported 32- and 64-bit primes: semantic_hash and cached_semantic_hash (twice) equal the defining sum computed with independent modular arithmetic from the shipped weight map, and the negation hashes to one minus it; (b) the defining sum over the 64-bit field is injective on all functions of <= 4 variables for the shipped seed (counted only, not demanded, for the 32-bit field); (c) operation histories of the semantic SDD builder (all functions, all pairs and/or, unary ops, eq vs function equality) and CNF compilation with the semantic SDD and top-down builders; distinct = (representation, function, construction)",
    );
    // (a)
    let mut items: Vec<(Rep, usize, usize)> = Vec::new();
    let ns: Vec<usize> = ctx.tier.pick(vec![1, 2, 3], vec![1, 2, 3, 4]);
    for &n in ns.iter() {
        let step = if n == 4 { 3 } else { 1 };
        for o in permutations(n) {
            items.push((Rep::Bdd(o.clone()), n, step));
            if n <= 3 {
                items.push((Rep::TopDown(o), n, 1));
            }
        }
        for v in all_vtrees(n) {
            items.push((Rep::Sdd(v), n, if n == 4 { 7 } else { 1 }));
        }
    }
    items.reverse();
    let a = par_run(ctx, &items, |_, (rp, n, step)| {
        let mut r = run_rep::<{ primes::U64_LARGEST }>(rp, *n, *step, "U64_LARGEST");
        r.merge(run_rep::<{ primes::U32_SMALL }>(rp, *n, *step, "U32_SMALL"));
        r
    });
    rep.add_extra("part_a_hash_checks", a.evaluations);
    rep.merge(a);
    // (b)
    let bn: Vec<usize> = vec![1, 2, 3, 4];
    let b = par_run(ctx, &bn, |_, n| {
        let mut r = injectivity::<{ primes::U64_LARGEST }>(*n, "U64_LARGEST", true);
        // the 32-bit field (about 2^28.8 elements) cannot separate 65 536 functions with certainty
        // and the statement promises correctness only over the 64-bit field: counted, not demanded
        r.merge(injectivity::<{ primes::U32_SMALL }>(*n, "U32_SMALL", false));
        r
    });
    rep.merge(b);
    // (c) semantic SDD builder histories
    // (the two sweeps run side by side in the quick tier, one after the other in thorough)
    let (mut c, mut h) = if ctx.tier == Tier::Quick {
        std::thread::scope(|s| {
            let hc = s.spawn(|| crate::props::sddsweep::run_all(ctx, true));
            let hh = s.spawn(|| crate::props::sddsweep::run_all_h(ctx, false, true));
            (hc.join().expect("semantic sweep"), hh.join().expect("hash sweep"))
        })
    } else {
        (crate::props::sddsweep::run_all(ctx, true), crate::props::sddsweep::run_all_h(ctx, false, true))
    };
    crate::props::sddsweep::filter_for(&mut c, "C11");
    rep.add_extra("part_c_semantic_sdd_operations", c.transitions);
    c.rule = String::new();
    c.floors.clear();
    rep.merge(c);
    // (a') every result of the SDD operation histories (compression on and off, so also
    // untrimmed / uncompressed diagrams of a function): hash of the result and of its negation
    crate::props::sddsweep::filter_for(&mut h, "C11");
    let hc = h.extra.get("semantic_hash_checks").and_then(|v| v.as_u64()).unwrap_or(0);
    rep.add_extra("part_a_hash_checks_on_sdd_operation_results", hc);
    h.rule = String::new();
    h.floors.clear();
    rep.merge(h);
    rep.floor("hash checks on SDD operation results", hc, 1000);
    // (c) CNF compilation
    let types = clause_types(3);
    let mut sets = match ctx.tier {
        Tier::Quick => sequences(64, 2).into_iter().step_by(3).collect::<Vec<_>>(),
        Tier::Thorough => sequences(64, 2),
    };
    ctx.rotate(&mut sets);
    let chunks: Vec<&[Vec<usize>]> = sets.chunks(64).collect();
    let cc = par_run(ctx, &chunks, |_, chunk| {
        let mut r = Report::default();
        r.exhaustive = true;
        for s in chunk.iter() {
            let clauses: Vec<Clause> = s.iter().map(|&i| types[i].clone()).collect();
            r.states += 1;
            r.transitions += 1;
            if let Some((k, w)) = semantic_compile(&clauses) {
                r.violation(format!("hash:{}", k), format!("cnf {}: {}", cnf_json(&clauses), w), json!({"kind": "semantic_compile", "cnf": cnf_json(&clauses)}));
            }
            if r.n_violations > 16 {
                break;
            }
        }
        // (d) the same CNFs in long-lived semantic builders
        let cnfs: Vec<Vec<Clause>> = chunk.iter().map(|s| s.iter().map(|&i| types[i].clone()).collect()).collect();
        let mut compiles = 0u64;
        for nv in 1..=3usize {
            if let Some((k, w, c)) = semantic_history(&cnfs, nv, &mut compiles) {
                r.violation(format!("hash:{}", k), format!("cnf {}: {}", cnf_json(&c), w), json!({"kind": "semantic_history", "cnfs": cnfs.iter().map(|c| cnf_json(c)).collect::<Vec<_>>(), "n": nv}));
            }
        }
        r.transitions += compiles;
        r.add_extra("part_d_compilations_in_long_lived_semantic_builders", compiles);
        r
    });
    rep.add_extra("part_c_cnfs_compiled_with_semantic_builders", cc.states);
    rep.merge(cc);
    rep.evaluations += rep.transitions;
    rep.distinct_nontrivial = rep.transitions;
    rep.sample(json!({"function": "0x96", "representations": ["bdd order [2,0,1] (shannon, minterms, cnf)", "sdd vtree ((0 2) 1)", "top-down order [1,2,0]"], "primes": ["U32_SMALL", "U64_LARGEST"]}));
    rep.assumptions.push("the weight map produced by create_semantic_hash_map is input data (read through var_weight); the hash is decided for the shipped seed and the explored function space, not as a probabilistic claim".into());
    rep.assumptions.push("one field and one weight map per builder for cached hashes (the scope the statement gives)".into());
    rep
}

pub fn replay(ctx: &Ctx, case: &Value) -> Report {
    let mut rep = Report::default();
    let arr = |v: &Value| -> Vec<usize> { v.as_array().map(|a| a.iter().filter_map(|x| x.as_u64()).map(|x| x as usize).collect()).unwrap_or_default() };
    match case["kind"].as_str() {
        Some("hash") => {
            let n = case["n"].as_u64().unwrap_or(3) as usize;
            let rp = &case["rep"];
            let r = if let Some(o) = rp.get("bdd_order") {
                Rep::Bdd(arr(o))
            } else if let Some(v) = rp.get("sdd_vtree") {
                Rep::Sdd(VT::parse(v.as_str().unwrap_or("0")).unwrap_or(VT::Leaf(0)))
            } else {
                Rep::TopDown(arr(&rp["topdown_order"]))
            };
            rep.merge(run_rep::<{ primes::U64_LARGEST }>(&r, n, 1, "U64_LARGEST"));
            rep.merge(run_rep::<{ primes::U32_SMALL }>(&r, n, 1, "U32_SMALL"));
        }
        Some("semantic_history") => {
            let cnfs: Vec<Vec<Clause>> = case["cnfs"].as_array().map(|a| a.iter().map(cnf_from_json).collect()).unwrap_or_default();
            let mut k = 0;
            if let Some((key, w, _)) = semantic_history(&cnfs, case["n"].as_u64().unwrap_or(3) as usize, &mut k) {
                rep.violation(format!("hash:{}", key), w, case.clone());
            }
        }
        Some("semantic_compile") => {
            let c = cnf_from_json(&case["cnf"]);
            if let Some((k, w)) = semantic_compile(&c) {
                rep.violation(format!("hash:{}", k), w, case.clone());
            }
        }
        Some("injectivity") => {
            let n = case["n"].as_u64().unwrap_or(4) as usize;
            rep.merge(injectivity::<{ primes::U64_LARGEST }>(n, "U64_LARGEST", true));
        }
        Some("sdd_sweep") => rep.merge(crate::props::sddsweep::replay_for(ctx, "C11", case)),
        _ => {}
    }
    rep
}
