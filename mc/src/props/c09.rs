//! C09 – unit propagation: complete reachable-state exploration of the real `SATSolver`
//! under {decide(v, b), pop} for every CNF of a bounded family.

use crate::core::*;
use crate::enumerate::*;
use crate::tt::{self, TT};
use rsdd::repr::{DecisionResult, SATSolver, VarLabel};
use serde_json::{json, Value};
use std::collections::{HashMap, HashSet};

#[derive(Clone, Copy, Debug, PartialEq, Eq)]
pub enum Act {
    Decide(u8, bool),
    Pop,
}

fn act_json(a: &Act) -> Value {
    match a {
        Act::Decide(v, b) => json!({"decide": if *b { *v as i64 + 1 } else { -(*v as i64 + 1) }}),
        Act::Pop => json!("pop"),
    }
}

fn act_from_json(v: &Value) -> Option<Act> {
    if v.as_str() == Some("pop") {
        return Some(Act::Pop);
    }
    let l = v.get("decide")?.as_i64()?;
    Some(Act::Decide((l.unsigned_abs() - 1) as u8, l > 0))
}

/// what the public observers show at one level of the solver's stack
#[derive(Clone, Debug, PartialEq, Eq)]
struct Obs {
    tmask: u8,
    fmask: u8,
    hash: u128,
    sat: bool,
    /// literals reported by `difference_iter` (as (true mask, false mask))
    diff: (u8, u8),
}

/// harness-side bookkeeping for one solver: the reference model of the statement
#[derive(Clone)]
struct Tracker {
    n: usize,
    /// observers at every level from the base level (after construction) upwards
    levels: Vec<Obs>,
    /// open decisions, one per level above the base
    decisions: Vec<(u8, bool)>,
}

struct Problem<'c> {
    clauses: &'c [Clause],
    n: usize,
    f: TT,
    /// clause list with duplicates inside a clause removed, tautologies flagged
    taut: Vec<bool>,
}

impl<'c> Problem<'c> {
    fn new(clauses: &'c [Clause], n: usize) -> Problem<'c> {
        let taut = clauses
            .iter()
            .map(|c| c.iter().any(|&(v, p)| c.contains(&(v, !p))))
            .collect();
        Problem {
            clauses,
            n,
            f: tt::of_cnf(clauses, n),
            taut,
        }
    }

    /// models of CNF /\ decisions
    fn premise(&self, decisions: &[(u8, bool)]) -> TT {
        let mut p = self.f;
        for &(v, b) in decisions {
            p &= tt::lit(v as usize, b, self.n);
        }
        p
    }

    /// residual formula: sorted multiset of residual clauses of the unsatisfied,
    /// non-tautological clauses
    fn residual(&self, tmask: u8, fmask: u8) -> Vec<Vec<(usize, bool)>> {
        let mut out = Vec::new();
        for (i, c) in self.clauses.iter().enumerate() {
            if self.taut[i] {
                continue;
            }
            let mut sat = false;
            let mut res = Vec::new();
            for &(v, p) in c {
                let t = (tmask >> v) & 1 == 1;
                let f = (fmask >> v) & 1 == 1;
                if (p && t) || (!p && f) {
                    sat = true;
                    break;
                }
                if !t && !f && !res.contains(&(v, p)) {
                    res.push((v, p));
                }
            }
            if !sat {
                res.sort();
                out.push(res);
            }
        }
        out.sort();
        out
    }
}

fn read_obs(s: &SATSolver, n: usize, prev: Option<&Obs>) -> Result<Obs, String> {
    // the public observers are calls into the library too: a panic there is a verdict
    match guarded(|| read_obs_inner(s, n, prev)) {
        Ok(r) => r,
        Err(p) => Err(format!("a public observer (difference_iter / is_set / cur_hash / is_sat) panicked: {}", p)),
    }
}

fn read_obs_inner(s: &SATSolver, n: usize, prev: Option<&Obs>) -> Result<Obs, String> {
    let mut dt = 0u8;
    let mut df = 0u8;
    for l in s.difference_iter() {
        let v = l.label().value_usize();
        if v >= n {
            return Err(format!("difference_iter reports variable {} outside the CNF", v));
        }
        if l.polarity() {
            dt |= 1 << v;
        } else {
            df |= 1 << v;
        }
    }
    let (pt, pf) = prev.map(|p| (p.tmask, p.fmask)).unwrap_or((0, 0));
    let tmask = pt | dt;
    let fmask = pf | df;
    if tmask & fmask != 0 {
        return Err(format!(
            "a variable is reported both true and false (true {:03b}, false {:03b})",
            tmask, fmask
        ));
    }
    for v in 0..n {
        let set = s.is_set(VarLabel::new(v as u64));
        let want = ((tmask | fmask) >> v) & 1 == 1;
        if set != want {
            return Err(format!(
                "is_set({}) = {} but the literals reported so far say {}",
                v + 1,
                set,
                want
            ));
        }
    }
    Ok(Obs {
        tmask,
        fmask,
        hash: s.cur_hash(),
        sat: s.is_sat(),
        diff: (dt, df),
    })
}

impl Tracker {
    /// checks of the statement that concern a (non-UNSAT) state
    fn check_state(&self, pb: &Problem) -> Result<(), String> {
        let top = self.levels.last().unwrap();
        let prem = pb.premise(&self.decisions);
        // 1. every assigned value is entailed by CNF /\ decisions
        for v in 0..self.n {
            let t = (top.tmask >> v) & 1 == 1;
            let f = (top.fmask >> v) & 1 == 1;
            if t && prem & tt::lit(v, false, self.n) != 0 {
                return Err(format!("x{} = true is not entailed by the CNF and the decisions", v + 1));
            }
            if f && prem & tt::lit(v, true, self.n) != 0 {
                return Err(format!("x{} = false is not entailed by the CNF and the decisions", v + 1));
            }
        }
        // decisions themselves are assigned as decided
        for &(v, b) in self.decisions.iter() {
            let m = if b { top.tmask } else { top.fmask };
            if (m >> v) & 1 == 0 {
                return Err(format!("decided literal {}x{} is not assigned accordingly", if b { "" } else { "-" }, v + 1));
            }
        }
        // 3. no clause falsified, no clause with exactly one unassigned literal and no true literal
        let mut all_sat = true;
        for (i, c) in pb.clauses.iter().enumerate() {
            let mut sat = false;
            let mut unassigned: Vec<(usize, bool)> = Vec::new();
            for &(v, p) in c {
                let t = (top.tmask >> v) & 1 == 1;
                let f = (top.fmask >> v) & 1 == 1;
                if (p && t) || (!p && f) {
                    sat = true;
                } else if !t && !f && !unassigned.contains(&(v, p)) {
                    unassigned.push((v, p));
                }
            }
            if !sat {
                if !pb.taut[i] {
                    all_sat = false;
                }
                if unassigned.is_empty() {
                    return Err(format!("clause {} is falsified but unsatisfiability was not reported", i));
                }
                if unassigned.len() == 1 {
                    return Err(format!(
                        "clause {} is unit ({}x{} unassigned, no true literal) but was not propagated",
                        i,
                        if unassigned[0].1 { "" } else { "-" },
                        unassigned[0].0 + 1
                    ));
                }
            }
        }
        // 5. satisfied flag
        if top.sat != all_sat {
            return Err(format!(
                "is_sat() = {} but every non-tautological clause has a true literal = {}",
                top.sat, all_sat
            ));
        }
        Ok(())
    }

    /// apply an action to the real solver and check everything the statement says about it
    fn apply(&mut self, s: &mut SATSolver, pb: &Problem, a: Act) -> Result<(), String> {
        match a {
            Act::Decide(v, b) => {
                let before = self.levels.last().unwrap().clone();
                let res = guarded(|| s.decide(to_lit((v as usize, b))));
                let res = match res {
                    Ok(r) => r,
                    Err(p) => return Err(format!("decide panicked: {}", p)),
                };
                match res {
                    DecisionResult::UNSAT => {
                        // 2. only if no model extends the decisions
                        let mut d = self.decisions.clone();
                        d.push((v, b));
                        if pb.premise(&d) != 0 {
                            return Err(format!(
                                "decide({}x{}) reported UNSAT although a model of the CNF extends the decisions",
                                if b { "" } else { "-" },
                                v + 1
                            ));
                        }
                        // nothing was pushed: the observers are unchanged
                        let prev = if self.levels.len() >= 2 {
                            Some(&self.levels[self.levels.len() - 2])
                        } else {
                            None
                        };
                        let now = read_obs(s, self.n, prev).map_err(|e| format!("after UNSAT: {}", e))?;
                        if now != before {
                            return Err("an UNSAT decision changed the observable state".into());
                        }
                        Ok(())
                    }
                    r => {
                        let obs = read_obs(s, self.n, Some(&before))?;
                        self.levels.push(obs);
                        self.decisions.push((v, b));
                        let is_sat_result = matches!(r, DecisionResult::SAT);
                        if is_sat_result != self.levels.last().unwrap().sat {
                            return Err(format!(
                                "decide returned {} but is_sat() = {}",
                                if is_sat_result { "SAT" } else { "Unknown" },
                                !is_sat_result
                            ));
                        }
                        self.check_state(pb)
                    }
                }
            }
            Act::Pop => {
                if let Err(p) = guarded(|| s.pop()) {
                    return Err(format!("pop panicked: {}", p));
                }
                self.levels.pop();
                self.decisions.pop();
                let want = self.levels.last().unwrap().clone();
                let prev = if self.levels.len() >= 2 {
                    Some(&self.levels[self.levels.len() - 2])
                } else {
                    None
                };
                // the base level's difference is relative to the solver's empty bottom level
                let now = read_obs(s, self.n, prev).map_err(|e| format!("after pop: {}", e))?;
                if now != want {
                    return Err(format!(
                        "pop did not restore the state before the matching decision: now {:?}, before {:?}",
                        now, want
                    ));
                }
                // every later step is checked again from here (BFS continues from this state)
                self.check_state(pb)
            }
        }
    }
}

/// construct the solver and check the statement for the initial state
fn construct(pb: &Problem) -> Result<Option<(SATSolver, Tracker)>, String> {
    let cnf = to_cnf(pb.clauses);
    let s = match guarded(|| SATSolver::new(cnf)) {
        Ok(s) => s,
        Err(p) => return Err(format!("SATSolver::new panicked: {}", p)),
    };
    match s {
        None => {
            if pb.f != 0 {
                Err("construction reported UNSAT although the CNF has a model".into())
            } else {
                Ok(None)
            }
        }
        Some(s) => {
            let obs = read_obs(&s, pb.n, None)?;
            let t = Tracker {
                n: pb.n,
                levels: vec![obs],
                decisions: vec![],
            };
            t.check_state(pb)?;
            Ok(Some((s, t)))
        }
    }
}

fn snapshot_key(s: &SATSolver) -> Vec<u8> {
    let (wp, wn, stack) = s.verif_snapshot();
    let mut k: Vec<u8> = Vec::with_capacity(64);
    for w in wp.iter().chain(wn.iter()) {
        k.push(0xFE);
        for c in w {
            k.push(*c as u8);
        }
    }
    for (t, f, h, sat) in stack {
        k.push(0xFD);
        for v in t {
            k.push(v as u8);
        }
        k.push(0xFC);
        for v in f {
            k.push(v as u8);
        }
        k.push(0xFB);
        k.extend_from_slice(&h.to_le_bytes());
        for c in sat {
            k.push(c as u8);
        }
    }
    k
}

pub struct CnfResult {
    pub states: u64,
    pub transitions: u64,
    pub max_stack: usize,
    pub unsat_results: u64,
    pub sat_states: u64,
    pub pops: u64,
    pub violation: Option<(Vec<Act>, String)>,
    pub initially_unsat: bool,
}

/// complete reachable-state BFS for one CNF
pub fn explore_cnf(clauses: &[Clause], n: usize, max_open: usize, state_cap: u64) -> CnfResult {
    let pb = Problem::new(clauses, n);
    let mut r = CnfResult {
        states: 0,
        transitions: 0,
        max_stack: 0,
        unsat_results: 0,
        sat_states: 0,
        pops: 0,
        violation: None,
        initially_unsat: false,
    };
    let (s0, t0) = match construct(&pb) {
        Err(e) => {
            r.violation = Some((vec![], e));
            r.states = 1;
            r.transitions = 1;
            return r;
        }
        Ok(None) => {
            r.initially_unsat = true;
            r.states = 1;
            r.transitions = 1;
            return r;
        }
        Ok(Some(x)) => x,
    };
    r.transitions = 1;
    let nv = to_cnf(clauses).num_vars();
    let mut seen: HashSet<Vec<u8>> = HashSet::new();
    let mut hash_to_res: HashMap<u128, Vec<Vec<(usize, bool)>>> = HashMap::new();
    {
        let mut k0 = snapshot_key(&s0);
        k0.push(0xFA);
        k0.push(t0.levels.len() as u8);
        seen.insert(k0);
    }
    r.states = 1;
    {
        let top = t0.levels.last().unwrap();
        hash_to_res.insert(top.hash, pb.residual(top.tmask, top.fmask));
    }
    let mut frontier: Vec<(SATSolver, Tracker, Vec<Act>)> = vec![(s0, t0, vec![])];
    while !frontier.is_empty() {
        let mut next = Vec::new();
        for (s, t, hist) in frontier.iter() {
            let mut acts: Vec<Act> = Vec::new();
            if t.decisions.len() < max_open {
                for v in 0..nv {
                    acts.push(Act::Decide(v as u8, true));
                    acts.push(Act::Decide(v as u8, false));
                }
            }
            if !t.decisions.is_empty() {
                acts.push(Act::Pop);
            }
            for a in acts {
                let mut s2 = s.verif_clone();
                let mut t2 = t.clone();
                let depth_before = t2.levels.len();
                let res = t2.apply(&mut s2, &pb, a);
                r.transitions += 1;
                let mut h2 = hist.clone();
                h2.push(a);
                if let Err(e) = res {
                    r.violation = Some((h2, e));
                    return r;
                }
                match a {
                    Act::Pop => r.pops += 1,
                    Act::Decide(_, _) => {
                        if t2.levels.len() == depth_before {
                            r.unsat_results += 1;
                        }
                    }
                }
                r.max_stack = r.max_stack.max(t2.decisions.len());
                // 6. equal hashes => equal residual formulas (within this CNF)
                let top = t2.levels.last().unwrap();
                let res_now = pb.residual(top.tmask, top.fmask);
                match hash_to_res.get(&top.hash) {
                    Some(old) => {
                        if *old != res_now {
                            r.violation = Some((
                                h2,
                                format!(
                                    "hash {} is shared by two states with different residual formulas: {:?} vs {:?}",
                                    top.hash, old, res_now
                                ),
                            ));
                            return r;
                        }
                    }
                    None => {
                        hash_to_res.insert(top.hash, res_now);
                    }
                }
                // the key is the solver's hidden state plus the reference model's own stack
                // depth: if the two ever get out of step (a decide that pushes nothing, a pop
                // that pops twice) the pair is a new state and its successors are explored
                let mut key = snapshot_key(&s2);
                key.push(0xFA);
                key.push(t2.levels.len() as u8);
                if seen.insert(key) {
                    r.states += 1;
                    if top.sat {
                        r.sat_states += 1;
                    }
                    if r.states > state_cap {
                        return r;
                    }
                    next.push((s2, t2, h2));
                }
            }
        }
        frontier = next;
    }
    r
}

/// second regime, without any merging of states: every decide / pop sequence of at most `depth`
/// calls (at most `max_open` open decisions) on a fresh solver, each step checked like a BFS
/// transition. The BFS de-duplicates on the hook snapshot, which names the fields the solver had
/// when the hook was written; state that lives anywhere else (a memo, a queue, a lazily restored
/// structure) is invisible to that key and would be merged away. Here nothing is merged.
/// `assigned_too`: also decide variables that already have a value.
pub fn explore_cnf_unmerged(clauses: &[Clause], n: usize, max_open: usize, depth: usize, assigned_too: bool) -> CnfResult {
    let pb = Problem::new(clauses, n);
    let mut r = CnfResult { states: 0, transitions: 0, max_stack: 0, unsat_results: 0, sat_states: 0, pops: 0, violation: None, initially_unsat: false };
    let (s0, t0) = match construct(&pb) {
        Err(e) => {
            r.violation = Some((vec![], e));
            return r;
        }
        Ok(None) => {
            r.initially_unsat = true;
            return r;
        }
        Ok(Some(x)) => x,
    };
    let nv = to_cnf(clauses).num_vars();
    let mut hash_to_res: HashMap<u128, Vec<Vec<(usize, bool)>>> = HashMap::new();
    {
        let top = t0.levels.last().unwrap();
        hash_to_res.insert(top.hash, pb.residual(top.tmask, top.fmask));
    }
    struct Cx<'p, 'c> {
        pb: &'p Problem<'c>,
        nv: usize,
        max_open: usize,
        assigned_too: bool,
        hash_to_res: HashMap<u128, Vec<Vec<(usize, bool)>>>,
    }
    fn go(cx: &mut Cx, r: &mut CnfResult, s: &SATSolver, t: &Tracker, hist: &mut Vec<Act>, left: usize) -> bool {
        if left == 0 {
            r.states += 1; // complete sequences
            return true;
        }
        let top = t.levels.last().unwrap();
        let mut acts: Vec<Act> = Vec::new();
        if t.decisions.len() < cx.max_open {
            for v in 0..cx.nv {
                if cx.assigned_too || ((top.tmask | top.fmask) >> v) & 1 == 0 {
                    acts.push(Act::Decide(v as u8, true));
                    acts.push(Act::Decide(v as u8, false));
                }
            }
        }
        if !t.decisions.is_empty() {
            acts.push(Act::Pop);
        }
        for a in acts {
            let mut s2 = s.verif_clone();
            let mut t2 = t.clone();
            let depth_before = t2.levels.len();
            hist.push(a);
            r.transitions += 1;
            if let Err(e) = t2.apply(&mut s2, cx.pb, a) {
                r.violation = Some((hist.clone(), e));
                return false;
            }
            match a {
                Act::Pop => r.pops += 1,
                Act::Decide(_, _) => {
                    if t2.levels.len() == depth_before {
                        r.unsat_results += 1;
                    }
                }
            }
            r.max_stack = r.max_stack.max(t2.decisions.len());
            let top = t2.levels.last().unwrap();
            let res_now = cx.pb.residual(top.tmask, top.fmask);
            match cx.hash_to_res.get(&top.hash) {
                Some(old) => {
                    if *old != res_now {
                        r.violation = Some((hist.clone(), format!("hash {} is shared by two states with different residual formulas: {:?} vs {:?}", top.hash, old, res_now)));
                        return false;
                    }
                }
                None => {
                    cx.hash_to_res.insert(top.hash, res_now);
                }
            }
            if !go(cx, r, &s2, &t2, hist, left - 1) {
                return false;
            }
            hist.pop();
        }
        true
    }
    let mut cx = Cx { pb: &pb, nv, max_open, assigned_too, hash_to_res };
    let mut hist = Vec::new();
    go(&mut cx, &mut r, &s0, &t0, &mut hist, depth);
    r
}

/// third regime: unmerged sequences on a solver that is NEVER OBSERVED along the way. The public
/// observers (cur_hash, is_sat, is_set, difference_iter) are calls on the object too; a harness that
/// reads all of them after every step can only ever see histories in which every decision is
/// followed by every query (an observer that fills a lazy field heals the very state it looks at).
/// Here the path solver only receives decide / pop; after every call a *copy* of it is observed once
/// (hash and flag first, then the assignment is reconstructed by unwinding the copy level by level)
/// and thrown away, so the next call on the path happens with no query in between.
pub fn explore_cnf_unobserved(clauses: &[Clause], n: usize, max_open: usize, depth: usize, assigned_too: bool) -> CnfResult {
    let pb = Problem::new(clauses, n);
    let mut r = CnfResult { states: 0, transitions: 0, max_stack: 0, unsat_results: 0, sat_states: 0, pops: 0, violation: None, initially_unsat: false };
    let cnf = to_cnf(pb.clauses);
    let s0 = match guarded(|| SATSolver::new(cnf)) {
        Ok(Some(s)) => s,
        Ok(None) => {
            if pb.f != 0 {
                r.violation = Some((vec![], "construction reported UNSAT although the CNF has a model".into()));
            }
            r.initially_unsat = true;
            return r;
        }
        Err(p) => {
            r.violation = Some((vec![], format!("SATSolver::new panicked: {}", p)));
            return r;
        }
    };
    let nv = to_cnf(clauses).num_vars();
    struct Cx<'p, 'c> {
        pb: &'p Problem<'c>,
        nv: usize,
        max_open: usize,
        assigned_too: bool,
        hash_to_res: HashMap<u128, Vec<Vec<(usize, bool)>>>,
    }
    /// observe a copy: (tmask, fmask, hash, sat)
    fn look(cx: &mut Cx, s: &SATSolver, open: usize) -> Result<Obs, String> {
        let n = cx.pb.n;
        let mut c = s.verif_clone();
        let got = guarded(|| -> Result<Obs, String> {
            let hash = c.cur_hash();
            let sat = c.is_sat();
            let mut set_mask = 0u8;
            for v in 0..n {
                if c.is_set(VarLabel::new(v as u64)) {
                    set_mask |= 1 << v;
                }
            }
            let (mut t, mut f) = (0u8, 0u8);
            let mut top = (0u8, 0u8);
            for k in (0..=open).rev() {
                let (mut dt, mut df) = (0u8, 0u8);
                for l in c.difference_iter() {
                    let v = l.label().value_usize();
                    if v >= n {
                        return Err(format!("difference_iter reports variable {} outside the CNF", v));
                    }
                    if l.polarity() {
                        dt |= 1 << v;
                    } else {
                        df |= 1 << v;
                    }
                }
                if k == open {
                    top = (dt, df);
                }
                t |= dt;
                f |= df;
                if k > 0 {
                    c.pop();
                }
            }
            if t & f != 0 {
                return Err(format!("a variable is reported both true and false (true {:03b}, false {:03b})", t, f));
            }
            if set_mask != (t | f) {
                return Err(format!("is_set says {:03b} but the literals reported level by level say {:03b}", set_mask, t | f));
            }
            Ok(Obs { tmask: t, fmask: f, hash, sat, diff: top })
        });
        match got {
            Ok(x) => x,
            Err(p) => Err(format!("a public observer (cur_hash / is_sat / is_set / difference_iter / pop while unwinding a copy) panicked: {}", p)),
        }
    }
    fn judge(cx: &mut Cx, obs: &Obs, decisions: &[(u8, bool)]) -> Result<(), String> {
        let t = Tracker { n: cx.pb.n, levels: vec![obs.clone()], decisions: decisions.to_vec() };
        t.check_state(cx.pb)?;
        let res_now = cx.pb.residual(obs.tmask, obs.fmask);
        match cx.hash_to_res.get(&obs.hash) {
            Some(old) => {
                if *old != res_now {
                    return Err(format!("hash {} is shared by two states with different residual formulas: {:?} vs {:?}", obs.hash, old, res_now));
                }
            }
            None => {
                cx.hash_to_res.insert(obs.hash, res_now);
            }
        }
        Ok(())
    }
    fn go(cx: &mut Cx, r: &mut CnfResult, s: &SATSolver, decisions: &mut Vec<(u8, bool)>, seen: &mut Vec<Obs>, hist: &mut Vec<Act>, left: usize) -> bool {
        if left == 0 {
            r.states += 1;
            return true;
        }
        let cur = seen.last().unwrap().clone();
        let mut acts: Vec<Act> = Vec::new();
        if decisions.len() < cx.max_open {
            for v in 0..cx.nv {
                if cx.assigned_too || ((cur.tmask | cur.fmask) >> v) & 1 == 0 {
                    acts.push(Act::Decide(v as u8, true));
                    acts.push(Act::Decide(v as u8, false));
                }
            }
        }
        if !decisions.is_empty() {
            acts.push(Act::Pop);
        }
        for a in acts {
            let mut s2 = s.verif_clone();
            hist.push(a);
            r.transitions += 1;
            let mut pushed = false;
            let mut popped: Option<((u8, bool), Obs)> = None;
            match a {
                Act::Decide(v, b) => {
                    let res = match guarded(|| s2.decide(to_lit((v as usize, b)))) {
                        Ok(x) => x,
                        Err(p) => {
                            r.violation = Some((hist.clone(), format!("decide panicked: {}", p)));
                            return false;
                        }
                    };
                    if matches!(res, DecisionResult::UNSAT) {
                        r.unsat_results += 1;
                        let mut d = decisions.clone();
                        d.push((v, b));
                        if cx.pb.premise(&d) != 0 {
                            r.violation = Some((hist.clone(), format!("decide({}x{}) reported UNSAT although a model of the CNF extends the decisions", if b { "" } else { "-" }, v + 1)));
                            return false;
                        }
                        match look(cx, &s2, decisions.len()) {
                            Ok(o) => {
                                if o != cur {
                                    r.violation = Some((hist.clone(), "an UNSAT decision changed the observable state".into()));
                                    return false;
                                }
                            }
                            Err(e) => {
                                r.violation = Some((hist.clone(), format!("after UNSAT: {}", e)));
                                return false;
                            }
                        }
                    } else {
                        decisions.push((v, b));
                        pushed = true;
                        let o = match look(cx, &s2, decisions.len()) {
                            Ok(o) => o,
                            Err(e) => {
                                r.violation = Some((hist.clone(), e));
                                return false;
                            }
                        };
                        if matches!(res, DecisionResult::SAT) != o.sat {
                            r.violation = Some((hist.clone(), format!("decide returned {:?} but is_sat() = {}", matches!(res, DecisionResult::SAT), o.sat)));
                            return false;
                        }
                        if let Err(e) = judge(cx, &o, decisions) {
                            r.violation = Some((hist.clone(), e));
                            return false;
                        }
                        seen.push(o);
                    }
                }
                Act::Pop => {
                    r.pops += 1;
                    if let Err(p) = guarded(|| s2.pop()) {
                        r.violation = Some((hist.clone(), format!("pop panicked: {}", p)));
                        return false;
                    }
                    let d = decisions.pop().unwrap();
                    let o_old = seen.pop().unwrap();
                    popped = Some((d, o_old));
                    let want = seen.last().unwrap().clone();
                    match look(cx, &s2, decisions.len()) {
                        Ok(o) => {
                            if o != want {
                                r.violation = Some((hist.clone(), format!("pop did not restore the state before the matching decision: now {:?}, before {:?}", o, want)));
                                return false;
                            }
                        }
                        Err(e) => {
                            r.violation = Some((hist.clone(), format!("after pop: {}", e)));
                            return false;
                        }
                    }
                }
            }
            r.max_stack = r.max_stack.max(decisions.len());
            if !go(cx, r, &s2, decisions, seen, hist, left - 1) {
                return false;
            }
            if pushed {
                decisions.pop();
                seen.pop();
            }
            if let Some((d, o)) = popped {
                decisions.push(d);
                seen.push(o);
            }
            hist.pop();
        }
        true
    }
    let mut cx = Cx { pb: &pb, nv, max_open, assigned_too, hash_to_res: HashMap::new() };
    let o0 = match look(&mut cx, &s0, 0) {
        Ok(o) => o,
        Err(e) => {
            r.violation = Some((vec![], e));
            return r;
        }
    };
    if let Err(e) = judge(&mut cx, &o0, &[]) {
        r.violation = Some((vec![], e));
        return r;
    }
    let mut seen = vec![o0];
    let mut decisions = Vec::new();
    let mut hist = Vec::new();
    go(&mut cx, &mut r, &s0, &mut decisions, &mut seen, &mut hist, depth);
    r
}

/// the 4-variable family of the unmerged regime: one binary and one ternary clause, every choice
/// of variables and polarities (24 x 32 clause pairs)
pub fn chain_family4() -> Vec<Vec<Clause>> {
    let mut bins: Vec<Clause> = Vec::new();
    let mut terns: Vec<Clause> = Vec::new();
    for a in 0..4usize {
        for b in (a + 1)..4 {
            for pa in [true, false] {
                for pb in [true, false] {
                    bins.push(vec![(a, pa), (b, pb)]);
                }
            }
            for c in (b + 1)..4 {
                for m in 0..8usize {
                    terns.push(vec![(a, m & 1 == 1), (b, m & 2 == 2), (c, m & 4 == 4)]);
                }
            }
        }
    }
    let mut out = Vec::new();
    for b in bins.iter() {
        for t in terns.iter() {
            out.push(vec![b.clone(), t.clone()]);
        }
    }
    out
}

/// replay a history from a fresh solver with the public API only
pub fn replay_history(clauses: &[Clause], n: usize, hist: &[Act]) -> Result<(), (usize, String)> {
    let pb = Problem::new(clauses, n);
    let (mut s, mut t) = match construct(&pb) {
        Err(e) => return Err((0, e)),
        Ok(None) => return Ok(()),
        Ok(Some(x)) => x,
    };
    for (i, a) in hist.iter().enumerate() {
        if matches!(a, Act::Pop) && t.decisions.is_empty() {
            return Err((i, "replay file pops without an open decision".into()));
        }
        t.apply(&mut s, &pb, *a).map_err(|e| (i + 1, e))?;
    }
    Ok(())
}

/// explore every CNF of a chunk; `open` = bound on open decisions (None: num_vars + 1)
fn explore_chunk(chunk: &[Vec<Clause>], open: Option<usize>) -> Report {
    let mut r = Report::default();
    r.exhaustive = true;
    for clauses in chunk.iter() {
        let nvars = num_vars(clauses);
        let res = explore_cnf(clauses, nvars, open.unwrap_or(nvars + 1), 50_000_000);
        r.states += res.states;
        r.transitions += res.transitions;
        r.traces += 1;
        r.max_depth = r.max_depth.max(res.max_stack as u64);
        r.add_extra("unsat_decisions", res.unsat_results);
        r.add_extra("sat_states", res.sat_states);
        r.add_extra("pops", res.pops);
        r.add_extra("initially_unsat_cnfs", res.initially_unsat as u64);
        if res.states > 1 {
            r.distinct_nontrivial += res.states;
        }
        if let Some((hist, what)) = res.violation {
            r.violation(
                "solver-state-violates-statement",
                format!("cnf {} after {:?}: {}", cnf_json(clauses), hist, what),
                json!({"kind": "solver", "cnf": cnf_json(clauses), "n": nvars, "history": hist.iter().map(act_json).collect::<Vec<_>>()}),
            );
        }
    }
    r
}

/// wide-clause family over 5 variables: one clause over x0..x3 (every polarity pattern of
/// `pats`) plus every multiset of two binary clauses linking x4 to one of x0..x3: a single
/// decision on x4 can falsify two literals of the open wide clause at once
pub fn wide_family(pats: &[usize]) -> Vec<Vec<Clause>> {
    let mut bins: Vec<Clause> = Vec::new();
    for i in 0..4usize {
        for p4 in [true, false] {
            for pi in [true, false] {
                bins.push(vec![(i, pi), (4, p4)]);
            }
        }
    }
    let mut out = Vec::new();
    for &pat in pats {
        let wide: Clause = (0..4).map(|v| (v, (pat >> v) & 1 == 1)).collect();
        for ms in multisets(bins.len(), 2).into_iter().filter(|m| m.len() == 2) {
            let mut c = vec![wide.clone()];
            for &i in ms.iter() {
                c.push(bins[i].clone());
            }
            out.push(c);
        }
    }
    out
}

/// "same literals, different grouping" family over 5 variables: (x | A1) (x | A2) (!x | B1)
/// (!x | B2), where {A1, A2} and {B1, B2} are two different pairings of the literals of the other
/// four variables: the two residual formulas under x = false / x = true consist of the same
/// literal occurrences grouped differently
pub fn regroup_family(xs: &[usize], pats: &[usize]) -> Vec<Vec<Clause>> {
    let pairings: [[(usize, usize); 2]; 3] = [[(0, 1), (2, 3)], [(0, 2), (1, 3)], [(0, 3), (1, 2)]];
    let mut out = Vec::new();
    for &x in xs {
        let others: Vec<usize> = (0..5).filter(|v| *v != x).collect();
        for &pat in pats {
            let lit = |i: usize| -> Lit { (others[i], (pat >> i) & 1 == 1) };
            for pa in 0..3 {
                for pb in 0..3 {
                    if pa == pb {
                        continue;
                    }
                    let mut cnf: Vec<Clause> = Vec::new();
                    for &(i, j) in pairings[pa].iter() {
                        cnf.push(vec![(x, true), lit(i), lit(j)]);
                    }
                    for &(i, j) in pairings[pb].iter() {
                        cnf.push(vec![(x, false), lit(i), lit(j)]);
                    }
                    out.push(cnf);
                }
            }
        }
    }
    out
}

fn families(ctx: &Ctx) -> Vec<(usize, usize, usize, &'static str)> {
    // (n, max clauses, max clause width, name)
    match ctx.tier {
        Tier::Quick => vec![(3, 2, 6, "n3_le2_clauses"), (3, 3, 103, "n3_3_clauses_width_ge2_nontautological")],
        Tier::Thorough => vec![(3, 3, 6, "n3_le3_clauses"), (4, 2, 3, "n4_le2_clauses_width_le3")],
    }
}

pub fn run(ctx: &Ctx) -> Report {
    let mut rep = Report::new(
        "per CNF (every multiset of <=k clause types over n variables, incl. empty/unit/duplicate/tautological clauses): BFS to closure over all decide(+-v)/pop histories with at most n+1 open decisions, de-duplicated on (watch lists, state stack); a state is non-trivial if its key is new",
    );
    for (n, maxk, width, name) in families(ctx) {
        let special = width == 103;
        let types: Vec<Clause> = clause_types(n)
            .into_iter()
            .filter(|c| {
                let mut vs: Vec<usize> = c.iter().map(|l| l.0).collect();
                vs.dedup();
                if special {
                    // non-tautological clauses over >= 2 variables
                    vs.len() >= 2 && vs.len() == c.len()
                } else {
                    vs.len() <= width
                }
            })
            .collect();
        let mut sets = multisets(types.len(), maxk);
        if special {
            sets.retain(|m| m.len() == maxk);
        }
        ctx.rotate(&mut sets);
        // chunk the CNFs
        let chunks: Vec<&[Vec<usize>]> = sets.chunks(64).collect();
        let fam = par_run(ctx, &chunks, |_, chunk| {
            let mut r = Report::default();
            r.exhaustive = true;
            for ms in chunk.iter() {
                let clauses: Vec<Clause> = ms.iter().map(|&i| types[i].clone()).collect();
                let nvars = num_vars(&clauses);
                let res = explore_cnf(&clauses, nvars, nvars + 1, 50_000_000);
                r.states += res.states;
                r.transitions += res.transitions;
                r.traces += 1;
                r.max_depth = r.max_depth.max(res.max_stack as u64);
                r.add_extra("unsat_decisions", res.unsat_results);
                r.add_extra("sat_states", res.sat_states);
                r.add_extra("pops", res.pops);
                r.add_extra("initially_unsat_cnfs", res.initially_unsat as u64);
                if res.states > 1 {
                    r.distinct_nontrivial += res.states;
                }
                if let Some((hist, what)) = res.violation {
                    r.violation(
                        "solver-state-violates-statement",
                        format!("cnf {} after {:?}: {}", cnf_json(&clauses), hist, what),
                        json!({"kind": "solver", "cnf": cnf_json(&clauses), "n": nvars, "history": hist.iter().map(act_json).collect::<Vec<_>>()}),
                    );
                }
            }
            r
        });
        rep.add_extra(&format!("{}_cnfs", name), fam.traces);
        rep.add_extra(&format!("{}_states", name), fam.states);
        rep.bound(name, json!({"variables": n, "max_clauses": maxk, "max_clause_width": width, "clause_types": types.len(), "max_open_decisions": "num_vars+1"}));
        rep.merge(fam);
    }
    // wide clauses (width 4, 5 variables), bounded to 3 open decisions
    {
        let pats: Vec<usize> = if ctx.tier == Tier::Quick { vec![0b1111, 0b0000, 0b0101] } else { (0..16).collect() };
        let mut cnfs = wide_family(&pats);
        ctx.rotate(&mut cnfs);
        let open = ctx.tier.pick(3, 4);
        let chunks: Vec<&[Vec<Clause>]> = cnfs.chunks(8).collect();
        let fam = par_run(ctx, &chunks, |_, chunk| explore_chunk(chunk, Some(open)));
        rep.add_extra("n5_wide4_plus_2_binary_cnfs", fam.traces);
        rep.add_extra("n5_wide4_plus_2_binary_states", fam.states);
        rep.bound("n5_wide4_plus_2_binary", json!({"variables": 5, "clauses": 3, "wide_clause_polarity_patterns": pats.len(), "binary_clause_pairs": 136, "max_open_decisions": open}));
        rep.merge(fam);
    }
    // regrouped literals (4 clauses of width 3, 5 variables), bounded to 2 (3) open decisions
    {
        let (xs, pats): (Vec<usize>, Vec<usize>) = if ctx.tier == Tier::Quick { (vec![0, 4], vec![0b1111, 0b0110]) } else { ((0..5).collect(), (0..16).collect()) };
        let mut cnfs = regroup_family(&xs, &pats);
        ctx.rotate(&mut cnfs);
        let open = ctx.tier.pick(2, 3);
        let chunks: Vec<&[Vec<Clause>]> = cnfs.chunks(4).collect();
        let fam = par_run(ctx, &chunks, |_, chunk| explore_chunk(chunk, Some(open)));
        rep.add_extra("n5_regrouped_literals_cnfs", fam.traces);
        rep.add_extra("n5_regrouped_literals_states", fam.states);
        rep.bound("n5_regrouped_literals", json!({"variables": 5, "clauses": 4, "cnfs": cnfs.len(), "max_open_decisions": open}));
        rep.merge(fam);
    }
    // unmerged call sequences (no de-duplication at all): every CNF with <= 2 clauses over 3 variables,
    // and the binary + ternary clause pairs over 4 variables
    {
        let types = clause_types(3);
        let mut cnfs: Vec<(Vec<Clause>, bool)> = multisets(types.len(), 2).into_iter().map(|ms| (ms.iter().map(|&i| types[i].clone()).collect(), true)).collect();
        let n3 = cnfs.len();
        cnfs.extend(chain_family4().into_iter().map(|c| (c, false)));
        ctx.rotate(&mut cnfs);
        let (d3, d4, open4) = (ctx.tier.pick(5, 6), ctx.tier.pick(6, 7), ctx.tier.pick(2, 3));
        let chunks: Vec<&[(Vec<Clause>, bool)]> = cnfs.chunks(8).collect();
        let fam = par_run(ctx, &chunks, |_, chunk| {
            let mut r = Report::default();
            r.exhaustive = true;
            for (clauses, small) in chunk.iter() {
                let nvars = num_vars(clauses);
                let (open, depth) = if *small { (nvars + 1, d3) } else { (open4, d4) };
                for unobserved in [false, true] {
                    if unobserved && crate::core::disabled("unobserved") {
                        continue;
                    }
                    let res = if unobserved { explore_cnf_unobserved(clauses, nvars, open, depth, *small) } else { explore_cnf_unmerged(clauses, nvars, open, depth, *small) };
                    r.transitions += res.transitions;
                    r.add_extra(if unobserved { "unobserved_sequences" } else { "unmerged_sequences" }, res.states);
                    r.add_extra(if unobserved { "unobserved_steps" } else { "unmerged_steps" }, res.transitions);
                    r.add_extra("unsat_decisions", res.unsat_results);
                    r.add_extra("pops", res.pops);
                    if let Some((hist, what)) = res.violation {
                        r.violation(
                            "solver-state-violates-statement",
                            format!("cnf {} after {:?} ({}): {}", cnf_json(clauses), hist, if unobserved { "unmerged sequences, no query between the calls" } else { "unmerged sequences" }, what),
                            json!({"kind": if unobserved { "solver_unobserved" } else { "solver" }, "cnf": cnf_json(clauses), "n": nvars, "max_open": open, "history": hist.iter().map(act_json).collect::<Vec<_>>()}),
                        );
                    }
                }
                r.traces += 1;
            }
            r
        });
        rep.add_extra("unmerged_cnfs", fam.traces);
        rep.bound("unmerged_sequences", json!({"n3_le2_clauses": {"cnfs": n3, "depth": d3, "decide": "every literal, assigned or not", "max_open_decisions": "num_vars+1"}, "n4_binary_plus_ternary": {"cnfs": cnfs.len() - n3, "depth": d4, "decide": "unassigned variables", "max_open_decisions": open4}, "merging": "none"}));
        rep.merge(fam);
    }
    // long formulas, each explored directly after a short one on the same thread: 58 to 70 literal occurrences
    // (per-occurrence tables and primes around the 64th entry), the last clause over three variables of its own.
    // The hash is a wrapping product here, so "equal hashes only for identical residual formulas" is decided for
    // the explored states only (an accidental collision modulo 2^128 would be reported; none exists on the clean
    // tree and the exploration is deterministic)
    if !disabled("longsolver") {
        // (ternary, binary) clause counts of the prefix over x2..x5: the last clause's own variables x0, x1 then sit
        // at the literal occurrences (b - 1, b) or (b, b + 1) for b = 16, 32, 64 (the solver sorts every clause by
        // label, so the own variables come first in the last clause)
        let mut ks: Vec<(usize, usize)> = vec![(5, 0), (9, 2), (21, 0), (4, 2), (10, 1), (20, 2), (22, 0)];
        if ctx.tier == Tier::Thorough {
            ks.extend([(19, 0), (20, 0), (21, 1), (23, 0), (11, 0), (10, 0)]);
        }
        let items: Vec<((usize, usize), usize)> = ks.iter().flat_map(|&k| [(k, 0usize), (k, 1)]).collect();
        let fam = par_run(ctx, &items, |_, (k, variant)| {
            let mut r = Report::default();
            r.exhaustive = true;
            // distinct clauses over x2..x5, each with a positive literal (all-true is a model)
            let mut clauses: Vec<Clause> = Vec::new();
            let mut t = 0usize;
            while clauses.len() < k.0 {
                let skip = t % 4;
                let vs: Vec<usize> = (2..6).filter(|&v| v != 2 + skip).collect();
                let pat = (t / 4) % 8;
                t += 1;
                if pat == 7 {
                    continue; // all three negative
                }
                let cl: Clause = vec![(vs[0], pat & 1 == 0), (vs[1], pat & 2 == 0), (vs[2], pat & 4 == 0)];
                if !clauses.contains(&cl) {
                    clauses.push(cl);
                }
            }
            for j in 0..k.1 {
                clauses.push(vec![(2 + j, true), (4 + j % 2, j % 2 == 0)]);
            }
            // the last clause: two variables of its own and one shared literal
            clauses.push(vec![(0, true), (1, true), (5, *variant == 0)]);
            // a short formula first, on this thread
            let short: Vec<Clause> = vec![vec![(0, true), (1, true), (2, true)], vec![(1, false), (2, true)]];
            for (cl, nv, open) in [(short, 3usize, 4usize), (clauses, 6, 2)] {
                let res = explore_cnf(&cl, nv, open, 100_000);
                r.states += res.states;
                r.transitions += res.transitions;
                r.traces += 1;
                r.add_extra("unsat_decisions", res.unsat_results);
                r.add_extra("sat_states", res.sat_states);
                r.add_extra("pops", res.pops);
                if let Some((hist, what)) = res.violation {
                    r.violation(
                        "solver-state-violates-statement",
                        format!("cnf {} ({} literal occurrences, explored after a short formula on the same thread) after {:?}: {}", cnf_json(&cl), cl.iter().map(|c| c.len()).sum::<usize>(), hist, what),
                        json!({"kind": "solver", "cnf": cnf_json(&cl), "n": nv, "history": hist.iter().map(act_json).collect::<Vec<_>>()}),
                    );
                }
            }
            r
        });
        rep.add_extra("long_formula_states", fam.states);
        rep.bound("long_formulas", json!({"prefix_clauses_ternary_binary": ks, "literal_occurrences": "48 to 75", "variables": 6, "max_open_decisions": 2, "each_after": "a short formula explored on the same thread"}));
        rep.merge(fam);
    }
    rep.evaluations = rep.transitions;
    let unsat = rep.extra.get("unsat_decisions").and_then(|v| v.as_u64()).unwrap_or(0);
    let sat = rep.extra.get("sat_states").and_then(|v| v.as_u64()).unwrap_or(0);
    let pops = rep.extra.get("pops").and_then(|v| v.as_u64()).unwrap_or(0);
    rep.floor("decisions answered UNSAT", unsat, 1);
    rep.floor("states with the satisfied flag raised", sat, 1);
    rep.floor("pop transitions", pops, 1);
    rep.sample(json!({"cnf": [[-1, -2, 3]], "history": [{"decide": 1}, {"decide": -3}, "pop", {"decide": 2}]}));
    // determinism self-test: the state count of a fixed CNF is reproduced exactly
    {
        let c: Vec<Clause> = vec![vec![(0, false), (1, false), (2, true)], vec![(0, true), (2, false)]];
        let a = explore_cnf(&c, 3, 4, u64::MAX);
        let b = explore_cnf(&c, 3, 4, u64::MAX);
        if a.states != b.states || a.transitions != b.transitions {
            rep.set_extra("engine_panic", json!("determinism self-test failed: two BFS runs of one CNF differ"));
        }
        // a replay from scratch agrees with the clone-based BFS on a fixed history
        let h = vec![Act::Decide(0, true), Act::Decide(2, false), Act::Pop, Act::Decide(1, true)];
        let r1 = replay_history(&c, 3, &h).is_ok();
        let r2 = replay_history(&c, 3, &h).is_ok();
        if r1 != r2 {
            rep.set_extra("engine_panic", json!("determinism self-test failed: replay verdict differs"));
        }
    }
    rep.assumptions.push("frontier states are live copies made by the verif_clone hook; the canonical key is the verif_snapshot hook (watch lists as sorted multisets + state stack); the statement itself is checked through is_set / difference_iter / is_sat / cur_hash / DecisionResult only".into());
    rep.assumptions.push("hash/residual check is per CNF; the enumerated CNFs have <= 18 literal occurrences (no u128 wrap-around), the long formulas 48 to 75 (wrapping product: decided for the explored states)".into());
    rep.assumptions.push("at most num_vars+1 open decisions (deciding an already-true variable pushes a duplicate level, the only source of unboundedness)".into());
    rep
}

pub fn replay(_ctx: &Ctx, case: &Value) -> Report {
    let mut rep = Report::default();
    let clauses = cnf_from_json(&case["cnf"]);
    let n = case["n"].as_u64().map(|x| x as usize).unwrap_or_else(|| num_vars(&clauses));
    let hist: Vec<Act> = case["history"]
        .as_array()
        .map(|a| a.iter().filter_map(act_from_json).collect())
        .unwrap_or_default();
    if case.get("kind").and_then(|k| k.as_str()) == Some("solver_unobserved") {
        // re-run the unobserved enumeration of this CNF to the depth of the recorded history
        let open = case["max_open"].as_u64().map(|x| x as usize).unwrap_or(n + 1);
        for assigned_too in [true, false] {
            let res = explore_cnf_unobserved(&clauses, n, open, hist.len(), assigned_too);
            if let Some((h, what)) = res.violation {
                rep.violation("solver-state-violates-statement", format!("after {:?} (no query between the calls): {}", h, what), case.clone());
                return rep;
            }
        }
        return rep;
    }
    // twice: the same history must give the same verdict
    let a = replay_history(&clauses, n, &hist);
    let b = replay_history(&clauses, n, &hist);
    if a.is_err() != b.is_err() {
        rep.set_extra("engine_panic", json!("replay diverged between two executions"));
    }
    if let Err((i, e)) = a {
        rep.violation("solver-state-violates-statement", format!("step {}: {}", i, e), case.clone());
    }
    rep
}
