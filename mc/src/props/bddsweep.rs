//! Shared BDD-builder history engine. One set of operation histories on the real `RobddBuilder`
//! serves three properties; each violation is tagged with the property it contradicts:
//!   C01 – the result's truth table differs from the operation's definition, or an earlier
//!         result stopped denoting its function;
//!   C02 – two pointers for one function / `eq` disagrees / ill-shaped node;
//!   C16 – a builder with the lossy cache returns a structurally different diagram than the
//!         cache-everything builder in lock step.
//! Regimes: R1 = all short histories over n = 2 in fresh builders; R2 = saturation sweep over all
//! 256 functions of 3 variables in one long-lived builder per configuration; R4 = n = 4 slices.

use crate::core::*;
use crate::tt::{self, TT};
use crate::walk::*;
use rsdd::builder::bdd::{BddBuilder, RobddBuilder};
use rsdd::builder::cache::IteTable;
use rsdd::builder::BottomUpBuilder;
use rsdd::repr::{BddPtr, DDNNFPtr, PartialModel, VarLabel, VarOrder};
use serde_json::{json, Value};
use std::collections::HashMap;

#[derive(Clone, Copy, Debug, PartialEq, Eq)]
pub enum CacheKind {
    All,
    /// lossy cache with 2^p slots initially (None = library default 2^16)
    Lru(Option<usize>),
}

#[derive(Clone, Debug)]
pub struct Cfg {
    pub n: usize,
    pub order: Vec<usize>,
    pub cache: CacheKind,
    /// initial unique-table capacity through the hook (0 = library default)
    pub table_cap: usize,
    /// which of the fixed issue orders of the sweep to use
    pub issue: usize,
    /// regime and size knobs
    pub ite_pool: usize,
    pub full_ite: bool,
    /// 0 = all functions of n variables are operands; 1 = cubes, clauses and functions of <= 2 variables
    pub pool: u8,
    /// label of table variable i in a wider manager (empty = label i in an n-variable manager)
    pub labels: Vec<usize>,
}

impl Cfg {
    pub fn json(&self) -> Value {
        json!({"n": self.n, "order": self.order, "cache": match self.cache { CacheKind::All => json!("all"), CacheKind::Lru(None) => json!("lru-default"), CacheKind::Lru(Some(p)) => json!(format!("lru-2^{}", p)) },
               "table_cap": self.table_cap, "issue": self.issue, "ite_pool": self.ite_pool, "full_ite": self.full_ite, "pool": self.pool, "labels": self.labels})
    }
    pub fn from_json(v: &Value) -> Option<Cfg> {
        let cache = match v["cache"].as_str()? {
            "all" => CacheKind::All,
            "lru-default" => CacheKind::Lru(None),
            s => CacheKind::Lru(Some(s.strip_prefix("lru-2^")?.parse().ok()?)),
        };
        Some(Cfg {
            n: v["n"].as_u64()? as usize,
            order: v["order"].as_array()?.iter().filter_map(|x| x.as_u64()).map(|x| x as usize).collect(),
            cache,
            table_cap: v["table_cap"].as_u64()? as usize,
            issue: v["issue"].as_u64()? as usize,
            ite_pool: v["ite_pool"].as_u64()? as usize,
            full_ite: v["full_ite"].as_bool()?,
            pool: v["pool"].as_u64().unwrap_or(0) as u8,
            labels: v["labels"].as_array().map(|a| a.iter().filter_map(|x| x.as_u64()).map(|x| x as usize).collect()).unwrap_or_default(),
        })
    }
    fn var_order(&self) -> VarOrder {
        if self.labels.is_empty() {
            let v: Vec<VarLabel> = self.order.iter().map(|&x| VarLabel::new(x as u64)).collect();
            return VarOrder::new(&v);
        }
        // pool 3 / 4: the whole manager in label order / reversed label order (level = label resp.
        // width - 1 - label): the mapped labels sit at levels on both sides of the 2^8 and 2^16 boundaries
        if self.pool == 3 || self.pool == 4 {
            let w = self.manager_vars();
            let v: Vec<VarLabel> = (0..w).map(|x| VarLabel::new(if self.pool == 3 { x } else { w - 1 - x } as u64)).collect();
            return VarOrder::new(&v);
        }
        // wide manager: the mapped labels keep the relative order `order`, spread evenly among
        // the other labels (which stay in increasing order)
        let nn = self.labels.iter().max().unwrap() + 1;
        let others: Vec<usize> = (0..nn).filter(|l| !self.labels.contains(l)).collect();
        let mut full: Vec<usize> = Vec::new();
        let mut oi = 0;
        for (k, &v) in self.order.iter().enumerate() {
            let target = if self.n > 1 { k * others.len() / (self.n - 1) } else { 0 };
            while oi < target.min(others.len()) {
                full.push(others[oi]);
                oi += 1;
            }
            full.push(self.labels[v]);
        }
        full.extend(others[oi..].iter().cloned());
        let v: Vec<VarLabel> = full.iter().map(|&x| VarLabel::new(x as u64)).collect();
        VarOrder::new(&v)
    }
    /// number of variables of the manager at construction
    pub fn manager_vars(&self) -> usize {
        if self.pool == 3 || self.pool == 4 {
            // a few unused levels beyond the last mapped label
            return self.labels.iter().max().unwrap() + 10;
        }
        if self.labels.is_empty() { self.n } else { self.labels.iter().max().unwrap() + 1 }
    }
}

/// run `$body` with `$b` bound to a fresh builder of the configuration's cache type
#[macro_export]
macro_rules! with_bdd_builder {
    ($cfg:expr, |$b:ident| $body:expr) => {{
        rsdd::verif::set_table_capacity($cfg.table_cap);
        match $cfg.cache {
            $crate::props::bddsweep::CacheKind::All => {
                let $b = rsdd::builder::bdd::RobddBuilder::<rsdd::builder::cache::AllIteTable<rsdd::repr::BddPtr>>::new($cfg.var_order_pub());
                rsdd::verif::set_table_capacity(0);
                $body
            }
            $crate::props::bddsweep::CacheKind::Lru(p) => {
                rsdd::verif::set_lru_ite_capacity(p);
                let $b = rsdd::builder::bdd::RobddBuilder::<rsdd::builder::cache::LruIteTable<rsdd::repr::BddPtr>>::new($cfg.var_order_pub());
                rsdd::verif::set_lru_ite_capacity(None);
                rsdd::verif::set_table_capacity(0);
                $body
            }
        }
    }};
}

impl Cfg {
    pub fn var_order_pub(&self) -> VarOrder {
        self.var_order()
    }
}

/// description of one operation, enough to re-issue it
#[derive(Clone, Debug)]
pub enum Op {
    And(TT, TT),
    Or(TT, TT),
    Xor(TT, TT),
    Iff(TT, TT),
    Ite(TT, TT, TT),
    Neg(TT),
    Cond(TT, usize, bool),
    Exists(TT, usize),
    Compose(TT, usize, TT),
    CondModel(TT, usize), // model code in base 3 (0 unset, 1 true, 2 false) per variable
    AndLst(Vec<TT>),
    OrLst(Vec<TT>),
    Materialise(TT),
}

impl Op {
    fn json(&self) -> Value {
        json!(format!("{:?}", self))
    }
}

struct Sw<'a, 'e, T: IteTable<'a, BddPtr<'a>> + Default> {
    b: &'a RobddBuilder<'a, T>,
    cfg: Cfg,
    n: usize,
    /// position of each label in the builder's current order
    level: Vec<usize>,
    /// function -> pointer identity (both polarities entered)
    canon: HashMap<TT, (usize, bool)>,
    /// materialised functions
    f: FStore<BddPtr<'a>>,
    rep: Report,
    /// (operation key, structure digest) of every checked result, in issue order
    digests: Vec<(u64, u64)>,
    expected: Option<&'e [(u64, u64)]>,
    /// the reference run issued a different operation at this position (one of the two runs was
    /// cut short by a cap): the lock step is lost and nothing further is compared
    lock_lost: bool,
    opno: u64,
    compl_roots: u64,
    new_funcs: u64,
    stop: bool,
    mat: Vec<usize>,
    /// label of each table variable (grows with new_var)
    lab: Vec<usize>,
}

fn structure_digest(p: BddPtr) -> u64 {
    let (tbl, root) = bdd_structure(p);
    let mut h: u64 = 0xcbf29ce484222325;
    let mut mix = |x: u64| {
        h = (h ^ x).wrapping_mul(0x100000001b3);
        h ^= h >> 32;
    };
    for (v, l, hi) in tbl {
        mix(v);
        mix(l as u64);
        mix(hi as u64);
    }
    mix(root as u64);
    h
}

impl<'a, 'e, T: IteTable<'a, BddPtr<'a>> + Default> Sw<'a, 'e, T> {
    fn viol(&mut self, prop: &str, key: &str, what: String, op: &Op) {
        let case = json!({"kind": "bdd_sweep", "cfg": self.cfg.json(), "op_number": self.opno, "op": op.json()});
        self.rep.violation(format!("{}:{}", prop, key), what, case);
    }

    fn lbl(&self, v: usize) -> VarLabel {
        VarLabel::new(self.lab[v] as u64)
    }

    /// truth table over the table variables (labels mapped back); a label outside the map makes
    /// the table all-ones-plus (never equal to a wanted table of < 64 rows... reported)
    fn tt_of(&self, p: BddPtr<'a>) -> Result<TT, String> {
        let lab = &self.lab;
        bdd_tt_mapped(p, self.n, &|l| lab.iter().position(|&m| m == l))
    }

    /// the central oracle: check one result against its definition and the canonicity map
    fn check(&mut self, r: Result<BddPtr<'a>, String>, want: TT, op: &Op) -> Option<BddPtr<'a>> {
        self.opno += 1;
        self.rep.transitions += 1;
        let r = match r {
            Ok(r) => r,
            Err(p) => {
                self.viol("C01", "panic", format!("{:?} panicked: {}", op, p), op);
                return None;
            }
        };
        let got = match self.tt_of(r) {
            Ok(g) => g,
            Err(e) => {
                self.viol("C01", "wrong-function", format!("{:?} [{}]: {}", op, self.cfg.json(), e), op);
                return None;
            }
        };
        if got != want {
            self.viol(
                "C01",
                "wrong-function",
                format!("{:?} [{}] returned the function {:#x}, the definition gives {:#x}", op, self.cfg.json(), got, want),
                op,
            );
        }
        if matches!(r, BddPtr::Compl(_)) {
            self.compl_roots += 1;
        }
        // canonicity: one pointer per function
        let id = bdd_id(r);
        match self.canon.get(&got) {
            Some(&old) => {
                if old != id {
                    self.viol(
                        "C02",
                        "two-pointers-one-function",
                        format!("{:?} [{}] returned a second, different pointer for the function {:#x}", op, self.cfg.json(), got),
                        op,
                    );
                }
            }
            None => {
                self.new_funcs += 1;
                self.canon.insert(got, id);
                self.canon.insert(tt::not(got, self.n), bdd_id(r.neg()));
                let lv = self.level.clone();
                let lab = self.lab.clone();
                if let Some(d) = bdd_shape_defect(r, &|l| lab.iter().position(|&m| m == l).map(|v| lv[v]).unwrap_or(usize::MAX)) {
                    self.viol("C02", "ill-shaped", format!("{:?} [{}]: {}", op, self.cfg.json(), d), op);
                }
            }
        }
        // constants must be the constant pointers (pointer identity with true/false)
        if got == tt::mask(self.n) && !r.is_true() || got == 0 && !r.is_false() {
            self.viol("C02", "non-constant-pointer-for-constant", format!("{:?}: constant function not represented by the constant pointer", op), op);
        }
        // lock step with the cache-everything builder
        let d = structure_digest(r);
        let opkey = {
            let mut h: u64 = 0xcbf29ce484222325;
            for b in format!("{:?}", op).bytes() {
                h = (h ^ b as u64).wrapping_mul(0x100000001b3);
            }
            h
        };
        if let Some(exp) = self.expected {
            let i = self.digests.len();
            if !self.lock_lost && i < exp.len() && exp[i].0 != opkey {
                // not the same operation: a wall-clock / memory cap cut one of the two runs inside
                // a phase, so positions no longer correspond; comparing further would be wrong
                self.lock_lost = true;
                self.rep.add_extra("lockstep_lost_after_a_cap", 1);
            }
            if !self.lock_lost && i < exp.len() && exp[i].1 != d {
                self.viol(
                    "C16",
                    "lossy-cache-changes-result",
                    format!("{:?} [{}]: diagram differs structurally from the one the cache-everything builder returned at the same step", op, self.cfg.json()),
                    op,
                );
            }
        }
        self.digests.push((opkey, d));
        if self.rep.n_violations > 64 {
            self.stop = true;
        }
        Some(r)
    }

    /// "keeps denoting the same function": re-evaluate every materialised function
    fn recheck_pool(&mut self) {
        for k in 0..self.mat.len() {
            let t = self.mat[k];
            let want = tt::extend(t as TT, self.cfg.n, self.n);
            let got = self.tt_of(self.f[t]).unwrap_or(!want);
            self.rep.evaluations += 1;
            if got != want {
                let op = Op::Materialise(t as TT);
                self.viol("C01", "earlier-result-changed", format!("function {:#x} built earlier now evaluates to {:#x} [{}]", want, got, self.cfg.json()), &op);
            }
        }
    }

    fn model_of(&self, code: usize) -> (PartialModel, Vec<Option<bool>>) {
        let mut a = Vec::new();
        let mut c = code;
        for _ in 0..self.n {
            a.push(match c % 3 {
                0 => None,
                1 => Some(true),
                _ => Some(false),
            });
            c /= 3;
        }
        // the model speaks about labels: spread the assignments over the manager's width
        let width = self.lab.iter().max().map(|m| m + 1).unwrap_or(0);
        let mut wide: Vec<Option<bool>> = vec![None; width];
        for (v, x) in a.iter().enumerate() {
            wide[self.lab[v]] = *x;
        }
        (crate::props::wparams::build_model(&wide, code + self.cfg.issue), a)
    }

    /// issue one operation on the real builder and check it
    fn issue(&mut self, op: Op) -> Option<BddPtr<'a>> {
        // another object of the library is created, used and dropped on this thread now and then
        if self.opno % 509 == 17 {
            crate::props::bddutil::interloper((self.opno / 509) as usize);
        }
        let n = self.n;
        let b = self.b;
        let p = |s: &Self, t: TT| -> BddPtr<'a> { s.ptr_of(t) };
        let (res, want): (Result<BddPtr<'a>, String>, TT) = match &op {
            Op::And(x, y) => {
                let (px, py) = (p(self, *x), p(self, *y));
                (guarded(|| b.and(px, py)), x & y)
            }
            Op::Or(x, y) => {
                let (px, py) = (p(self, *x), p(self, *y));
                (guarded(|| b.or(px, py)), x | y)
            }
            Op::Xor(x, y) => {
                let (px, py) = (p(self, *x), p(self, *y));
                (guarded(|| b.xor(px, py)), x ^ y)
            }
            Op::Iff(x, y) => {
                let (px, py) = (p(self, *x), p(self, *y));
                (guarded(|| b.iff(px, py)), tt::iff(*x, *y, n))
            }
            Op::Ite(x, y, z) => {
                let (px, py, pz) = (p(self, *x), p(self, *y), p(self, *z));
                (guarded(|| b.ite(px, py, pz)), tt::ite(*x, *y, *z, n))
            }
            Op::Neg(x) => {
                let px = p(self, *x);
                (guarded(|| b.negate(px)), tt::not(*x, n))
            }
            Op::Cond(x, v, val) => {
                let px = p(self, *x);
                (guarded(|| b.condition(px, self.lbl(*v), *val)), tt::cofactor(*x, *v, *val, n))
            }
            Op::Exists(x, v) => {
                let px = p(self, *x);
                (guarded(|| b.exists(px, self.lbl(*v))), tt::exists(*x, *v, n))
            }
            Op::Compose(x, v, g) => {
                let (px, pg) = (p(self, *x), p(self, *g));
                (guarded(|| b.compose(px, self.lbl(*v), pg)), tt::compose_def(*x, *v, *g, n))
            }
            Op::CondModel(x, code) => {
                let px = p(self, *x);
                let (m, a) = self.model_of(*code);
                let mut want = *x;
                for (v, val) in a.iter().enumerate() {
                    if let Some(val) = val {
                        want = tt::cofactor(want, v, *val, n);
                    }
                }
                (guarded(|| b.condition_model(px, &m)), want)
            }
            Op::AndLst(xs) => {
                let ps: Vec<BddPtr<'a>> = xs.iter().map(|t| p(self, *t)).collect();
                (guarded(|| b.and_lst(&ps)), xs.iter().fold(tt::mask(n), |a, t| a & t))
            }
            Op::OrLst(xs) => {
                let ps: Vec<BddPtr<'a>> = xs.iter().map(|t| p(self, *t)).collect();
                (guarded(|| b.or_lst(&ps)), xs.iter().fold(0, |a, t| a | t))
            }
            Op::Materialise(t) => (Ok(self.ptr_of(*t)), *t),
        };
        let is_ite = matches!(op, Op::Ite(..));
        let r = self.check(res, want, &op);
        // chained step: the returned diagram is itself used as an operand (conditioned and
        // quantified on every variable); done for ite results, whose pointers are otherwise
        // only evaluated
        let chain = match &op {
            Op::Ite(g, _, _) => !self.cfg.full_ite || (0..n).any(|v| *g == tt::lit(v, true, n) || *g == tt::lit(v, false, n)),
            _ => false,
        };
        if let (true, Some(r)) = (chain && is_ite, r) {
            for v in 0..n {
                let l = self.lbl(v);
                for (what, got, exp) in [
                    ("condition(true)", guarded(|| b.condition(r, l, true)), tt::cofactor(want, v, true, n)),
                    ("condition(false)", guarded(|| b.condition(r, l, false)), tt::cofactor(want, v, false, n)),
                    ("exists", guarded(|| b.exists(r, l)), tt::exists(want, v, n)),
                ] {
                    self.rep.transitions += 1;
                    match got {
                        Err(p) => self.viol("C01", "panic", format!("{} on variable {} of the result of {:?} panicked: {}", what, v, op, p), &op),
                        Ok(g) => {
                            let gt = self.tt_of(g).unwrap_or(!exp);
                            if gt != exp {
                                self.viol("C01", "wrong-function", format!("{} on variable {} of the result of {:?} [{}] returned {:#x}, the definition gives {:#x}", what, v, op, self.cfg.json(), gt, exp), &op);
                            }
                        }
                    }
                }
            }
        }
        r
    }

    /// pointer of a function of the current variable set: the canonical pointer recorded for it
    /// (all functions the sweeps use as arguments were materialised and verified before)
    fn ptr_of(&self, t: TT) -> BddPtr<'a> {
        // arguments are always functions over the first cfg.n variables (materialised), possibly
        // extended to the grown variable set
        let base = if self.n == self.cfg.n {
            t
        } else {
            // project back: extended functions do not depend on the new variables
            t & tt::mask(self.cfg.n)
        };
        self.f[base as usize]
    }

    /// build the function with table `t` over variables v.. by Shannon expansion with `ite`
    /// on label order 0,1,2,.. (deliberately not the builder's order)
    fn shannon(&mut self, t: TT, v: usize) -> BddPtr<'a> {
        let n = self.n;
        if t == 0 {
            return BddPtr::PtrFalse;
        }
        if t == tt::mask(n) {
            return BddPtr::PtrTrue;
        }
        if v >= n {
            unreachable!()
        }
        if !tt::depends_on(t, v, n) {
            return self.shannon(t, v + 1);
        }
        let hi = self.shannon(tt::cofactor(t, v, true, n), v + 1);
        let lo = self.shannon(tt::cofactor(t, v, false, n), v + 1);
        let x = self.b.var(self.lbl(v), true);
        self.rep.transitions += 1;
        self.b.ite(x, hi, lo)
    }

    fn materialise_all(&mut self) -> Vec<usize> {
        let n = self.n;
        let total = 1usize << (1usize << n);
        let dom: Vec<usize> = if self.cfg.pool == 0 {
            (0..total).collect()
        } else {
            let mut v: Vec<usize> = vec![0, total - 1];
            for code in 0..3usize.pow(n as u32) {
                let mut c = code;
                let mut t = tt::mask(n);
                for x in 0..n {
                    match c % 3 {
                        1 => t &= tt::var(x, n),
                        2 => t &= tt::not(tt::var(x, n), n),
                        _ => (),
                    }
                    c /= 3;
                }
                v.push(t as usize);
                v.push(tt::not(t, n) as usize);
            }
            for a in 0..n {
                for c in (a + 1)..n {
                    for t2 in 0..16u64 {
                        let mut t = 0u64;
                        for asg in 0..(1usize << n) {
                            let i2 = ((asg >> a) & 1) | (((asg >> c) & 1) << 1);
                            if (t2 >> i2) & 1 == 1 {
                                t |= 1 << asg;
                            }
                        }
                        v.push(t as usize);
                    }
                }
            }
            v.sort();
            v.dedup();
            v
        };
        self.f = FStore::new(total, BddPtr::PtrFalse, self.cfg.pool != 0);
        for &t in dom.iter() {
            let r = guarded(|| self.shannon(t as TT, 0));
            let r = match r {
                Ok(r) => r,
                Err(p) => {
                    let op = Op::Materialise(t as TT);
                    self.viol("C01", "panic", format!("building {:#x} by ite panicked: {}", t, p), &op);
                    BddPtr::PtrFalse
                }
            };
            self.f[t] = r;
            self.mat.push(t);
            let op = Op::Materialise(t as TT);
            self.check(Ok(r), t as TT, &op);
        }
        dom
    }
}

fn issue_perm(k: usize, m: usize) -> Vec<usize> {
    let bits = (m as f64).log2().ceil() as u32;
    match k % 3 {
        0 => (0..m).collect(),
        1 => (0..m).rev().collect(),
        _ => {
            let mut v: Vec<usize> = (0..m)
                .map(|i| ((i as u32).reverse_bits() >> (32 - bits.max(1))) as usize)
                .collect();
            if !v.iter().all(|&x| x < m) {
                v = (0..m).collect();
            }
            v
        }
    }
}

/// the n = 3 (or 2) saturation sweep in one builder
fn sweep<'a, 'e, T: IteTable<'a, BddPtr<'a>> + Default>(
    b: &'a RobddBuilder<'a, T>,
    cfg: &Cfg,
    expected: Option<&'e [(u64, u64)]>,
    ctx: &Ctx,
) -> (Report, Vec<(u64, u64)>) {
    let n = cfg.n;
    let mut level = vec![0; n];
    for (pos, &v) in cfg.order.iter().enumerate() {
        level[v] = pos;
    }
    let mut s = Sw {
        b,
        cfg: cfg.clone(),
        n,
        level,
        canon: HashMap::new(),
        f: FStore::empty(BddPtr::PtrFalse),
        rep: Report::default(),
        digests: Vec::new(),
        expected,
        lock_lost: false,
        opno: 0,
        compl_roots: 0,
        new_funcs: 0,
        stop: false,
        mat: Vec::new(),
        lab: if cfg.labels.is_empty() { (0..n).collect() } else { cfg.labels.clone() },
    };
    s.rep.exhaustive = true;
    s.canon.insert(tt::mask(n), (0, false));
    s.canon.insert(0, (0, true));
    let dom = s.materialise_all();
    let total = dom.len();
    let perm: Vec<usize> = issue_perm(cfg.issue, total).into_iter().map(|i| dom[i]).collect();
    // read-only queries between construction and use (every second configuration): cached
    // semantic hashes, counts, node counts and evaluation visit every materialised diagram and
    // leave their memos behind; the histories below must still return the one canonical pointer
    // per function and the right functions
    if cfg.issue % 2 == 1 {
        use rsdd::repr::DDNNFPtr;
        let width = cfg.manager_vars();
        let hmap = rsdd::repr::create_semantic_hash_map::<{ rsdd::constants::primes::U64_LARGEST }>(width);
        let wmap: rsdd::repr::WmcParams<rsdd::util::semirings::RealSemiring> = rsdd::repr::WmcParams::new(
            (0..width).map(|v| (VarLabel::new(v as u64), (rsdd::util::semirings::RealSemiring(0.25), rsdd::util::semirings::RealSemiring(0.75)))).collect::<HashMap<_, _>>(),
        );
        for &t in dom.iter() {
            let p = s.f[t];
            let r = guarded(|| {
                let _ = p.cached_semantic_hash(b.order(), &hmap);
                let _ = p.unsmoothed_wmc(&wmap);
                let _ = p.count_nodes();
            });
            s.rep.evaluations += 3;
            if let Err(e) = r {
                s.viol("C01", "panic", format!("a read-only query on {:#x} panicked: {}", t, e), &Op::Materialise(t as TT));
            }
        }
        s.recheck_pool();
        s.rep.add_extra("configurations_with_interleaved_queries", 1);
    }
    // all ordered pairs x {and, or, xor, iff}
    'outer: for &i in perm.iter() {
        for &j in perm.iter() {
            let (x, y) = (i as TT, j as TT);
            s.issue(Op::And(x, y));
            s.issue(Op::Or(x, y));
            s.issue(Op::Xor(x, y));
            s.issue(Op::Iff(x, y));
            if s.stop {
                break 'outer;
            }
        }
        if i % 32 == 0 {
            s.recheck_pool();
            if ctx.over_time() || ctx.over_mem() {
                s.rep.cap("wall-clock or memory cap inside the pair sweep");
                break;
            }
        }
    }
    // unary operations
    if !s.stop {
        for &i in perm.iter() {
            let x = i as TT;
            s.issue(Op::Neg(x));
            for v in 0..n {
                s.issue(Op::Cond(x, v, true));
                s.issue(Op::Cond(x, v, false));
                s.issue(Op::Exists(x, v));
            }
            for code in 0..3usize.pow(n as u32) {
                s.issue(Op::CondModel(x, code));
            }
        }
        s.recheck_pool();
    }
    // every ordered pair of conditioning / quantification operations on the same function, back to
    // back (the fixed order above never conditions on two different variables with the same
    // polarity in a row; per-call memos that survive a call are only visible to such a pair)
    if !s.stop {
        let fstep = if total <= 1024 { 1 } else { 8 };
        'p: for &i in perm.iter().step_by(fstep) {
            let x = i as TT;
            let mut ops: Vec<Op> = Vec::new();
            for v in 0..n {
                ops.push(Op::Cond(x, v, true));
                ops.push(Op::Cond(x, v, false));
                ops.push(Op::Exists(x, v));
            }
            for o1 in ops.iter() {
                for o2 in ops.iter() {
                    s.issue(o1.clone());
                    s.issue(o2.clone());
                }
                if s.stop {
                    break 'p;
                }
            }
        }
        s.recheck_pool();
    }
    // every A, B, A triple (A != B) over conditioning on a literal, quantification and conditioning on a
    // partial model, on the same function: "ask, disturb with another kind of call, ask the same again" is
    // what a memo that is tagged or invalidated by one entry point and not by the other needs
    if !s.stop && !crate::core::disabled("aba") {
        let fstep = if total <= 1024 { 1 } else { 16 };
        let nmodels = 3usize.pow(n as u32);
        'q: for &i in perm.iter().step_by(fstep) {
            let x = i as TT;
            let mut ops: Vec<Op> = Vec::new();
            for v in 0..n {
                ops.push(Op::Cond(x, v, true));
                ops.push(Op::Cond(x, v, false));
                ops.push(Op::Exists(x, v));
            }
            let nlit = ops.len();
            for code in 1..nmodels {
                ops.push(Op::CondModel(x, code));
            }
            for (ia, a) in ops.iter().enumerate() {
                for (ib, b) in ops.iter().enumerate() {
                    // (two partial models: only when n <= 3, the literal operations always)
                    if ia == ib || (ia >= nlit && ib >= nlit && n > 3) {
                        continue;
                    }
                    s.issue(a.clone());
                    s.issue(b.clone());
                    s.issue(a.clone());
                }
                if s.stop {
                    break 'q;
                }
            }
            if ctx.over_time() || ctx.over_mem() {
                s.rep.cap("wall-clock or memory cap inside the A-B-A triples");
                break;
            }
        }
        s.recheck_pool();
    }
    // A(f), D(degenerate operand), B(f): two conditioning / quantification operations on one function with
    // the same kind of operation on a constant or a literal in between. A call on a degenerate operand takes
    // the early exits of the implementation; whatever bookkeeping (a tag, a "current variable", a memo that
    // is cleared on one path only) it leaves half-updated meets B
    if !s.stop && total <= 256 && !crate::core::disabled("adb") {
        let have: std::collections::HashSet<usize> = perm.iter().cloned().collect();
        let m = tt::mask(n);
        let mut degenerate: Vec<Op> = Vec::new();
        for v in 0..n {
            let other = (v + 1) % n;
            for c in [if v % 2 == 0 { m } else { 0 as TT }, if v % 2 == 0 { tt::var(other, n) } else { tt::var(v, n) }] {
                if !have.contains(&(c as usize)) {
                    continue;
                }
                degenerate.push(Op::Cond(c, v, true));
                degenerate.push(Op::Cond(c, v, false));
                degenerate.push(Op::Exists(c, v));
            }
        }
        // (quick: every 2th function, rotating with the configuration)
        let astep = if ctx.tier == Tier::Quick { 2 } else { 1 };
        'adb: for &i in perm.iter().skip(cfg.issue % astep).step_by(astep) {
            let x = i as TT;
            let mut ops: Vec<Op> = Vec::new();
            for v in 0..n {
                ops.push(Op::Cond(x, v, true));
                ops.push(Op::Cond(x, v, false));
                ops.push(Op::Exists(x, v));
            }
            for a in ops.iter() {
                for d in degenerate.iter() {
                    for b in ops.iter() {
                        s.issue(a.clone());
                        s.issue(d.clone());
                        s.issue(b.clone());
                    }
                }
                if s.stop {
                    break 'adb;
                }
            }
            if ctx.over_time() || ctx.over_mem() {
                s.rep.cap("wall-clock or memory cap inside the A-D-B triples");
                break;
            }
        }
        s.recheck_pool();
    }
    // compose: all f x v x g
    if !s.stop {
        'c: for &i in perm.iter() {
            for v in 0..n {
                for &j in perm.iter() {
                    s.issue(Op::Compose(i as TT, v, j as TT));
                    if s.stop {
                        break 'c;
                    }
                }
            }
        }
        s.recheck_pool();
    }
    // ite over triples
    if !s.stop {
        let pool: Vec<usize> = if cfg.full_ite {
            perm.clone()
        } else {
            // a rule-defined subset: the first `ite_pool` functions in the issue order of the
            // 2-variable functions over each variable pair, then arbitrary ones
            let mut p: Vec<usize> = Vec::new();
            if n >= 2 {
                for a in 0..n {
                    for c in (a + 1)..n {
                        for t2 in 0..16u64 {
                            // embed the 2-variable function t2 over (a, c)
                            let mut t = 0u64;
                            for asg in 0..(1usize << n) {
                                let i2 = ((asg >> a) & 1) | (((asg >> c) & 1) << 1);
                                if (t2 >> i2) & 1 == 1 {
                                    t |= 1 << asg;
                                }
                            }
                            if !p.contains(&(t as usize)) {
                                p.push(t as usize);
                            }
                        }
                    }
                }
            }
            for &i in perm.iter() {
                if p.len() >= cfg.ite_pool {
                    break;
                }
                if !p.contains(&i) {
                    p.push(i);
                }
            }
            p.truncate(cfg.ite_pool.max(1));
            p
        };
        'i: for (ii, &i) in pool.iter().enumerate() {
            for &j in pool.iter() {
                for &k in pool.iter() {
                    s.issue(Op::Ite(i as TT, j as TT, k as TT));
                }
                if s.stop {
                    break 'i;
                }
            }
            if ii % 8 == 0 && (ctx.over_time() || ctx.over_mem()) {
                s.rep.cap("wall-clock or memory cap inside the ite sweep");
                break;
            }
        }
        // literal guards: ite(x or !x, g, h) for every variable and every ordered pair (g, h) of
        // materialised functions (the guard's variable above, between, below or equal to the
        // branches' top variables: every shortcut of the standard-triple code)
        if !cfg.full_ite && !s.stop && n >= 2 {
            'l: for v in 0..n {
                for pol in [true, false] {
                    let g = tt::lit(v, pol, n);
                    for &j in perm.iter() {
                        for &k in perm.iter() {
                            s.issue(Op::Ite(g, j as TT, k as TT));
                        }
                        if s.stop {
                            break 'l;
                        }
                    }
                    if ctx.over_time() || ctx.over_mem() {
                        s.rep.cap("wall-clock or memory cap inside the literal-guard ite sweep");
                        break 'l;
                    }
                }
            }
        }
        s.recheck_pool();
    }
    // lists
    if !s.stop {
        let pool: Vec<usize> = perm.iter().cloned().step_by((total / 12).max(1)).collect();
        s.issue(Op::AndLst(vec![]));
        s.issue(Op::OrLst(vec![]));
        for &i in pool.iter() {
            s.issue(Op::AndLst(vec![i as TT]));
            s.issue(Op::OrLst(vec![i as TT]));
            for &j in pool.iter() {
                s.issue(Op::AndLst(vec![i as TT, j as TT]));
                s.issue(Op::OrLst(vec![i as TT, j as TT]));
                for &k in pool.iter() {
                    s.issue(Op::AndLst(vec![i as TT, j as TT, k as TT]));
                    s.issue(Op::OrLst(vec![i as TT, j as TT, k as TT]));
                }
            }
        }
    }
    // lists of literals: every sequence of <= 3 literals (repetitions and complementary pairs
    // included) and every subset of the 2n literals in label order, through and_lst / or_lst
    if !s.stop && n <= 4 {
        let lits: Vec<TT> = (0..n).flat_map(|v| [tt::lit(v, true, n), tt::lit(v, false, n)]).collect();
        for a in 0..lits.len() {
            for b2 in 0..lits.len() {
                s.issue(Op::AndLst(vec![lits[a], lits[b2]]));
                s.issue(Op::OrLst(vec![lits[a], lits[b2]]));
                for c in 0..lits.len() {
                    s.issue(Op::AndLst(vec![lits[a], lits[b2], lits[c]]));
                    s.issue(Op::OrLst(vec![lits[a], lits[b2], lits[c]]));
                }
            }
        }
        for mask in 0..(1usize << lits.len()) {
            if mask.count_ones() >= 4 {
                let l: Vec<TT> = (0..lits.len()).filter(|i| (mask >> i) & 1 == 1).map(|i| lits[i]).collect();
                s.issue(Op::AndLst(l.clone()));
                s.issue(Op::OrLst(l));
            }
        }
        // constants in front, in the middle and at the end of a list
        let (t, f0) = (tt::mask(n), 0);
        for &x in lits.iter().take(2) {
            for c in [t, f0] {
                s.issue(Op::AndLst(vec![c, x, lits[2]]));
                s.issue(Op::AndLst(vec![x, c, lits[2]]));
                s.issue(Op::AndLst(vec![x, lits[2], c]));
                s.issue(Op::OrLst(vec![c, x, lits[2]]));
                s.issue(Op::OrLst(vec![x, c, lits[2]]));
                s.issue(Op::OrLst(vec![x, lits[2], c]));
            }
        }
    }
    // variables added at run time: the order grows, old diagrams keep their meaning
    if !s.stop {
        for round in 0..(6usize.saturating_sub(cfg.n)).min(2) {
            let pol = round == 0;
            let r = guarded(|| b.new_var(pol));
            match r {
                Err(p) => {
                    let op = Op::Materialise(0);
                    s.viol("C01", "panic", format!("new_var panicked: {}", p), &op);
                    break;
                }
                Ok((lbl, ptr)) => {
                    let newv = s.n;
                    let want_label = cfg.manager_vars() + round;
                    if lbl.value_usize() != want_label {
                        let op = Op::Materialise(0);
                        s.viol("C01", "new-var-label", format!("new_var returned label {} for the {}-variable builder", lbl.value(), want_label), &op);
                        break;
                    }
                    s.n += 1;
                    s.level.push(newv);
                    s.lab.push(want_label);
                    let n2 = s.n;
                    // re-key the canonicity map to the wider tables
                    let old: Vec<(TT, (usize, bool))> = s.canon.drain().collect();
                    for (t, id) in old {
                        s.canon.insert(tt::extend(t, n2 - 1, n2), id);
                    }
                    let xl = tt::lit(newv, pol, n2);
                    let op0 = Op::Materialise(xl);
                    s.opno += 1;
                    // the new literal itself
                    let got = s.tt_of(ptr).unwrap_or(!xl);
                    s.rep.transitions += 1;
                    if got != xl {
                        s.viol("C01", "wrong-function", format!("new_var({}) denotes {:#x}", pol, got), &op0);
                    }
                    // both literals of the run-time variable requested through var() afterwards (the pointer
                    // new_var returned is one thing, what the builder hands out for the label later another)
                    for pol2 in [true, false] {
                        let want = tt::lit(newv, pol2, n2);
                        let res = guarded(|| b.var(VarLabel::new(want_label as u64), pol2));
                        s.check(res, want, &Op::Materialise(want));
                    }
                    s.recheck_pool();
                    // binary / ternary operations mixing old functions and the new variable
                    for &i in perm.iter() {
                        let x = tt::extend(i as TT, cfg.n, n2);
                        let px = s.f[i];
                        for (name, res, want) in [
                            ("and", guarded(|| b.and(px, ptr)), x & xl),
                            ("or", guarded(|| b.or(ptr, px)), x | xl),
                            ("xor", guarded(|| b.xor(px, ptr)), x ^ xl),
                            ("iff", guarded(|| b.iff(ptr, px)), tt::iff(x, xl, n2)),
                        ] {
                            let op = Op::Materialise(want);
                            let _ = name;
                            if let Some(r) = s.check(res, want, &op) {
                                // conditioning / quantifying the new variable away again
                                for val in [true, false] {
                                    let w = tt::cofactor(want, newv, val, n2);
                                    let rr = guarded(|| b.condition(r, VarLabel::new(want_label as u64), val));
                                    s.check(rr, w, &Op::Cond(want, newv, val));
                                }
                                let rr = guarded(|| b.exists(r, VarLabel::new(want_label as u64)));
                                s.check(rr, tt::exists(want, newv, n2), &Op::Exists(want, newv));
                                // ... and substituted by an old function (compose asks the builder for the
                                // variable's literal internally)
                                for &j in perm.iter().step_by(29) {
                                    let y = tt::extend(j as TT, cfg.n, n2);
                                    let py = s.f[j];
                                    let rr = guarded(|| b.compose(r, VarLabel::new(want_label as u64), py));
                                    s.check(rr, tt::compose_def(want, newv, y, n2), &Op::Compose(want, newv, y));
                                }
                                // second level: the result (which mentions the new variable below the old
                                // last level) combined again with old functions - every old literal and a
                                // slice of the others (anything the builder remembered about "the last
                                // level" or "the number of variables" before the growth shows here)
                                if !crate::core::disabled("grown2") {
                                    let mut js: Vec<usize> = perm.iter().cloned().step_by(13).collect();
                                    for v in 0..cfg.n {
                                        for l in [tt::var(v, cfg.n) as usize, tt::not(tt::var(v, cfg.n), cfg.n) as usize] {
                                            if perm.contains(&l) {
                                                js.push(l);
                                            }
                                        }
                                    }
                                    for j in js {
                                        let y = tt::extend(j as TT, cfg.n, n2);
                                        let py = s.f[j];
                                        let r1 = guarded(|| b.and(r, py));
                                        s.check(r1, want & y, &Op::And(want, y));
                                        let r2 = guarded(|| b.or(py, r));
                                        s.check(r2, want | y, &Op::Or(y, want));
                                        let r3 = guarded(|| b.xor(r, py));
                                        s.check(r3, want ^ y, &Op::Xor(want, y));
                                    }
                                }
                            }
                        }
                        // ite(newvar, f, g) for a slice of g
                        for &j in perm.iter().step_by(17) {
                            let y = tt::extend(j as TT, cfg.n, n2);
                            let py = s.f[j];
                            let res = guarded(|| b.ite(ptr, px, py));
                            s.check(res, tt::ite(xl, x, y, n2), &Op::Ite(xl, x, y));
                            let res = guarded(|| b.ite(px, ptr, py));
                            s.check(res, tt::ite(x, xl, y, n2), &Op::Ite(x, xl, y));
                        }
                        // compose an old variable by the new literal
                        for v in 0..cfg.n {
                            let res = guarded(|| b.compose(px, s.lbl(v), ptr));
                            s.check(res, tt::compose_def(x, v, xl, n2), &Op::Compose(x, v, xl));
                        }
                        if s.stop {
                            break;
                        }
                    }
                }
            }
        }
        s.recheck_pool();
    }
    let (cap, len, _hits) = b.verif_table_stats();
    let mut rep = s.rep;
    rep.traces = 1;
    rep.states = s.new_funcs;
    rep.evaluations += rep.transitions;
    rep.add_extra("complemented_roots_seen", s.compl_roots);
    rep.add_extra("unique_table_final_capacity_max", cap as u64);
    rep.add_extra("unique_table_nodes", len as u64);
    if cfg.table_cap != 0 {
        rep.add_extra("table_growths", (cap as f64 / cfg.table_cap as f64).log2().round() as u64);
    }
    (rep, s.digests)
}

// ---------------------------------------------------------------------------------------------
// R1: all short histories over n = 2, each in a fresh builder

#[derive(Clone, Debug, PartialEq)]
enum A1 {
    Bin(u8, usize, usize), // 0 and 1 or 2 xor 3 iff
    Ite(usize, usize, usize),
    Neg(usize),
    Cond(usize, usize, bool),
    Exists(usize, usize),
    Compose(usize, usize, usize),
    CondModel(usize, usize),
    NewVar(bool),
}

fn r1_actions(pool: usize, n: usize, reduced: bool) -> Vec<A1> {
    let mut v = Vec::new();
    for i in 0..pool {
        for j in 0..pool {
            for o in 0..4 {
                v.push(A1::Bin(o, i, j));
            }
        }
    }
    for i in 0..pool {
        for j in 0..pool {
            for k in 0..pool {
                v.push(A1::Ite(i, j, k));
            }
        }
    }
    for i in 0..pool {
        v.push(A1::Neg(i));
        for x in 0..n {
            v.push(A1::Cond(i, x, true));
            v.push(A1::Cond(i, x, false));
            v.push(A1::Exists(i, x));
        }
    }
    if !reduced {
        for i in 0..pool {
            for x in 0..n {
                for j in 0..pool {
                    v.push(A1::Compose(i, x, j));
                }
            }
            for code in 0..3usize.pow(n as u32) {
                v.push(A1::CondModel(i, code));
            }
        }
        v.push(A1::NewVar(true));
        v.push(A1::NewVar(false));
    }
    v
}

/// run one history in a fresh builder; returns the first violation (property, key, text)
fn r1_run<'a, T: IteTable<'a, BddPtr<'a>> + Default>(
    b: &'a RobddBuilder<'a, T>,
    cfg: &Cfg,
    hist: &[A1],
    transitions: &mut u64,
) -> Option<(String, String, String)> {
    let mut n = cfg.n;
    let mut level = vec![0; n];
    for (pos, &v) in cfg.order.iter().enumerate() {
        level[v] = pos;
    }
    let mut pool: Vec<(BddPtr<'a>, TT)> = vec![(BddPtr::PtrTrue, tt::mask(n)), (BddPtr::PtrFalse, 0)];
    for v in 0..n {
        pool.push((b.var(VarLabel::new(v as u64), true), tt::var(v, n)));
        pool.push((b.var(VarLabel::new(v as u64), false), tt::not(tt::var(v, n), n)));
    }
    for (step, a) in hist.iter().enumerate() {
        *transitions += 1;
        let arg = |i: usize| pool[i.min(pool.len() - 1)];
        let (res, want): (Result<BddPtr<'a>, String>, TT) = match a {
            A1::Bin(o, i, j) => {
                let ((p, x), (q, y)) = (arg(*i), arg(*j));
                match o {
                    0 => (guarded(|| b.and(p, q)), x & y),
                    1 => (guarded(|| b.or(p, q)), x | y),
                    2 => (guarded(|| b.xor(p, q)), x ^ y),
                    _ => (guarded(|| b.iff(p, q)), tt::iff(x, y, n)),
                }
            }
            A1::Ite(i, j, k) => {
                let ((p, x), (q, y), (r, z)) = (arg(*i), arg(*j), arg(*k));
                (guarded(|| b.ite(p, q, r)), tt::ite(x, y, z, n))
            }
            A1::Neg(i) => {
                let (p, x) = arg(*i);
                (guarded(|| b.negate(p)), tt::not(x, n))
            }
            A1::Cond(i, v, val) => {
                let (p, x) = arg(*i);
                (guarded(|| b.condition(p, VarLabel::new(*v as u64), *val)), tt::cofactor(x, *v, *val, n))
            }
            A1::Exists(i, v) => {
                let (p, x) = arg(*i);
                (guarded(|| b.exists(p, VarLabel::new(*v as u64))), tt::exists(x, *v, n))
            }
            A1::Compose(i, v, j) => {
                let ((p, x), (q, y)) = (arg(*i), arg(*j));
                (guarded(|| b.compose(p, VarLabel::new(*v as u64), q)), tt::compose_def(x, *v, y, n))
            }
            A1::CondModel(i, code) => {
                let (p, x) = arg(*i);
                let mut asg = Vec::new();
                let mut c = *code;
                let mut want = x;
                for v in 0..n {
                    let e = match c % 3 {
                        0 => None,
                        1 => Some(true),
                        _ => Some(false),
                    };
                    if let Some(val) = e {
                        want = tt::cofactor(want, v, val, n);
                    }
                    asg.push(e);
                    c /= 3;
                }
                let m = crate::props::wparams::build_model(&asg, *code);
                (guarded(|| b.condition_model(p, &m)), want)
            }
            A1::NewVar(pol) => {
                let r = guarded(|| b.new_var(*pol));
                match r {
                    Err(e) => (Err(e), 0),
                    Ok((lbl, ptr)) => {
                        if lbl.value_usize() != n {
                            return Some(("C01".into(), "new-var-label".into(), format!("step {}: new_var returned label {}", step, lbl.value())));
                        }
                        n += 1;
                        level.push(n - 1);
                        for e in pool.iter_mut() {
                            e.1 = tt::extend(e.1, n - 1, n);
                        }
                        (Ok(ptr), tt::lit(n - 1, *pol, n))
                    }
                }
            }
        };
        let r = match res {
            Ok(r) => r,
            Err(p) => return Some(("C01".into(), "panic".into(), format!("step {} {:?} panicked: {}", step, a, p))),
        };
        let got = bdd_tt(r, n);
        if got != want {
            return Some(("C01".into(), "wrong-function".into(), format!("step {} {:?} returned {:#x}, definition gives {:#x}", step, a, got, want)));
        }
        let lv = level.clone();
        if let Some(d) = bdd_shape_defect(r, &|v| lv[v]) {
            return Some(("C02".into(), "ill-shaped".into(), format!("step {} {:?}: {}", step, a, d)));
        }
        // every pool member keeps its meaning and the pointer/function correspondence holds
        for (q, y) in pool.iter() {
            let gy = bdd_tt(*q, n);
            if gy != *y {
                return Some(("C01".into(), "earlier-result-changed".into(), format!("after step {} {:?} an earlier diagram of {:#x} evaluates to {:#x}", step, a, y, gy)));
            }
            let same_ptr = b.eq(*q, r);
            if same_ptr != (*y == got) {
                return Some(("C02".into(), "eq-disagrees-with-function".into(), format!("after step {} {:?}: eq = {} but functions {:#x} / {:#x}", step, a, same_ptr, y, got)));
            }
        }
        pool.push((r, got));
    }
    None
}

fn a1_json(h: &[A1]) -> Value {
    json!(h.iter().map(|a| format!("{:?}", a)).collect::<Vec<_>>())
}

fn r1_explore(cfg: &Cfg, depth: usize, reduced_last: bool, ctx: &Ctx) -> Report {
    let mut rep = Report::default();
    rep.exhaustive = true;
    let n = cfg.n;
    let base_pool = 2 + 2 * n;
    // histories: first action over the base pool, second over base pool + 1, ...
    fn rec(
        cfg: &Cfg,
        hist: &mut Vec<A1>,
        depth: usize,
        base_pool: usize,
        reduced_last: bool,
        rep: &mut Report,
        ctx: &Ctx,
    ) {
        if hist.len() == depth {
            let mut tr = 0u64;
            let v = with_bdd_builder!(cfg, |b| r1_run(&b, cfg, hist, &mut tr));
            rep.transitions += tr;
            rep.traces += 1;
            if let Some((prop, key, what)) = v {
                rep.violation(
                    format!("{}:{}", prop, key),
                    format!("[{}] {}", cfg.json(), what),
                    json!({"kind": "bdd_r1", "cfg": cfg.json(), "history": a1_json(hist)}),
                );
            }
            return;
        }
        if rep.n_violations > 16 || (ctx.over_time() || ctx.over_mem()) {
            if ctx.over_time() || ctx.over_mem() {
                rep.cap("wall-clock or memory cap inside R1");
            }
            return;
        }
        let last = hist.len() + 1 == depth;
        let n_now = cfg.n + hist.iter().filter(|a| matches!(a, A1::NewVar(_))).count();
        let acts = r1_actions(base_pool + hist.len(), n_now, reduced_last && last && depth >= 3);
        for a in acts {
            hist.push(a);
            rec(cfg, hist, depth, base_pool, reduced_last, rep, ctx);
            hist.pop();
        }
    }
    for d in 1..=depth {
        rec(cfg, &mut Vec::new(), d, base_pool, reduced_last, &mut rep, ctx);
    }
    rep.states = rep.traces;
    rep.evaluations = rep.transitions;
    rep.max_depth = depth as u64;
    rep
}

// ---------------------------------------------------------------------------------------------
// drivers

fn run_sweep_cfg(cfg: &Cfg, expected: Option<&[(u64, u64)]>, ctx: &Ctx) -> (Report, Vec<(u64, u64)>) {
    with_bdd_builder!(cfg, |b| sweep(&b, cfg, expected, ctx))
}

/// group = one variable order: the cache-everything builder first, then each lossy configuration
/// in lock step against its digests
fn run_order_group(order: &[usize], n: usize, ctx: &Ctx, issue: usize, full_ite_all: bool) -> Report {
    let ite_pool = ctx.tier.pick(24, 40);
    let base = Cfg {
        n,
        order: order.to_vec(),
        cache: CacheKind::All,
        table_cap: 2,
        issue,
        ite_pool,
        full_ite: full_ite_all,
        pool: 0,
        labels: vec![],
    };
    let (mut rep, digests) = run_sweep_cfg(&base, None, ctx);
    let mut lossy: Vec<Cfg> = Vec::new();
    for cache in [CacheKind::Lru(Some(0)), CacheKind::Lru(Some(2))] {
        let mut c = base.clone();
        c.cache = cache;
        lossy.push(c);
    }
    if ctx.tier == Tier::Thorough {
        for p in [1usize, 4] {
            let mut c = base.clone();
            c.cache = CacheKind::Lru(Some(p));
            lossy.push(c);
        }
    }
    for c in lossy {
        let (r, _) = run_sweep_cfg(&c, Some(&digests), ctx);
        rep.add_extra("configurations", 1);
        rep.merge(r);
    }
    // default-capacity tables are 3 MB each and the default lossy cache has 2^16 slots: these
    // configurations run the pool-sized ite sweep and are compared with a cache-everything run
    // of the same (shorter) history
    let mut small = base.clone();
    small.full_ite = false;
    let small_digests = if base.full_ite {
        let (r, d) = run_sweep_cfg(&small, None, ctx);
        rep.add_extra("configurations", 1);
        rep.merge(r);
        d
    } else {
        digests
    };
    for (cache, cap) in [(CacheKind::Lru(None), 0usize), (CacheKind::All, 0)] {
        let mut c = small.clone();
        c.cache = cache;
        c.table_cap = cap;
        let (r, _) = run_sweep_cfg(&c, Some(&small_digests), ctx);
        rep.add_extra("configurations", 1);
        rep.merge(r);
    }
    rep.add_extra("configurations", 1);
    rep
}

pub fn run_all(ctx: &Ctx) -> Report {
    let mut rep = Report::new(
        "BDD-builder histories on the real code against truth tables: R2 = in one builder per configuration (order x cache kind/capacity x table capacity) all 256 functions of 3 variables are built and every ordered pair is combined by and/or/xor/iff, every function conditioned / quantified / conditioned on all 27 partial models / composed with every function on every variable, ite over all triples of a pool (all 256^3 in thorough), lists, and the same again after new_var; R1 = every history of <= d operations over n = 2 in a fresh builder; a case is distinct if it is a different (configuration, operation, arguments) triple and non-trivial if the result is not a constant",
    );
    if std::env::var("VERIF_ONLY").map(|v| v == "midscale").unwrap_or(false) {
        // development aid (never set by the registered commands): the mid-scale regime alone
        rep.merge(crate::props::bddmid::run(ctx));
        return rep;
    }
    // R2, n = 3
    let orders = permutations(3);
    let items: Vec<(usize, Vec<usize>)> = orders.into_iter().enumerate().collect();
    let full = ctx.tier == Tier::Thorough;
    let r2 = par_run(ctx, &items, |i, (_, o)| run_order_group(o, 3, ctx, i + ctx.seed as usize, full));
    rep.bound("R2", json!({"variables": 3, "orders": 6, "caches": ["all", "lru-2^0", "lru-2^2", "lru-default", if full {"lru-2^1, lru-2^4"} else {"-"}], "table_capacities": [2, "default"], "ite_triples": if full {"256^3 (hooked-capacity configurations)"} else {"24^3 pool"}, "issue_orders": "lexicographic / reverse / bit-reversed, rotated by seed"}));
    let growths = r2.extra.get("table_growths").and_then(|v| v.as_u64()).unwrap_or(0);
    let compl = r2.extra.get("complemented_roots_seen").and_then(|v| v.as_u64()).unwrap_or(0);
    rep.merge(r2);
    // R2w, n = 3 in wide managers: the three table variables carry sparse, large labels (on both
    // sides of machine-word boundaries); all functions, all ordered pairs, as R2, in lock step
    // with one lossy cache
    {
        let maps: Vec<Vec<usize>> = if full { vec![vec![0, 64, 1], vec![63, 64, 127], vec![5, 69, 133], vec![128, 0, 64]] } else { vec![vec![0, 64, 1], vec![63, 64, 127]] };
        let mut itemsw: Vec<(usize, Vec<usize>, Vec<usize>)> = Vec::new();
        for m in maps.iter() {
            for (i, o) in permutations(3).into_iter().enumerate() {
                itemsw.push((i, o, m.clone()));
            }
        }
        let rw = par_run(ctx, &itemsw, |_, (i, o, m)| {
            let base = Cfg { n: 3, order: o.clone(), cache: CacheKind::All, table_cap: 2, issue: i + ctx.seed as usize, ite_pool: 16, full_ite: false, pool: 0, labels: m.clone() };
            let (mut r, dig) = run_sweep_cfg(&base, None, ctx);
            r.add_extra("configurations", 1);
            let mut c = base.clone();
            c.cache = CacheKind::Lru(Some(0));
            let (x, _) = run_sweep_cfg(&c, Some(&dig), ctx);
            r.add_extra("configurations", 1);
            r.merge(x);
            r
        });
        rep.bound("R2w", json!({"variables": 3, "label_maps": maps, "manager_widths": maps.iter().map(|m| m.iter().max().unwrap() + 1).collect::<Vec<_>>(), "orders": 6, "caches": ["all", "lru-2^0"]}));
        rep.add_extra("R2w_operations", rw.transitions);
        rep.merge(rw);
    }
    // R4, n = 4: operand pool (cubes, clauses, every function of <= 2 variables), every ordered
    // pair, under all 24 orders, cache-everything and two lossy capacities in lock step
    let items4: Vec<(usize, Vec<usize>)> = permutations(4).into_iter().enumerate().collect();
    let r4 = par_run(ctx, &items4, |i, (_, o)| {
        let base = Cfg { n: 4, order: o.clone(), cache: CacheKind::All, table_cap: 2, issue: i + ctx.seed as usize, ite_pool: ctx.tier.pick(20, 48), full_ite: false, pool: 1, labels: vec![] };
        let (mut r, dig) = run_sweep_cfg(&base, None, ctx);
        r.add_extra("configurations", 1);
        for cache in [CacheKind::Lru(Some(0)), CacheKind::Lru(Some(3))] {
            let mut c = base.clone();
            c.cache = cache;
            let (x, _) = run_sweep_cfg(&c, Some(&dig), ctx);
            r.add_extra("configurations", 1);
            r.merge(x);
        }
        r
    });
    rep.bound("R4", json!({"variables": 4, "orders": 24, "operands": "all cubes, all clauses, every function of <= 2 variables (about 230)", "pairs": "all ordered pairs x and/or/xor/iff; unary ops, compose, ite pool, lists, new_var", "caches": ["all", "lru-2^0", "lru-2^3"]}));
    rep.add_extra("R4_operations", r4.transitions);
    rep.merge(r4);
    // R5 (thorough), n = 5: the same operand-pool regime under the identity, the reversed and
    // every 11th other order
    if ctx.tier == Tier::Thorough {
        let mut o5: Vec<Vec<usize>> = vec![vec![0, 1, 2, 3, 4], vec![4, 3, 2, 1, 0]];
        o5.extend(permutations(5).into_iter().skip(5).step_by(11));
        let items5: Vec<(usize, Vec<usize>)> = o5.into_iter().enumerate().collect();
        let r5 = par_run(ctx, &items5, |i, (_, o)| {
            let base = Cfg { n: 5, order: o.clone(), cache: CacheKind::All, table_cap: 2, issue: i + ctx.seed as usize, ite_pool: 24, full_ite: false, pool: 1, labels: vec![] };
            let (mut r, dig) = run_sweep_cfg(&base, None, ctx);
            r.add_extra("configurations", 1);
            let mut c = base.clone();
            c.cache = CacheKind::Lru(Some(2));
            let (x, _) = run_sweep_cfg(&c, Some(&dig), ctx);
            r.add_extra("configurations", 1);
            r.merge(x);
            r
        });
        rep.bound("R5", json!({"variables": 5, "orders": items5.len(), "operands": "all cubes, all clauses, every function of <= 2 variables (about 640)", "caches": ["all", "lru-2^2"]}));
        rep.add_extra("R5_operations", r5.transitions);
        rep.merge(r5);
    }
    // Rmid: rule-defined operand families over 8 (10) variables, see bddmid.rs
    {
        let rm = crate::props::bddmid::run(ctx);
        rep.add_extra("Rmid_operations", rm.transitions);
        rep.merge(rm);
    }
    rep.floor("R2: unique-table growths", growths, 1);
    rep.floor("R2: complemented roots seen", compl, 1);
    // R1, n = 2
    let mut r1cfgs: Vec<Cfg> = Vec::new();
    for o in permutations(2) {
        for (cache, cap) in [(CacheKind::All, 2usize), (CacheKind::Lru(Some(0)), 2), (CacheKind::Lru(Some(1)), 2)] {
            r1cfgs.push(Cfg { n: 2, order: o.clone(), cache, table_cap: cap, issue: 0, ite_pool: 0, full_ite: false, pool: 0, labels: vec![] });
        }
    }
    let depth = ctx.tier.pick(2, 3);
    // split by first action to use all cores: each item = (cfg, depth)
    let r1 = par_run(ctx, &r1cfgs, |_, c| r1_explore(c, depth, true, ctx));
    rep.bound("R1", json!({"variables": 2, "orders": 2, "caches": ["all", "lru-2^0", "lru-2^1"], "depth": depth, "alphabet": "and/or/xor/iff/ite/negate/condition/exists/compose/condition_model/new_var over the growing pool (last step of depth-3 histories: without compose/condition_model/new_var)"}));
    rep.add_extra("R1_histories", r1.traces);
    rep.merge(r1);
    rep.distinct_nontrivial = rep.transitions;
    rep.sample(json!({"cfg": {"order": [2, 0, 1], "cache": "lru-2^0", "table_cap": 2}, "ops": ["Ite(0x96, 0xe8, 0x17)", "Compose(0xca, 1, 0x3c)", "CondModel(0xd8, 5)"]}));
    rep.sample(json!({"R1_history": ["Bin(2, 2, 5)", "Ite(6, 3, 4)"], "cfg": {"order": [1, 0], "cache": "all"}}));
    rep.assumptions.push("truth-table oracle over <= 5 variables; diagrams read through the public fields var/low/high and the complement tag".into());
    rep.assumptions.push("builder-level histories run on whatever table layout the allocator produces (all layouts are covered at table level in C02a / C16a)".into());
    rep
}

/// run the shared engine and keep the violations that contradict `prop`
pub fn run_for(ctx: &Ctx, prop: &str) -> Report {
    let mut rep = run_all(ctx);
    filter_for(&mut rep, prop);
    rep
}

pub fn filter_for(rep: &mut Report, prop: &str) {
    let prefix = format!("{}:", prop);
    let before = rep.violations.len();
    let other: Vec<String> = rep
        .violations
        .iter()
        .filter(|v| !v.key.starts_with(&prefix))
        .map(|v| v.key.clone())
        .collect();
    rep.violations.retain(|v| v.key.starts_with(&prefix));
    if before != rep.violations.len() {
        rep.set_extra("violations_attributed_to_other_properties", json!(other));
    }
    rep.n_violations = rep.violations.len() as u64;
}

pub fn replay_for(ctx: &Ctx, prop: &str, case: &Value) -> Report {
    let mut rep = Report::default();
    match case["kind"].as_str() {
        Some("bdd_sweep") => {
            if let Some(cfg) = Cfg::from_json(&case["cfg"]) {
                // re-run the configuration's sweep (deterministic up to table layout); the lock-step
                // comparison needs the cache-everything run first
                let mut base = cfg.clone();
                base.cache = CacheKind::All;
                base.table_cap = 2;
                let (_, dig) = run_sweep_cfg(&base, None, ctx);
                let (r, _) = run_sweep_cfg(&cfg, if base.full_ite == cfg.full_ite { Some(&dig) } else { None }, ctx);
                rep.merge(r);
            }
        }
        Some("bdd_mid") => rep.merge(crate::props::bddmid::replay(ctx, case)),
        Some("bdd_r1") => {
            if let Some(cfg) = Cfg::from_json(&case["cfg"]) {
                let hist: Vec<A1> = case["history"]
                    .as_array()
                    .map(|a| a.iter().filter_map(|s| parse_a1(s.as_str().unwrap_or(""))).collect())
                    .unwrap_or_default();
                let mut tr = 0;
                let v = with_bdd_builder!(cfg, |b| r1_run(&b, &cfg, &hist, &mut tr));
                if let Some((p, k, w)) = v {
                    rep.violation(format!("{}:{}", p, k), w, case.clone());
                }
            }
        }
        _ => {}
    }
    filter_for(&mut rep, prop);
    rep
}

fn parse_a1(s: &str) -> Option<A1> {
    let (name, rest) = s.split_once('(')?;
    let args: Vec<&str> = rest.trim_end_matches(')').split(',').map(|x| x.trim()).collect();
    let u = |i: usize| -> Option<usize> { args.get(i)?.parse().ok() };
    let bo = |i: usize| -> Option<bool> { args.get(i)?.parse().ok() };
    Some(match name {
        "Bin" => A1::Bin(u(0)? as u8, u(1)?, u(2)?),
        "Ite" => A1::Ite(u(0)?, u(1)?, u(2)?),
        "Neg" => A1::Neg(u(0)?),
        "Cond" => A1::Cond(u(0)?, u(1)?, bo(2)?),
        "Exists" => A1::Exists(u(0)?, u(1)?),
        "Compose" => A1::Compose(u(0)?, u(1)?, u(2)?),
        "CondModel" => A1::CondModel(u(0)?, u(1)?),
        "NewVar" => A1::NewVar(bo(0)?),
        _ => return None,
    })
}
