//! shared BDD history engine (C01 / C02b / C16b) – filled in below
use crate::core::*;
use serde_json::Value;

pub fn run_for(_ctx: &Ctx, _prop: &str) -> Report {
    let mut r = Report::default();
    r.exhaustive = true;
    r
}
pub fn replay_for(_ctx: &Ctx, _prop: &str, _case: &Value) -> Report {
    Report::default()
}
