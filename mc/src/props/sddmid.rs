//! Mid-scale and wide regimes of the SDD history engine (tags C03 / C04 / C11 / C16 as in `sddsweep`).
//!
//! (A) 8 variables (10 in the thorough tier) on right-linear, left-linear, balanced and scrambled vtrees, with
//!     compression on and off and on the hash-identified builder: the rule-defined operand families of
//!     `bigtt::families`, every ordered pair of the core operands under and / or / xor / iff, negation,
//!     conditioning and quantification on every variable, composition, ite over a pool and the aliased
//!     argument shapes. Every result is read back into a 2^n-bit truth table; with compression on every
//!     reachable node is checked for the vtree normal form and the function -> pointer map must stay
//!     injective; a stride of operations is repeated in a cold builder and compared structurally.
//! (B) the same eight table variables placed at labels on both sides of the 32 / 64 boundaries inside vtrees of
//!     70 (thorough: also 130) leaves - right-linear (depth 69), left-linear and balanced: vtree positions,
//!     depths and labels beyond a machine word.

use crate::bigtt::{self, Alg, Big, BigAlg};
use crate::core::*;
use crate::enumerate::*;
use crate::walk::*;
use rsdd::builder::sdd::SddBuilder;
use rsdd::repr::{DDNNFPtr, SddPtr, VarLabel};
use serde_json::{json, Value};
use std::collections::{HashMap, HashSet};

#[derive(Clone, Debug)]
pub struct MCfg {
    pub n: usize,
    /// vtree over the labels 0..width
    pub vtree: VT,
    /// label of table variable i
    pub labels: Vec<usize>,
    pub compress: bool,
    pub semantic: bool,
    pub table_cap: usize,
    pub issue: usize,
}

impl MCfg {
    pub fn json(&self) -> Value {
        json!({"n": self.n, "vtree": self.vtree.show(), "labels": self.labels, "compress": self.compress, "semantic": self.semantic, "table_cap": self.table_cap, "issue": self.issue})
    }
    pub fn from_json(v: &Value) -> Option<MCfg> {
        Some(MCfg {
            n: v["n"].as_u64()? as usize,
            vtree: VT::parse(v["vtree"].as_str()?)?,
            labels: v["labels"].as_array()?.iter().filter_map(|x| x.as_u64()).map(|x| x as usize).collect(),
            compress: v["compress"].as_bool()?,
            semantic: v["semantic"].as_bool()?,
            table_cap: v["table_cap"].as_u64()? as usize,
            issue: v["issue"].as_u64()? as usize,
        })
    }
    /// description for messages (the full vtree is in the replay file)
    pub fn short(&self) -> String {
        let vt = self.vtree.show();
        let vt = if vt.len() > 60 { format!("{} ... {} ({} leaves)", &vt[..24], &vt[vt.len() - 24..], self.vtree.leaves().len()) } else { vt };
        format!("vtree {}, table-variable labels {:?}, {}", vt, self.labels, if self.semantic { "hash-identified builder" } else if self.compress { "compression on" } else { "compression off" })
    }
    fn tag(&self) -> &'static str {
        if self.semantic { "C11" } else { "C03" }
    }
    fn wide(&self) -> bool {
        self.labels.iter().enumerate().any(|(i, &l)| i != l) || self.vtree.leaves().len() != self.n
    }
}

struct SddAlg<'a, B: SddBuilder<'a>> {
    b: &'a B,
    lab: Vec<usize>,
    semantic: bool,
}

impl<'a, B: SddBuilder<'a>> Alg for SddAlg<'a, B> {
    type F = SddPtr<'a>;
    fn n(&self) -> usize {
        self.lab.len()
    }
    fn konst(&self, v: bool) -> SddPtr<'a> {
        if v { SddPtr::PtrTrue } else { SddPtr::PtrFalse }
    }
    fn lit(&self, v: usize, pol: bool) -> SddPtr<'a> {
        self.b.var(VarLabel::new(self.lab[v] as u64), pol)
    }
    fn not(&self, f: &SddPtr<'a>) -> SddPtr<'a> {
        self.b.negate(*f)
    }
    fn and(&self, f: &SddPtr<'a>, g: &SddPtr<'a>) -> SddPtr<'a> {
        self.b.and(*f, *g)
    }
    fn or(&self, f: &SddPtr<'a>, g: &SddPtr<'a>) -> SddPtr<'a> {
        self.b.or(*f, *g)
    }
    fn xor(&self, f: &SddPtr<'a>, g: &SddPtr<'a>) -> SddPtr<'a> {
        if self.semantic {
            // the hash-identified builder implements and / or / negate only
            let a = self.b.and(*f, g.neg());
            let c = self.b.and(f.neg(), *g);
            self.b.or(a, c)
        } else {
            self.b.xor(*f, *g)
        }
    }
    fn ite(&self, f: &SddPtr<'a>, g: &SddPtr<'a>, h: &SddPtr<'a>) -> SddPtr<'a> {
        if self.semantic {
            let a = self.b.and(*f, *g);
            let c = self.b.and(f.neg(), *h);
            self.b.or(a, c)
        } else {
            self.b.ite(*f, *g, *h)
        }
    }
}

struct S<'a, B: SddBuilder<'a>> {
    b: &'a B,
    cfg: MCfg,
    n: usize,
    shape: Option<VtShape>,
    canon: HashMap<Big, (u8, usize, bool)>,
    sem_rep: HashMap<Big, SddPtr<'a>>,
    checked: HashSet<usize>,
    kept: Vec<(SddPtr<'a>, Big, String)>,
    rep: Report,
    opno: u64,
    nodes_walked: u64,
    max_elems: usize,
}

impl<'a, B: SddBuilder<'a>> S<'a, B> {
    fn viol(&mut self, prop: &str, key: &str, what: String, op: &str) {
        let case = json!({"kind": "sdd_mid", "cfg": self.cfg.json(), "op_number": self.opno, "op": op});
        self.rep.violation(format!("{}:{}", prop, key), format!("[mid-scale / wide SDD, {}] {}: {}", self.cfg.short(), op, what), case);
    }
    fn lbl(&self, v: usize) -> VarLabel {
        VarLabel::new(self.cfg.labels[v] as u64)
    }
    fn read(&self, p: SddPtr<'a>) -> Result<Big, String> {
        let lab = &self.cfg.labels;
        bigtt::sdd_big(p, self.n, &|l| lab.iter().position(|&x| x == l))
    }
    /// vtree normal form of every node reachable from p (identity labelling only)
    fn walk_nf(&mut self, p: SddPtr<'a>) -> Option<String> {
        let n = self.n;
        let id = |l: usize| Some(l);
        match p {
            SddPtr::PtrTrue | SddPtr::PtrFalse | SddPtr::Var(_, _) => None,
            SddPtr::BDD(bn) | SddPtr::ComplBDD(bn) => {
                let addr = bn as *const _ as usize;
                if !self.checked.insert(addr) {
                    return None;
                }
                self.nodes_walked += 1;
                let shape = self.shape.as_ref().unwrap();
                let idx = bn.index().value();
                if idx >= shape.nodes.len() || shape.is_leaf[idx] {
                    return Some(format!("binary node normalised for vtree position {} which is not an internal node", idx));
                }
                let lbl = bn.label().value_usize();
                if (shape.left_mask[idx] >> lbl) & 1 == 0 {
                    return Some(format!("binary node on x{} at vtree position {} whose left side is {:#b}", lbl, idx, shape.left_mask[idx]));
                }
                let rm = shape.right_mask[idx];
                let lo = bigtt::sdd_big(bn.low(), n, &id).ok()?;
                let hi = bigtt::sdd_big(bn.high(), n, &id).ok()?;
                for (nm, t) in [("low", &lo), ("high", &hi)] {
                    let s = t.support_mask();
                    if s & !rm != 0 {
                        return Some(format!("{} sub of a binary node at vtree position {} mentions variables {:#b} outside the right side {:#b}", nm, idx, s, rm));
                    }
                }
                if lo == hi {
                    return Some(format!("binary node at position {} with equal subs", idx));
                }
                if (lo.is_false() && hi.is_true()) || (hi.is_false() && lo.is_true()) {
                    return Some(format!("binary node at position {} is a literal in disguise (not trimmed)", idx));
                }
                self.walk_nf(bn.low()).or_else(|| self.walk_nf(bn.high()))
            }
            SddPtr::Reg(or) | SddPtr::Compl(or) => {
                let addr = or as *const _ as usize;
                if !self.checked.insert(addr) {
                    return None;
                }
                self.nodes_walked += 1;
                let idx = or.index().value();
                let (lm, rm) = {
                    let shape = self.shape.as_ref().unwrap();
                    if idx >= shape.nodes.len() || shape.is_leaf[idx] {
                        return Some(format!("decision node normalised for vtree position {} which is not an internal node", idx));
                    }
                    (shape.left_mask[idx], shape.right_mask[idx])
                };
                let mut els: Vec<(SddPtr<'a>, SddPtr<'a>, Big, Big)> = Vec::new();
                for a in or.iter() {
                    els.push((a.prime, a.sub, bigtt::sdd_big(a.prime, n, &id).ok()?, bigtt::sdd_big(a.sub, n, &id).ok()?));
                }
                self.max_elems = self.max_elems.max(els.len());
                if els.is_empty() {
                    return Some(format!("decision node at position {} without elements", idx));
                }
                let mut union = Big::konst(n, false);
                for (i, e) in els.iter().enumerate() {
                    if e.2.is_false() {
                        return Some(format!("decision node at position {}: prime {} is false", idx, i));
                    }
                    if e.2.support_mask() & !lm != 0 {
                        return Some(format!("decision node at position {}: prime {} mentions variables {:#b} outside the left side {:#b}", idx, i, e.2.support_mask(), lm));
                    }
                    if e.3.support_mask() & !rm != 0 {
                        return Some(format!("decision node at position {}: sub {} mentions variables {:#b} outside the right side {:#b}", idx, i, e.3.support_mask(), rm));
                    }
                    for (j, e2) in els.iter().enumerate().skip(i + 1) {
                        if !e.2.and(&e2.2).is_false() {
                            return Some(format!("decision node at position {}: primes {} and {} overlap", idx, i, j));
                        }
                        if e.3 == e2.3 {
                            return Some(format!("decision node at position {}: subs {} and {} denote the same function (not compressed)", idx, i, j));
                        }
                    }
                    union = union.or(&e.2);
                }
                if !union.is_true() {
                    return Some(format!("decision node at position {}: primes are not exhaustive", idx));
                }
                if els.len() == 1 {
                    return Some(format!("decision node at position {} with the single element (true, s) (not trimmed)", idx));
                }
                if els.len() == 2 && ((els[0].3.is_false() && els[1].3.is_true()) || (els[1].3.is_false() && els[0].3.is_true())) {
                    return Some(format!("decision node at position {} of the form (p, true), (not p, false) (not trimmed)", idx));
                }
                for e in els.iter() {
                    if let Some(d) = self.walk_nf(e.0) {
                        return Some(d);
                    }
                    if let Some(d) = self.walk_nf(e.1) {
                        return Some(d);
                    }
                }
                None
            }
        }
    }
    fn check(&mut self, res: Result<SddPtr<'a>, String>, want: &Big, op: &dyn Fn() -> String) -> Option<SddPtr<'a>> {
        self.opno += 1;
        self.rep.transitions += 1;
        self.rep.evaluations += 1;
        let tag = self.cfg.tag();
        let p = match res {
            Ok(p) => p,
            Err(e) => {
                self.viol(tag, "panic", format!("panicked: {}", e), &op());
                return None;
            }
        };
        let got = match self.read(p) {
            Ok(g) => g,
            Err(e) => {
                self.viol(tag, "wrong-function", e, &op());
                return Some(p);
            }
        };
        if got != *want {
            let a = (0..1usize << self.n).find(|&a| got.eval(a) != want.eval(a)).unwrap_or(0);
            self.viol(tag, "wrong-function", format!("the result differs from the definition, e.g. on assignment {:#b} over the table variables (result {}, definition {})", a, got.eval(a), want.eval(a)), &op());
            return Some(p);
        }
        if self.cfg.semantic {
            // the hash-identified builder must never judge two equal functions different
            if let Some(&old) = self.sem_rep.get(want) {
                let b = self.b;
                self.rep.evaluations += 1;
                match guarded(|| b.eq(old, p)) {
                    Ok(true) => {}
                    Ok(false) => self.viol("C11", "eq-disagrees", "the builder's eq reports two diagrams of one function different".into(), &op()),
                    Err(e) => self.viol("C11", "panic", format!("eq panicked: {}", e), &op()),
                }
            } else {
                self.sem_rep.insert(want.clone(), p);
                self.rep.states += 1;
            }
        } else if self.cfg.compress {
            let id = sdd_id(p);
            match self.canon.get(want).cloned() {
                Some(k) if k != id => self.viol("C04", "two-pointers-one-function", "a second pointer for a function that already has one".into(), &op()),
                Some(_) => {}
                None => {
                    self.canon.insert(want.clone(), id);
                    self.rep.states += 1;
                }
            }
            if self.shape.is_some() {
                if let Some(d) = self.walk_nf(p) {
                    self.viol("C04", "not-normal-form", d, &op());
                }
            }
        }
        if self.opno % 11 == 0 && self.kept.len() < 20_000 {
            self.kept.push((p, want.clone(), op()));
        }
        Some(p)
    }
    fn recheck(&mut self) {
        let kept = std::mem::take(&mut self.kept);
        for (p, want, op) in kept.iter() {
            self.rep.evaluations += 1;
            match self.read(*p) {
                Ok(g) if g == *want => {}
                _ => {
                    let tag = self.cfg.tag();
                    self.viol(tag, "earlier-result-changed", "a diagram returned earlier no longer denotes its function".into(), op);
                    break;
                }
            }
        }
        self.kept = kept;
    }
}

/// the same binary operation in a cold builder in which only the two operands are rebuilt (their whole family
/// history is replayed, nothing else), as an address-free structure string
fn cold_binary(cfg: &MCfg, op: u8, i: usize, j: usize) -> Option<String> {
    fn go<'a, B: SddBuilder<'a>>(b: &'a B, cfg: &MCfg, op: u8, i: usize, j: usize) -> Option<String> {
        let fam = guarded(|| bigtt::families(&SddAlg { b, lab: cfg.labels.clone(), semantic: cfg.semantic })).ok()?;
        let (f, g) = (fam.get(i)?.2, fam.get(j)?.2);
        let r = guarded(|| match op {
            0 => b.and(f, g),
            1 => b.or(f, g),
            2 => b.xor(f, g),
            _ => b.iff(f, g),
        })
        .ok()?;
        Some(sdd_canon(r))
    }
    let c = super::sddsweep::SCfg { n: cfg.n, vtree: cfg.vtree.clone(), compress: cfg.compress, semantic: cfg.semantic, table_cap: cfg.table_cap, issue: 0, ite_pool: 0, pair_stride: 0, cold_stride: 0, pool: 0, hash: false, slice: (0, 1) };
    crate::with_sdd_builder!(c, |b| go(&b, cfg, op, i, j))
}

fn mid<'a, B: SddBuilder<'a>>(b: &'a B, cfg: &MCfg, ctx: &Ctx) -> Report {
    let n = cfg.n;
    let mut s = S { b, cfg: cfg.clone(), n, shape: if cfg.wide() { None } else { Some(VtShape::new(&cfg.vtree)) }, canon: HashMap::new(), sem_rep: HashMap::new(), checked: HashSet::new(), kept: Vec::new(), rep: Report::default(), opno: 0, nodes_walked: 0, max_elems: 0 };
    s.rep.exhaustive = true;
    let mut colds = 0u64;
    // wide vtrees, compression on: every ordered pair of literals of the table variables under and / or,
    // compared with a cold builder in which only the two literals exist
    if cfg.wide() && cfg.compress && !cfg.semantic {
        for a in 0..2 * n {
            for c in 0..2 * n {
                let (la, lc) = (s.lbl(a / 2), s.lbl(c / 2));
                let (pa, pc) = (a % 2 == 0, c % 2 == 0);
                let (x, y) = (Big::lit(n, a / 2, pa), Big::lit(n, c / 2, pc));
                for k in 0..2u8 {
                    let nm = format!("{}({}x{}, {}x{})", ["and", "or"][k as usize], if pa { "" } else { "!" }, a / 2, if pc { "" } else { "!" }, c / 2);
                    let want = if k == 0 { x.and(&y) } else { x.or(&y) };
                    let warm = s.check(guarded(|| { let (f, g) = (b.var(la, pa), b.var(lc, pc)); if k == 0 { b.and(f, g) } else { b.or(f, g) } }), &want, &|| nm.clone());
                    let scfg = super::sddsweep::SCfg { n: cfg.n, vtree: cfg.vtree.clone(), compress: true, semantic: false, table_cap: cfg.table_cap, issue: 0, ite_pool: 0, pair_stride: 0, cold_stride: 0, pool: 0, hash: false, slice: (0, 1) };
                    fn cold<'c, B: SddBuilder<'c>>(cb: &'c B, la: VarLabel, pa: bool, lc: VarLabel, pc: bool, k: u8) -> Option<String> {
                        guarded(|| { let (f, g) = (cb.var(la, pa), cb.var(lc, pc)); sdd_canon(if k == 0 { cb.and(f, g) } else { cb.or(f, g) }) }).ok()
                    }
                    let cold_s = crate::with_sdd_builder!(scfg, |cb| cold(&cb, la, pa, lc, pc, k));
                    if let (Some(w), Some(cs)) = (warm, cold_s) {
                        colds += 1;
                        s.rep.evaluations += 1;
                        if sdd_canon(w) != cs {
                            s.viol("C16", "cache-changes-result", "the long-lived builder's result differs structurally from a cold builder's".into(), &nm);
                        }
                    }
                }
            }
        }
    }
    let reference = bigtt::families(&BigAlg(n));
    let built = match guarded(|| bigtt::families(&SddAlg { b, lab: cfg.labels.clone(), semantic: cfg.semantic })) {
        Ok(v) => v,
        Err(e) => {
            let tag = cfg.tag();
            s.viol(tag, "panic", format!("panicked: {}", e), "building the operand families");
            return s.rep;
        }
    };
    let mut ops: Vec<(String, u8, SddPtr<'a>, Big)> = Vec::new();
    for ((name, lvl, want), (_, _, p)) in reference.into_iter().zip(built.into_iter()) {
        let nm = name.clone();
        s.check(Ok(p), &want, &move || format!("operand {}", nm));
        ops.push((name, lvl, p, want));
    }
    if s.rep.n_violations > 0 {
        return s.rep;
    }
    // uncompressed diagrams grow quickly: a thinner core there
    let thin = (if cfg.semantic { 4 } else if !cfg.compress { 3 } else { 1 }) * (if n > 10 && ctx.tier == Tier::Quick { 3 } else { 1 });
    let mut core: Vec<usize> = (0..ops.len()).filter(|&i| ops[i].1 == 0).step_by(thin * if cfg.wide() { 2 } else { 1 }).collect();
    if cfg.issue % 2 == 1 {
        core.reverse();
    }
    'pairs: for (ci, &i) in core.iter().enumerate() {
        for (cj, &j) in core.iter().enumerate() {
            let (f, x, nf) = (ops[i].2, ops[i].3.clone(), ops[i].0.clone());
            let (g, y, ng) = (ops[j].2, ops[j].3.clone(), ops[j].0.clone());
            let r_and = s.check(guarded(|| b.and(f, g)), &x.and(&y), &|| format!("and({}, {})", nf, ng));
            let r_or = s.check(guarded(|| b.or(f, g)), &x.or(&y), &|| format!("or({}, {})", nf, ng));
            let mut rs = vec![r_and, r_or];
            if !cfg.semantic {
                rs.push(s.check(guarded(|| b.xor(f, g)), &x.xor(&y), &|| format!("xor({}, {})", nf, ng)));
                rs.push(s.check(guarded(|| b.iff(f, g)), &x.iff(&y), &|| format!("iff({}, {})", nf, ng)));
            }
            // warm against cold (compressing builder: results are canonical, so structures must agree)
            if cfg.compress && !cfg.semantic && (ci * core.len() + cj) % 397 == 5 {
                for (k, r) in rs.iter().enumerate() {
                    if let (Some(r), Some(cold)) = (r, cold_binary(cfg, k as u8, i, j)) {
                        colds += 1;
                        s.rep.evaluations += 1;
                        if sdd_canon(*r) != cold {
                            s.viol("C16", "cache-changes-result", "the long-lived builder's result differs structurally from a cold builder's".into(), &format!("{}({}, {})", ["and", "or", "xor", "iff"][k], nf, ng));
                        }
                    }
                }
            }
            if s.rep.n_violations > 24 {
                break 'pairs;
            }
        }
        if ci % 8 == 7 {
            s.recheck();
            if ctx.over_time() || ctx.over_mem() {
                s.rep.cap("wall-clock or memory cap inside the mid-scale SDD pair sweep");
                break;
            }
        }
    }
    // unary operations
    let subj: Vec<usize> = (0..ops.len()).step_by(thin).collect();
    for (si, &i) in subj.iter().enumerate() {
        if s.rep.n_violations > 24 {
            break;
        }
        let (f, x, nf) = (ops[i].2, ops[i].3.clone(), ops[i].0.clone());
        s.check(guarded(|| b.negate(f)), &x.not(), &|| format!("negate({})", nf));
        for v in 0..n {
            let l = s.lbl(v);
            for val in [true, false] {
                s.check(guarded(|| b.condition(f, l, val)), &x.cofactor(v, val), &|| format!("condition({}, x{}, {})", nf, v, val));
            }
            s.check(guarded(|| b.exists(f, l)), &x.exists(v), &|| format!("exists({}, x{})", nf, v));
        }
        // a variable of the vtree that is not a table variable (wide vtrees only): nothing may change
        if cfg.wide() {
            let leaves = cfg.vtree.leaves();
            if let Some(&other) = leaves.iter().filter(|l| !cfg.labels.contains(l)).nth(si % (leaves.len() - n).max(1)) {
                let l = VarLabel::new(other as u64);
                s.check(guarded(|| b.condition(f, l, si % 2 == 0)), &x, &|| format!("condition({}, label {} outside the diagram)", nf, other));
                s.check(guarded(|| b.exists(f, l)), &x, &|| format!("exists({}, label {} outside the diagram)", nf, other));
            }
        }
        if !cfg.semantic {
            for v in (si % 2..n).step_by(2) {
                let l = s.lbl(v);
                let gi = (si * 7 + v) % ops.len();
                let (g, y, ng) = (ops[gi].2, ops[gi].3.clone(), ops[gi].0.clone());
                s.check(guarded(|| b.compose(f, l, g)), &x.compose_def(v, &y), &|| format!("compose({}, x{}, {})", nf, v, ng));
            }
        }
        if si % 16 == 15 {
            s.recheck();
            if ctx.over_time() || ctx.over_mem() {
                s.rep.cap("wall-clock or memory cap inside the mid-scale SDD unary sweep");
                break;
            }
        }
    }
    // ite over all triples of a pool and the aliased shapes
    if !cfg.semantic {
        let pool: Vec<usize> = core.iter().cloned().step_by((core.len() / ctx.tier.pick(7, 14)).max(1)).collect();
        for &i in pool.iter() {
            if s.rep.n_violations > 24 {
                break;
            }
            for &j in pool.iter() {
                let (f, x, nf) = (ops[i].2, ops[i].3.clone(), ops[i].0.clone());
                let (g, y, ng) = (ops[j].2, ops[j].3.clone(), ops[j].0.clone());
                for &k in pool.iter() {
                    let (h, z, nh) = (ops[k].2, ops[k].3.clone(), ops[k].0.clone());
                    s.check(guarded(|| b.ite(f, g, h)), &x.ite(&y, &z), &|| format!("ite({}, {}, {})", nf, ng, nh));
                }
                let (fneg, gneg) = (f.neg(), g.neg());
                s.check(guarded(|| b.ite(f, f, g)), &x.or(&y), &|| format!("ite(f, f, g) f = {}, g = {}", nf, ng));
                s.check(guarded(|| b.ite(f, g, f)), &x.and(&y), &|| format!("ite(f, g, f) f = {}, g = {}", nf, ng));
                s.check(guarded(|| b.ite(f, fneg, g)), &x.not().and(&y), &|| format!("ite(f, !f, g) f = {}, g = {}", nf, ng));
                s.check(guarded(|| b.ite(f, g, gneg)), &x.iff(&y), &|| format!("ite(f, g, !g) f = {}, g = {}", nf, ng));
                s.check(guarded(|| b.and(f, fneg)), &Big::konst(n, false), &|| format!("and(f, !f) f = {}", nf));
                s.check(guarded(|| b.xor(f, f)), &Big::konst(n, false), &|| format!("xor(f, f) f = {}", nf));
            }
        }
    }
    s.recheck();
    s.rep.traces += 1;
    s.rep.add_extra("sdd_mid_operations", s.opno);
    s.rep.add_extra("sdd_mid_nodes_walked_for_normal_form", s.nodes_walked);
    s.rep.add_extra("sdd_mid_cold_comparisons", colds);
    s.rep.max_depth = s.rep.max_depth.max(s.max_elems as u64);
    s.rep
}

fn run_cfg(cfg: &MCfg, ctx: &Ctx) -> Report {
    let c = super::sddsweep::SCfg { n: cfg.n, vtree: cfg.vtree.clone(), compress: cfg.compress, semantic: cfg.semantic, table_cap: cfg.table_cap, issue: 0, ite_pool: 0, pair_stride: 0, cold_stride: 0, pool: 0, hash: false, slice: (0, 1) };
    let t0 = std::time::Instant::now();
    let mut r = crate::with_sdd_builder!(c, |b| mid(&b, cfg, ctx));
    if std::env::var("VERIF_TRACE").is_ok() {
        eprintln!("TRACE sddmid {} ms={} ops={}", cfg.json(), t0.elapsed().as_millis(), r.transitions);
    }
    r.add_extra("sdd_mid_configurations", 1);
    r
}

pub fn right_linear(order: &[usize]) -> VT {
    let mut t = VT::Leaf(*order.last().unwrap());
    for &l in order.iter().rev().skip(1) {
        t = VT::Node(Box::new(VT::Leaf(l)), Box::new(t));
    }
    t
}

pub fn left_linear(order: &[usize]) -> VT {
    let mut t = VT::Leaf(order[0]);
    for &l in order.iter().skip(1) {
        t = VT::Node(Box::new(t), Box::new(VT::Leaf(l)));
    }
    t
}

/// a spine to the right whose left children are balanced blocks of about a third of what is left
pub fn mixed(order: &[usize]) -> VT {
    if order.len() <= 3 {
        return balanced(order);
    }
    let k = (order.len() / 3).max(1);
    VT::Node(Box::new(balanced(&order[..k])), Box::new(mixed(&order[k..])))
}

pub fn balanced(order: &[usize]) -> VT {
    if order.len() == 1 {
        return VT::Leaf(order[0]);
    }
    let m = order.len() / 2;
    VT::Node(Box::new(balanced(&order[..m])), Box::new(balanced(&order[m..])))
}

pub fn configs(ctx: &Ctx, semantic: bool) -> Vec<MCfg> {
    let mut out = Vec::new();
    let modes: Vec<bool> = if semantic { vec![false] } else { vec![true, false] };
    let sizes: Vec<usize> = ctx.tier.pick(vec![8], vec![8, 10]);
    for &n in sizes.iter() {
        let id: Vec<usize> = (0..n).collect();
        let scr: Vec<usize> = (0..n).map(|i| (i * 3 + 3) % n).collect();
        let scr_ok = {
            let mut t = scr.clone();
            t.sort();
            t == id
        };
        let mut vts = vec![right_linear(&id), left_linear(&id), balanced(&id)];
        if scr_ok {
            vts.push(balanced(&scr));
            vts.push(right_linear(&scr));
        }
        for (i, vt) in vts.into_iter().enumerate() {
            for &compress in modes.iter() {
                if !compress && (i == 1 || i == 4 || (semantic && i == 3)) {
                    continue; // uncompressed diagrams (also the hash-identified builder's) over left-leaning vtrees explode
                }
                out.push(MCfg { n, vtree: vt.clone(), labels: id.clone(), compress, semantic, table_cap: if i == 2 { 0 } else { 2 }, issue: i + ctx.seed as usize });
            }
        }
    }
    // neither linear nor balanced, 9 and 11 variables: a spine whose left children are balanced blocks
    for n in [9usize, 11] {
        let id: Vec<usize> = (0..n).collect();
        let rot: Vec<usize> = (0..n).map(|i| (i + n / 2) % n).collect();
        for (i, vt) in [mixed(&id), mixed(&rot)].into_iter().enumerate() {
            for &compress in modes.iter() {
                if !compress && (semantic || i == 1 || n == 11) {
                    continue;
                }
                out.push(MCfg { n, vtree: vt.clone(), labels: id.clone(), compress, semantic, table_cap: 2, issue: i + ctx.seed as usize });
            }
        }
    }
    // 12 variables on the balanced vtree (decision nodes of 64 elements: comparator and equality of the halves)
    if !semantic {
        let id: Vec<usize> = (0..12).collect();
        out.push(MCfg { n: 12, vtree: balanced(&id), labels: id.clone(), compress: true, semantic: false, table_cap: 2, issue: ctx.seed as usize });
    }
    // a 100-leaf mixed vtree with the table variables at labels that are not next to a power of two
    {
        let all: Vec<usize> = (0..100).collect();
        for &compress in modes.iter() {
            if compress || semantic {
                out.push(MCfg { n: 8, vtree: mixed(&all), labels: vec![0, 1, 45, 89, 90, 91, 98, 99], compress, semantic, table_cap: 2, issue: ctx.seed as usize });
            }
        }
    }
    // wide and deep vtrees
    let widths: Vec<usize> = ctx.tier.pick(vec![70], vec![70, 130]);
    for &w in widths.iter() {
        let all: Vec<usize> = (0..w).collect();
        // two label sets: straddling the 32 / 64 boundaries, and pairs l, l + 64 that collide modulo 64
        for (k, labels) in [vec![0, 1, 33, 62, 63, 64, w - 3, w - 1], vec![0, 1, 2, 3, 64, 65, 66, 67]].into_iter().enumerate() {
            for (i, vt) in [right_linear(&all), left_linear(&all), balanced(&all)].into_iter().enumerate() {
                for &compress in modes.iter() {
                    if (!compress && i != 0) || (k == 1 && i == 1 && ctx.tier == Tier::Quick) {
                        continue;
                    }
                    out.push(MCfg { n: 8, vtree: vt.clone(), labels: labels.clone(), compress, semantic, table_cap: 2, issue: i + ctx.seed as usize });
                }
            }
        }
    }
    out
}

/// body of `mc __worker sddmid <file>`
pub fn worker(ctx: &Ctx, input: &Value) -> Report {
    match MCfg::from_json(input) {
        Some(c) => run_cfg(&c, ctx),
        None => {
            let mut r = Report::default();
            r.extra.insert("engine_panic".into(), json!("worker: unreadable configuration"));
            r
        }
    }
}

/// one configuration in a worker process of its own: a wrong vtree position or ancestor can send the library
/// into unbounded recursion, and a stack overflow aborts the whole process. The same harness code runs every
/// configuration, so a worker that is ended by SIGABRT / SIGSEGV / SIGBUS while executing library operations
/// of one configuration is reported as that configuration's finding ("the operation did not return"); any
/// other failure of a worker (kill by the memory or wall-clock limits, unreadable report) is a machinery
/// failure as everywhere else.
fn run_isolated(cfg: &MCfg, ctx: &Ctx, i: usize) -> Report {
    match run_worker_sig("sddmid", &cfg.json(), ctx, &format!("{}-{}", i, if cfg.semantic { "s" } else { "c" }), 4.0) {
        Ok(r) => r,
        Err((Some(sig), msg)) if sig == 6 || sig == 11 || sig == 7 => {
            let mut r = Report::default();
            r.exhaustive = true;
            r.transitions = 1;
            r.violation(format!("{}:no-result", cfg.tag()), format!("[mid-scale / wide SDD, {}] the process executing this configuration's library operations was ended by signal {} (stack overflow or abort inside the library): {}", cfg.short(), sig, msg), json!({"kind": "sdd_mid", "cfg": cfg.json()}));
            r
        }
        Err((Some(-1), msg)) => {
            // stopped by the parent at the end of the wall-clock budget: a cap, never a verdict
            let mut r = Report::default();
            r.cap(format!("a mid-scale / wide SDD configuration was stopped at the wall-clock budget: {}", msg));
            r.add_extra("sdd_mid_configurations_stopped_at_the_budget", 1);
            r
        }
        Err((_, msg)) => {
            let mut r = Report::default();
            r.exhaustive = true;
            r.extra.insert("engine_panic".into(), json!(msg));
            r
        }
    }
}

pub fn run(ctx: &Ctx, semantic: bool) -> Report {
    run_sel(ctx, semantic, false)
}

/// C16's share: the compressing configurations (warm-versus-cold comparisons)
pub fn run_cold(ctx: &Ctx) -> Report {
    run_sel(ctx, false, true)
}

fn run_sel(ctx: &Ctx, semantic: bool, cold_only: bool) -> Report {
    let mut rep = Report::default();
    rep.exhaustive = true;
    if disabled("midscale") {
        return rep;
    }
    let cfgs: Vec<MCfg> = configs(ctx, semantic).into_iter().filter(|c| !cold_only || (c.compress && !c.semantic)).collect();
    let items: Vec<(usize, MCfg)> = cfgs.iter().cloned().enumerate().collect();
    let r = par_run(ctx, &items, |_, (i, c)| run_isolated(c, ctx, *i));
    rep.bound("sdd_mid", json!({"variables": ctx.tier.pick(vec![8], vec![8, 10]), "vtrees": "right-linear, left-linear, balanced, scrambled balanced, scrambled right-linear", "wide_vtrees": {"leaves": ctx.tier.pick(vec![70], vec![70, 130]), "shapes": "right-linear, left-linear, balanced", "table_variable_labels": "0, 1, 33, 62, 63, 64, w-3, w-1 and 0, 1, 2, 3, 64, 65, 66, 67"}, "operands": "rule-defined families (bigtt::families)", "operations": "all ordered pairs of the core operands x and/or/xor/iff; negate, condition, exists on every variable (and on a label outside the diagram), compose; ite over all triples of a pool and aliased shapes; normal-form walk and function -> pointer map (compression on), eq agreement (hash-identified builder), cold-builder comparison on a stride"}));
    rep.merge(r);
    rep
}

pub fn replay(ctx: &Ctx, case: &Value) -> Report {
    match MCfg::from_json(&case["cfg"]) {
        Some(cfg) => run_cfg(&cfg, ctx),
        None => Report::default(),
    }
}
