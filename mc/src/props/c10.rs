//! C10 – queries are pure: answers never depend on earlier queries and no scratch data is left.
//! Explicit-state exploration of query sequences over pools of node-sharing diagrams; the
//! reference answers come from freshly built copies in fresh builders.

use crate::core::*;
use crate::enumerate::*;
use crate::props::bddutil::*;
use crate::props::c07::cnf_of;
use crate::tt::{self, TT};
use crate::walk::*;
use rsdd::builder::decision_nnf::{DecisionNNFBuilder, StandardDecisionNNFBuilder};
use rsdd::builder::sdd::{CompressionSddBuilder, SddBuilder};
use rsdd::builder::{BottomUpBuilder, TopDownBuilder};
use rsdd::constants::primes;
use rsdd::repr::{create_semantic_hash_map, BddPtr, DDNNFPtr, SddPtr, VarLabel, WmcParams};
use rsdd::util::semirings::{ExpectedUtility, FiniteField, RealSemiring};
use serde_json::{json, Value};
use std::collections::HashMap;

const P1: u128 = primes::U32_SMALL;
const P2: u128 = primes::U64_LARGEST;

struct Fix {
    n: usize,
    real: WmcParams<RealSemiring>,
    /// a second weight table of the same semiring (a stale per-node memo of the first shows)
    real2: WmcParams<RealSemiring>,
    ff1: WmcParams<FiniteField<P1>>,
    ff2: WmcParams<FiniteField<P2>>,
    eu: WmcParams<ExpectedUtility>,
}

/// run `f` on a newly spawned thread and return its result (pristine thread-local state)
fn on_fresh_thread<T: Send, F: FnOnce() -> T + Send>(f: F) -> T {
    std::thread::scope(|s| s.spawn(f).join().expect("reference thread"))
}

fn fixtures(n: usize) -> Fix {
    let wr = [(0.25, 0.75), (0.5, 0.5), (1.0, 0.5), (0.75, 0.25), (0.5, 1.0)];
    // the two real-valued tables are siblings: copies of one base table, each re-weighted in place by the
    // same number of set_weight calls (whatever identity or revision a table carries is then the same
    // for both, while their weights differ)
    let base: WmcParams<RealSemiring> = WmcParams::new((0..n).map(|v| (VarLabel::new(v as u64), (RealSemiring(1.0), RealSemiring(1.0)))).collect::<HashMap<_, _>>());
    let mut real = base.clone();
    let mut real2 = base.clone();
    for v in 0..n {
        real.set_weight(VarLabel::new(v as u64), RealSemiring(wr[v].0), RealSemiring(wr[v].1));
        real2.set_weight(VarLabel::new(v as u64), RealSemiring(wr[(v + 2) % 5].1), RealSemiring(wr[(v + 2) % 5].0));
    }
    Fix {
        n,
        real,
        real2,
        ff1: WmcParams::new((0..n).map(|v| (VarLabel::new(v as u64), (FiniteField::new(3 + v as u128), FiniteField::new(P1 - 2 - v as u128)))).collect::<HashMap<_, _>>()),
        ff2: WmcParams::new((0..n).map(|v| (VarLabel::new(v as u64), (FiniteField::new(5 + v as u128), FiniteField::new(P2 - 4 - v as u128)))).collect::<HashMap<_, _>>()),
        eu: WmcParams::new((0..n).map(|v| (VarLabel::new(v as u64), (ExpectedUtility(0.5, 0.0), ExpectedUtility(0.5, v as f64)))).collect::<HashMap<_, _>>()),
    }
}

#[derive(Clone, Debug)]
pub enum Q {
    Fixed(usize),
    Cond(usize, bool),
    Exists(usize),
    CondModel(usize),
    /// smooth to a width below the number of variables (the full width is Fixed(11))
    Smooth(usize),
    /// wmc<Real> under the second weight table
    Wmc2,
    /// another object of the library (rotating kind) is created, used and dropped on this thread
    Interloper(usize),
    /// the builder's own statistics queries (node counts, redundancy count); their answers
    /// legitimately depend on what was allocated before, so only their effect on later
    /// queries is compared
    BuilderStats,
}

const FIXED: [&str; 13] = [
    "wmc<Real>", "wmc<FF32>", "wmc<FF64>", "evaluate", "wmc<EU>", "count_nodes", "semantic_hash<FF32>", "cached_semantic_hash<FF64>",
    "marginal_map", "meu", "bb<Real>", "smooth", "bb<EU>",
];

/// the query alphabet for n variables: 13 fixed kinds + condition on every literal + exists on
/// every variable + three partial models
pub fn bdd_queries(n: usize) -> Vec<(String, Q)> {
    let mut v: Vec<(String, Q)> = FIXED.iter().enumerate().map(|(i, s)| (s.to_string(), Q::Fixed(i))).collect();
    for x in 0..n {
        v.push((format!("condition(x{}=true)", x), Q::Cond(x, true)));
        v.push((format!("condition(x{}=false)", x), Q::Cond(x, false)));
        v.push((format!("exists(x{})", x), Q::Exists(x)));
    }
    for m in 0..3 {
        v.push((format!("condition_model#{}", m), Q::CondModel(m)));
    }
    for k in 1..n {
        v.push((format!("smooth(width {})", k), Q::Smooth(k)));
    }
    v.push(("wmc<Real> (second weight table)".to_string(), Q::Wmc2));
    v.push(("builder statistics".to_string(), Q::BuilderStats));
    for k in [0usize, 3, 6] {
        v.push((format!("another library object #{} created and dropped", k), Q::Interloper(k)));
    }
    v
}

fn bdd_pool<'a>(b: &'a AllBuilder<'a>, f: TT, g: TT, n: usize, kind: u8) -> Vec<BddPtr<'a>> {
    let pf = build_bdd(b, f, n);
    if kind == 1 {
        return vec![pf];
    }
    let pg = build_bdd(b, g, n);
    let sub = match pf {
        BddPtr::Reg(nd) | BddPtr::Compl(nd) => {
            if nd.low.is_const() {
                nd.high
            } else {
                nd.low
            }
        }
        _ => pf,
    };
    if kind == 2 {
        return vec![pf, pf.neg(), sub];
    }
    vec![pf, pf.neg(), sub, b.and(pf, pg), pg, b.smooth(pf, n), b.or(pf.neg(), pg)]
}

fn all_scratch_clear(pool: &[BddPtr]) -> bool {
    fn rec(p: BddPtr) -> bool {
        match p {
            BddPtr::PtrTrue | BddPtr::PtrFalse => true,
            BddPtr::Reg(n) | BddPtr::Compl(n) => p.is_scratch_cleared() && rec(n.low) && rec(n.high),
        }
    }
    pool.iter().all(|p| rec(*p))
}

fn digest_bdd(p: BddPtr, n: usize) -> String {
    let (t, r) = bdd_structure(p);
    format!("tt={:#x} root={} nodes={:?}", bdd_tt(p, n), r, t)
}

fn bdd_query<'a>(b: &'a AllBuilder<'a>, p: BddPtr<'a>, q: &Q, fx: &Fix) -> Result<String, String> {
    let n = fx.n;
    let vars: Vec<VarLabel> = vec![VarLabel::new((n - 1) as u64), VarLabel::new(0)];
    guarded(|| match q {
        Q::Fixed(0) => format!("{:?}", p.unsmoothed_wmc(&fx.real).0.to_bits()),
        Q::Fixed(1) => format!("{}", p.unsmoothed_wmc(&fx.ff1).value()),
        Q::Fixed(2) => format!("{}", p.unsmoothed_wmc(&fx.ff2).value()),
        Q::Fixed(3) => (0..(1usize << n)).map(|a| if p.evaluate(&tt::assignment_vec(a, n)) { '1' } else { '0' }).collect::<String>(),
        Q::Fixed(4) => {
            let r = p.unsmoothed_wmc(&fx.eu);
            format!("{:?}/{:?}", r.0.to_bits(), r.1.to_bits())
        }
        Q::Fixed(5) => format!("{}", p.count_nodes()),
        Q::Fixed(6) => format!("{}", p.semantic_hash(&create_semantic_hash_map::<P1>(fx.n)).value()),
        Q::Fixed(7) => format!("{}", p.cached_semantic_hash(b.order(), &create_semantic_hash_map::<P2>(fx.n)).value()),
        Q::Fixed(8) => {
            let (v, m) = p.marginal_map(&vars, n, &fx.real);
            format!("{:?} {:?}", v.to_bits(), m)
        }
        Q::Fixed(9) => {
            let (v, m) = p.meu(&vars[..1], n, &fx.eu);
            format!("{:?}/{:?} {:?}", v.0.to_bits(), v.1.to_bits(), m)
        }
        Q::Fixed(10) => {
            let (v, m) = p.bb(&vars, n, &fx.real);
            format!("{:?} {:?}", v.0.to_bits(), m)
        }
        Q::Fixed(11) => digest_bdd(b.smooth(p, n), n),
        Q::Fixed(_) => {
            let (v, m) = p.bb(&vars[..1], n, &fx.eu);
            format!("{:?}/{:?} {:?}", v.0.to_bits(), v.1.to_bits(), m)
        }
        Q::Smooth(k) => digest_bdd(b.smooth(p, *k), n),
        Q::Wmc2 => format!("{:?}", p.unsmoothed_wmc(&fx.real2).0.to_bits()),
        Q::BuilderStats => {
            let _ = (b.stats(), b.num_recursive_calls());
            String::new()
        }
        Q::Interloper(k) => {
            crate::props::bddutil::interloper(*k);
            String::new()
        }
        Q::Cond(x, val) => digest_bdd(b.condition(p, VarLabel::new(*x as u64), *val), n),
        Q::Exists(x) => digest_bdd(b.exists(p, VarLabel::new(*x as u64)), n),
        Q::CondModel(m) => {
            let mut a: Vec<Option<bool>> = vec![None; n];
            match m {
                0 => {
                    a[0] = Some(false);
                    a[n - 1] = Some(true);
                }
                1 => {
                    a[n - 1] = Some(false);
                }
                _ => {
                    for (i, x) in a.iter_mut().enumerate() {
                        *x = Some(i % 2 == 0);
                    }
                }
            }
            digest_bdd(b.condition_model(p, &crate::props::wparams::build_model(&a, a.iter().filter(|x| x.is_some()).count())), n)
        }
    })
}

/// explore all query sequences of length <= depth over the BDD pool of (f, g)
fn explore_bdd(f: TT, g: TT, n: usize, order: &[usize], depth: usize, kind: u8, rep: &mut Report) {
    explore_bdd_sel(f, g, n, order, depth, kind, rep, false)
}

/// `ops_only`: the alphabet is restricted to the queries that go through the builder (conditioning,
/// quantification, smoothing of every width, builder statistics) - the calls that can leave state in
/// the *builder* rather than in the nodes; the smaller alphabet makes every triple affordable
fn explore_bdd_sel(f: TT, g: TT, n: usize, order: &[usize], depth: usize, kind: u8, rep: &mut Report, ops_only: bool) {
    let fx = fixtures(n);
    let qs: Vec<(String, Q)> = bdd_queries(n).into_iter().filter(|(_, q)| !ops_only || matches!(q, Q::Cond(_, _) | Q::Exists(_) | Q::CondModel(_) | Q::Smooth(_) | Q::Fixed(11) | Q::BuilderStats | Q::Interloper(0))).collect();
    let nq = qs.len();
    // reference answers: every (query, member) on a fresh copy in a fresh builder
    let npool = match kind {
        1 => 1,
        2 => 3,
        _ => 7,
    };
    let mut reference: Vec<Vec<Result<String, String>>> = Vec::new();
    for q in 0..nq {
        // (each reference row is computed on a thread of its own: whatever earlier queries left in
        // thread-local state of the library cannot reach it)
        let row = on_fresh_thread(|| {
            let fx = fixtures(n);
            let mut row = Vec::new();
            for m in 0..npool {
                let b = small_builder(order, 2);
                let pool = bdd_pool(&b, f, g, n, kind);
                row.push(bdd_query(&b, pool[m], &qs[q].1, &fx));
            }
            row
        });
        reference.push(row);
    }
    let case = |hist: &[(usize, usize)]| -> Value {
        json!({"kind": "bdd_queries", "ops_only": ops_only, "pool_kind": kind, "f": format!("{:#x}", f), "g": format!("{:#x}", g), "n": n, "order": order, "sequence": hist.iter().map(|(q, m)| json!([qs[*q].0, m])).collect::<Vec<_>>()})
    };
    // all sequences; each sequence runs in its own shared builder
    let mut seqs: Vec<Vec<(usize, usize)>> = vec![vec![]];
    for _ in 0..depth {
        let mut next = Vec::new();
        for s in seqs.iter() {
            if s.len() + 1 > depth {
                continue;
            }
            for q in 0..nq {
                for m in 0..npool {
                    let mut x = s.clone();
                    x.push((q, m));
                    next.push(x);
                }
            }
        }
        // execute the new sequences (prefixes were executed in the previous round)
        for s in next.iter() {
            let b = small_builder(order, 2);
            let pool = bdd_pool(&b, f, g, n, kind);
            rep.traces += 1;
            for (i, (q, m)) in s.iter().enumerate() {
                let ans = bdd_query(&b, pool[*m], &qs[*q].1, &fx);
                rep.transitions += 1;
                let want = &reference[*q][*m];
                if ans != *want {
                    rep.violation(
                        "purity:answer-depends-on-history",
                        format!("{} on pool member {} after {:?}: answer {:?}, on a freshly built copy {:?}", qs[*q].0, m, &s[..i], ans, want),
                        case(s),
                    );
                    return;
                }
                if !all_scratch_clear(&pool) {
                    rep.violation(
                        "purity:scratch-left",
                        format!("after {} on pool member {} (history {:?}) some node reachable from the pool still holds scratch data", qs[*q].0, m, &s[..i]),
                        case(s),
                    );
                    return;
                }
            }
        }
        rep.states += next.len() as u64;
        seqs = next;
    }
}

// ---- SDD and top-down pools (smaller alphabets) ------------------------------------------------

pub const SDD_QUERIES: [&str; 10] = ["wmc<Real>", "wmc<FF64>", "evaluate", "count_nodes", "semantic_hash<FF32>", "cached_semantic_hash<FF64>", "condition", "exists", "wmc<Real> (second weight table)", "builder statistics"];

fn sdd_build<'a>(b: &'a CompressionSddBuilder<'a>, t: TT, v: usize, n: usize) -> SddPtr<'a> {
    if t == 0 {
        return SddPtr::PtrFalse;
    }
    if t == tt::mask(n) {
        return SddPtr::PtrTrue;
    }
    if !tt::depends_on(t, v, n) {
        return sdd_build(b, t, v + 1, n);
    }
    let hi = sdd_build(b, tt::cofactor(t, v, true, n), v + 1, n);
    let lo = sdd_build(b, tt::cofactor(t, v, false, n), v + 1, n);
    b.ite(SddPtr::Var(VarLabel::new(v as u64), true), hi, lo)
}

fn sdd_pool<'a>(b: &'a CompressionSddBuilder<'a>, f: TT, g: TT, n: usize) -> Vec<SddPtr<'a>> {
    let pf = sdd_build(b, f, 0, n);
    let pg = sdd_build(b, g, 0, n);
    vec![pf, pf.neg(), pg, b.and(pf, pg), b.or(pf, pg.neg())]
}

fn sdd_scratch_clear(pool: &[SddPtr]) -> bool {
    fn rec(p: SddPtr) -> bool {
        match p {
            SddPtr::PtrTrue | SddPtr::PtrFalse | SddPtr::Var(_, _) => true,
            SddPtr::BDD(b) | SddPtr::ComplBDD(b) => p.is_scratch_cleared() && rec(b.low()) && rec(b.high()),
            SddPtr::Reg(o) | SddPtr::Compl(o) => p.is_scratch_cleared() && o.iter().all(|a| rec(a.prime) && rec(a.sub)),
        }
    }
    pool.iter().all(|p| rec(*p))
}

fn sdd_query<'a>(b: &'a CompressionSddBuilder<'a>, p: SddPtr<'a>, q: usize, fx: &Fix) -> Result<String, String> {
    let n = fx.n;
    guarded(|| match q {
        0 => format!("{:?}", p.unsmoothed_wmc(&fx.real).0.to_bits()),
        1 => format!("{}", p.unsmoothed_wmc(&fx.ff2).value()),
        2 => (0..(1usize << n)).map(|a| if p.evaluate(&tt::assignment_vec(a, n)) { '1' } else { '0' }).collect::<String>(),
        3 => format!("{}", p.count_nodes()),
        4 => format!("{}", p.semantic_hash(&create_semantic_hash_map::<P1>(fx.n)).value()),
        5 => format!("{}", p.cached_semantic_hash(b.vtree_manager(), &create_semantic_hash_map::<P2>(fx.n)).value()),
        6 => sdd_canon(b.condition(p, VarLabel::new(1 % n as u64), false)),
        7 => sdd_canon(b.exists(p, VarLabel::new(0))),
        8 => format!("{:?}", p.unsmoothed_wmc(&fx.real2).0.to_bits()),
        _ => {
            let _ = b.stats();
            String::new()
        }
    })
}

fn explore_sdd(f: TT, g: TT, n: usize, vt: &VT, depth: usize, rep: &mut Report) {
    let fx = fixtures(n);
    let nq = SDD_QUERIES.len();
    let npool = 5;
    let mut reference: Vec<Vec<Result<String, String>>> = Vec::new();
    for q in 0..nq {
        let row = on_fresh_thread(|| {
            let fx = fixtures(n);
            let mut row = Vec::new();
            for m in 0..npool {
                let b = mk_sdd(vt);
                let pool = sdd_pool(&b, f, g, n);
                row.push(sdd_query(&b, pool[m], q, &fx));
            }
            row
        });
        reference.push(row);
    }
    let mut seqs: Vec<Vec<(usize, usize)>> = vec![vec![]];
    for _ in 0..depth {
        let mut next = Vec::new();
        for s in seqs.iter() {
            for q in 0..nq {
                for m in 0..npool {
                    let mut x = s.clone();
                    x.push((q, m));
                    next.push(x);
                }
            }
        }
        for s in next.iter() {
            let b = mk_sdd(vt);
            let pool = sdd_pool(&b, f, g, n);
            rep.traces += 1;
            for (i, (q, m)) in s.iter().enumerate() {
                let ans = sdd_query(&b, pool[*m], *q, &fx);
                rep.transitions += 1;
                let case = json!({"kind": "sdd_queries", "f": format!("{:#x}", f), "g": format!("{:#x}", g), "n": n, "vtree": vt.show(), "sequence": s.iter().map(|(q, m)| json!([SDD_QUERIES[*q], m])).collect::<Vec<_>>()});
                if ans != reference[*q][*m] {
                    rep.violation("purity:answer-depends-on-history", format!("SDD {} on pool member {} after {:?}: answer {:?}, fresh copy {:?}", SDD_QUERIES[*q], m, &s[..i], ans, reference[*q][*m]), case);
                    return;
                }
                if !sdd_scratch_clear(&pool) {
                    rep.violation("purity:scratch-left", format!("SDD: after {} on pool member {} (history {:?}) scratch data is left", SDD_QUERIES[*q], m, &s[..i]), case);
                    return;
                }
            }
        }
        rep.states += next.len() as u64;
        seqs = next;
    }
}

const TD_FIXED: [&str; 6] = ["wmc<Real>", "wmc<FF64>", "evaluate", "count_nodes", "semantic_hash<FF32>", "cached_semantic_hash<FF64>"];

/// decision-DNNF query alphabet: 6 fixed kinds + condition on every literal
pub fn td_queries(n: usize) -> Vec<(String, Q)> {
    let mut v: Vec<(String, Q)> = TD_FIXED.iter().enumerate().map(|(i, s)| (s.to_string(), Q::Fixed(i))).collect();
    for x in 0..n {
        v.push((format!("condition(x{}=true)", x), Q::Cond(x, true)));
        v.push((format!("condition(x{}=false)", x), Q::Cond(x, false)));
    }
    v.push(("wmc<Real> (second weight table)".to_string(), Q::Wmc2));
    v.push(("builder statistics (num_logically_redundant, stats)".to_string(), Q::BuilderStats));
    v
}

fn td_pool<'a>(b: &'a StandardDecisionNNFBuilder<'a>, f: TT, g: TT, n: usize, kind: u8) -> Vec<BddPtr<'a>> {
    let d1 = b.compile_cnf_topdown(&to_cnf(&cnf_of(f, n)));
    if kind == 1 {
        return vec![d1, d1.neg()];
    }
    let d2 = b.compile_cnf_topdown(&to_cnf(&cnf_of(g, n)));
    vec![d1, d1.neg(), d2, b.condition(d1, VarLabel::new(0), true)]
}

fn td_query<'a>(b: &'a StandardDecisionNNFBuilder<'a>, p: BddPtr<'a>, q: &Q, fx: &Fix) -> Result<String, String> {
    let n = fx.n;
    guarded(|| match q {
        Q::Fixed(0) => format!("{:?}", p.unsmoothed_wmc(&fx.real).0.to_bits()),
        Q::Fixed(1) => format!("{}", p.unsmoothed_wmc(&fx.ff2).value()),
        Q::Fixed(2) => (0..(1usize << n)).map(|a| if p.evaluate(&tt::assignment_vec(a, n)) { '1' } else { '0' }).collect::<String>(),
        Q::Fixed(3) => format!("{}", p.count_nodes()),
        Q::Fixed(4) => format!("{}", p.semantic_hash(&create_semantic_hash_map::<P1>(fx.n)).value()),
        Q::Fixed(_) => format!("{}", p.cached_semantic_hash(b.order(), &create_semantic_hash_map::<P2>(fx.n)).value()),
        Q::Cond(x, val) => digest_bdd(b.condition(p, VarLabel::new(*x as u64), *val), n),
        Q::Wmc2 => format!("{:?}", p.unsmoothed_wmc(&fx.real2).0.to_bits()),
        Q::BuilderStats => {
            let _ = (b.num_logically_redundant(), b.stats());
            String::new()
        }
        _ => String::new(),
    })
}

fn explore_td(f: TT, g: TT, n: usize, order: &[usize], depth: usize, kind: u8, rep: &mut Report) {
    if num_vars(&cnf_of(f, n)) != n || (kind != 1 && num_vars(&cnf_of(g, n)) != n) {
        return;
    }
    let fx = fixtures(n);
    let qs = td_queries(n);
    let nq = qs.len();
    let npool = if kind == 1 { 2 } else { 4 };
    let mut reference: Vec<Vec<Result<String, String>>> = Vec::new();
    for q in 0..nq {
        let row = on_fresh_thread(|| {
            let fx = fixtures(n);
            let mut row = Vec::new();
            for m in 0..npool {
                let b = mk_td(order);
                let pool = td_pool(&b, f, g, n, kind);
                row.push(td_query(&b, pool[m], &qs[q].1, &fx));
            }
            row
        });
        reference.push(row);
    }
    let mut seqs: Vec<Vec<(usize, usize)>> = vec![vec![]];
    for _ in 0..depth {
        let mut next = Vec::new();
        for s in seqs.iter() {
            for q in 0..nq {
                for m in 0..npool {
                    let mut x = s.clone();
                    x.push((q, m));
                    next.push(x);
                }
            }
        }
        for s in next.iter() {
            let b = mk_td(order);
            let pool = td_pool(&b, f, g, n, kind);
            rep.traces += 1;
            for (i, (q, m)) in s.iter().enumerate() {
                let ans = td_query(&b, pool[*m], &qs[*q].1, &fx);
                rep.transitions += 1;
                let case = json!({"kind": "topdown_queries", "pool_kind": kind, "f": format!("{:#x}", f), "g": format!("{:#x}", g), "n": n, "order": order, "sequence": s.iter().map(|(q, m)| json!([qs[*q].0, m])).collect::<Vec<_>>()});
                if ans != reference[*q][*m] {
                    rep.violation("purity:answer-depends-on-history", format!("decision-DNNF {} on pool member {} after {:?}: answer {:?}, fresh copy {:?}", qs[*q].0, m, &s[..i], ans, reference[*q][*m]), case);
                    return;
                }
                if !all_scratch_clear(&pool) {
                    rep.violation("purity:scratch-left", format!("decision-DNNF: after {} on pool member {} (history {:?}) scratch data is left", qs[*q].0, m, &s[..i]), case);
                    return;
                }
            }
        }
        rep.states += next.len() as u64;
        seqs = next;
    }
}

/// for every first query q1: q1 and then every query (rotated to start after q1), in one builder
fn long_histories_td(f: TT, n: usize, order: &[usize], rep: &mut Report) {
    if num_vars(&cnf_of(f, n)) != n {
        return;
    }
    let fx = fixtures(n);
    let qs = td_queries(n);
    let npool = 2;
    let acts: Vec<(usize, usize)> = (0..qs.len()).flat_map(|q| (0..npool).map(move |m| (q, m))).collect();
    // reference answers on fresh copies
    let mut reference: Vec<Result<String, String>> = Vec::new();
    for (q, m) in acts.iter() {
        reference.push(on_fresh_thread(|| {
            let fx = fixtures(n);
            let b = mk_td(order);
            let pool = td_pool(&b, f, 0, n, 1);
            td_query(&b, pool[*m], &qs[*q].1, &fx)
        }));
    }
    for first in 0..acts.len() {
        let b = mk_td(order);
        let pool = td_pool(&b, f, 0, n, 1);
        rep.traces += 1;
        rep.states += 1;
        let mut hist: Vec<usize> = Vec::new();
        for k in 0..=acts.len() {
            let i = if k == 0 { first } else { (first + k) % acts.len() };
            let (q, m) = acts[i];
            let ans = td_query(&b, pool[m], &qs[q].1, &fx);
            rep.transitions += 1;
            let case = || json!({"kind": "topdown_long_history", "f": format!("{:#x}", f), "n": n, "order": order, "first": first, "sequence": hist.iter().map(|&j| json!([qs[acts[j].0].0, acts[j].1])).collect::<Vec<_>>()});
            if ans != reference[i] {
                rep.violation("purity:answer-depends-on-history", format!("decision-DNNF of {:#x} (order {:?}): {} on pool member {} after {} earlier queries: answer {:?}, fresh copy {:?}", f, order, qs[q].0, m, hist.len(), ans, reference[i]), case());
                return;
            }
            if !all_scratch_clear(&pool) {
                rep.violation("purity:scratch-left", format!("decision-DNNF of {:#x} (order {:?}): after {} on pool member {} ({} earlier queries) scratch data is left", f, order, qs[q].0, m, hist.len()), case());
                return;
            }
            hist.push(i);
        }
    }
}

/// Very long histories of cheap queries: a query on h; k queries on an unrelated diagram g of the same builder;
/// a query on f, which shares h's nodes, under another weight table - for k in windows around 2^8 / j and 2^16 / j
/// (j = 1..4: a query may touch a per-thread or per-builder counter once or several times). Counters, epochs and
/// generation stamps narrower than the number of calls wrap around only here; every answer is compared with the
/// answer on a fresh builder on a fresh thread, and the scratch slots of f and h must read as empty before the
/// last query.
fn wraparound_histories(ctx: &Ctx) -> Report {
    let mut ks: Vec<usize> = Vec::new();
    for base in [1usize << 8, 1 << 16] {
        for j in [1usize, 2, 3, 4, 64, 128] {
            for d in 0..6usize {
                let k = (base / j + 1).saturating_sub(d);
                if !ks.contains(&k) {
                    ks.push(k);
                }
            }
        }
    }
    // counts that are not next to a power of two: "every thousandth call" thresholds
    let extra: Vec<usize> = ctx.tier.pick(vec![999, 1000, 1001, 5000, 10_000, 12_345], vec![999, 1000, 1001, 4999, 5000, 5001, 9999, 10_000, 10_001, 12_345, 20_000, 50_000, 99_999, 100_000, 100_001]);
    ks.extend(extra);
    if ctx.tier == Tier::Quick {
        // quick: every window, both ends and the centre
        ks.retain(|&k| k < 300 || [0usize, 1, 2, 3].contains(&(((1usize << 16) + 1).wrapping_sub(k) % 7)) || (1usize << 16) / k >= 2);
    }
    // (first query on h, filler query on g, last query on f)
    let kinds: Vec<(usize, usize, usize)> = vec![(0, 5, 13), (0, 0, 13), (5, 5, 5), (0, 3, 13), (5, 3, 0), (1, 5, 2)];
    let items: Vec<(usize, (usize, usize, usize))> = ks.iter().flat_map(|&k| kinds.iter().map(move |&q| (k, q))).collect();
    let order: Vec<usize> = (0..6).collect();
    fn diagrams<'a>(b: &'a AllBuilder<'a>) -> (BddPtr<'a>, BddPtr<'a>, BddPtr<'a>) {
        let x = |v: u64, p: bool| b.var(VarLabel::new(v), p);
        let h = b.and(x(2, true), x(3, false));
        let f = b.or(b.and(x(0, true), x(1, true)), h);
        let g = b.or(x(4, true), x(5, true));
        (h, f, g)
    }
    let qs: Vec<Q> = (0..13).map(Q::Fixed).chain([Q::Wmc2]).collect();
    let mut r = par_run(ctx, &items, |_, (k, (qa, qb, qc))| {
        let mut rep = Report::default();
        rep.exhaustive = true;
        let fx = fixtures(5);
        let fx6 = Fix { n: 6, real: WmcParams::new((0..6).map(|v| (VarLabel::new(v as u64), (RealSemiring(0.25 + 0.125 * (v % 3) as f64), RealSemiring(0.75 - 0.125 * (v % 3) as f64)))).collect::<HashMap<_, _>>()), real2: WmcParams::new((0..6).map(|v| (VarLabel::new(v as u64), (RealSemiring(0.5 + 0.125 * (v % 2) as f64), RealSemiring(0.5 - 0.125 * (v % 2) as f64)))).collect::<HashMap<_, _>>()), ff1: WmcParams::new((0..6).map(|v| (VarLabel::new(v as u64), (FiniteField::new(3 + v as u128), FiniteField::new(P1 - 2 - v as u128)))).collect::<HashMap<_, _>>()), ff2: WmcParams::new((0..6).map(|v| (VarLabel::new(v as u64), (FiniteField::new(5 + v as u128), FiniteField::new(P2 - 4 - v as u128)))).collect::<HashMap<_, _>>()), eu: fx.eu.clone() };
        let reference = on_fresh_thread(|| {
            let b = small_builder(&order, 0);
            let (_, f, _) = diagrams(&b);
            bdd_query(&b, f, &qs[*qc], &fx6)
        });
        let b = small_builder(&order, 0);
        let (h, f, g) = diagrams(&b);
        rep.traces += 1;
        rep.states += 1;
        let case = json!({"kind": "wraparound", "k": k, "queries": [qa, qb, qc]});
        let _ = bdd_query(&b, h, &qs[*qa], &fx6);
        let first_g = bdd_query(&b, g, &qs[*qb], &fx6);
        for i in 1..*k {
            let a = bdd_query(&b, g, &qs[*qb], &fx6);
            if a != first_g {
                rep.violation("purity:answer-depends-on-history", format!("query kind {} on x4 | x5 answers {:?} at repetition {}, {:?} the first time", qb, a, i, first_g), case.clone());
                return rep;
            }
        }
        rep.transitions += *k as u64 + 2;
        if !all_scratch_clear(&[f, h, g]) {
            rep.violation("purity:scratch-left", format!("after a query of kind {} on x2 & !x3 and {} queries of kind {} on x4 | x5, a scratch slot of (x0 & x1) | (x2 & !x3) or of its sub-diagram reads as occupied", qa, k, qb), case.clone());
            return rep;
        }
        let ans = bdd_query(&b, f, &qs[*qc], &fx6);
        if ans != reference {
            rep.violation("purity:answer-depends-on-history", format!("query kind {} on (x0 & x1) | (x2 & !x3) after a query of kind {} on its sub-diagram x2 & !x3 and {} queries of kind {} on x4 | x5 answers {:?}; on a fresh builder {:?}", qc, qa, k, qb, ans, reference), case.clone());
        }
        rep
    });
    r.bound("very_long_histories", json!({"fillers_between_the_two_queries": ks, "query_kinds": "(first, filler, last) in {wmc<Real>, wmc<FF32>, wmc<FF64>, evaluate, count_nodes, wmc<Real> with the second table}", "diagrams": "h = x2 & !x3, f = (x0 & x1) | h, g = x4 | x5 in one 6-variable builder"}));
    r.add_extra("very_long_history_queries", r.transitions);
    r
}

/// Large diagrams: a rule-defined pseudo-random function over 12, 13 and 15 variables (a few hundred to several
/// thousand nodes: list, stack and table thresholds inside the folds are only reached here). For every ordered
/// pair (q1, q2) of query kinds, q1 then q2 on the one diagram of a fresh builder; q2's answer must equal its
/// answer as the first query on a fresh builder on a fresh thread, and every node's scratch slot must read as
/// empty after each call.
fn large_diagram_pairs(ctx: &Ctx) -> Report {
    use crate::bigtt::Big;
    fn pseudo_random(n: usize, seed: u64) -> Big {
        let mut f = Big::konst(n, false);
        let mut x = seed.wrapping_mul(0x9E3779B97F4A7C15) | 1;
        for w in f.w.iter_mut() {
            x ^= x << 13;
            x ^= x >> 7;
            x ^= x << 17;
            *w = x;
        }
        f
    }
    fn build<'a>(b: &'a AllBuilder<'a>, f: &Big, v: usize) -> BddPtr<'a> {
        if f.is_false() {
            return BddPtr::PtrFalse;
        }
        if f.is_true() {
            return BddPtr::PtrTrue;
        }
        let (lo, hi) = (build(b, &f.cofactor(v, false), v + 1), build(b, &f.cofactor(v, true), v + 1));
        b.ite(b.var(VarLabel::new(v as u64), true), hi, lo)
    }
    fn fix(n: usize) -> Fix {
        let dy = |v: usize, k: usize| 0.25 + 0.125 * ((v + k) % 5) as f64;
        Fix {
            n,
            real: WmcParams::new((0..n).map(|v| (VarLabel::new(v as u64), (RealSemiring(dy(v, 0)), RealSemiring(1.0 - dy(v, 0))))).collect::<HashMap<_, _>>()),
            real2: WmcParams::new((0..n).map(|v| (VarLabel::new(v as u64), (RealSemiring(dy(v, 2)), RealSemiring(1.0 - dy(v, 2))))).collect::<HashMap<_, _>>()),
            ff1: WmcParams::new((0..n).map(|v| (VarLabel::new(v as u64), (FiniteField::new(3 + v as u128), FiniteField::new(P1 - 2 - v as u128)))).collect::<HashMap<_, _>>()),
            ff2: WmcParams::new((0..n).map(|v| (VarLabel::new(v as u64), (FiniteField::new(5 + v as u128), FiniteField::new(P2 - 4 - v as u128)))).collect::<HashMap<_, _>>()),
            eu: WmcParams::new((0..n).map(|v| (VarLabel::new(v as u64), (ExpectedUtility(0.5, 0.0), ExpectedUtility(0.5, if v >= 2 { (v % 4) as f64 } else { 0.0 })))).collect::<HashMap<_, _>>()),
        }
    }
    // first queries: the optimisation queries, counts, node count, hashes; second queries: counts with the other
    // table, node count, a modular count, marginal MAP
    let firsts: Vec<usize> = if ctx.tier == Tier::Quick { vec![8, 9, 10, 0] } else { vec![8, 9, 10, 12, 0, 1, 5, 6, 7] };
    let seconds: Vec<usize> = if ctx.tier == Tier::Quick { vec![13, 5] } else { vec![13, 5, 2, 8] };
    let qs: Vec<Q> = (0..13).map(Q::Fixed).chain([Q::Wmc2]).collect();
    let sizes: Vec<usize> = ctx.tier.pick(vec![13, 15], vec![11, 12, 13, 14, 15, 16]);
    let mut items: Vec<(usize, u64, usize)> = Vec::new();
    for &n in sizes.iter() {
        for seed in 1..=ctx.tier.pick(1u64, 3) {
            for &q1 in firsts.iter() {
                items.push((n, seed, q1));
            }
        }
    }
    let mut r = par_run(ctx, &items, |_, (n, seed, q1)| {
        let mut rep = Report::default();
        rep.exhaustive = true;
        let n = *n;
        let f = pseudo_random(n, *seed + n as u64);
        let order: Vec<usize> = (0..n).collect();
        let fx = fix(n);
        let case = json!({"kind": "large_diagram", "n": n, "seed": seed, "first": q1});
        for &q2 in seconds.iter() {
            let reference = on_fresh_thread(|| {
                let b = small_builder(&order, 0);
                let p = build(&b, &f, 0);
                bdd_query(&b, p, &qs[q2], &fix(n))
            });
            let b = small_builder(&order, 0);
            let p = build(&b, &f, 0);
            rep.states += 1;
            rep.traces += 1;
            rep.max_depth = rep.max_depth.max(p.count_nodes() as u64);
            let _ = bdd_query(&b, p, &qs[*q1], &fx);
            rep.transitions += 2;
            if !all_scratch_clear(&[p]) {
                rep.violation("purity:scratch-left", format!("pseudo-random function of {} variables ({} nodes): after query kind {} a scratch slot of the diagram reads as occupied", n, p.count_nodes(), q1), case.clone());
                return rep;
            }
            let ans = bdd_query(&b, p, &qs[q2], &fx);
            if ans != reference {
                rep.violation("purity:answer-depends-on-history", format!("pseudo-random function of {} variables ({} nodes): query kind {} after query kind {} answers {:?}; as the first query on a fresh builder {:?}", n, p.count_nodes(), q2, q1, ans, reference), case.clone());
                return rep;
            }
            if !all_scratch_clear(&[p]) {
                rep.violation("purity:scratch-left", format!("pseudo-random function of {} variables ({} nodes): after query kinds {} and {} a scratch slot of the diagram reads as occupied", n, p.count_nodes(), q1, q2), case.clone());
                return rep;
            }
        }
        rep
    });
    r.bound("large_diagrams", json!({"variables": sizes, "function": "xorshift-filled truth table (rule-defined, one per size; three in thorough)", "first_queries": "marginal_map, meu, bb<Real>, bb<EU>, wmc<Real>, wmc<FF32>, count_nodes, semantic_hash, cached_semantic_hash", "second_queries": "wmc<Real> with the second table, count_nodes, wmc<FF64>, marginal_map"}));
    r.add_extra("large_diagram_query_pairs", r.states);
    r
}

/// rule-defined family of function pairs: skipped levels at the top / middle / bottom,
/// complemented roots, shared sub-diagrams, parity and threshold functions
fn family(n: usize) -> Vec<(TT, TT)> {
    let x = |v: usize| tt::var(v, n);
    let m = tt::mask(n);
    let last = n - 1;
    let mut par = 0;
    for v in 0..n {
        par ^= x(v);
    }
    let mut v = vec![
        (x(0) & x(last), x(1 % n) | x(last)),
        (par, !par & m),
        (x(last), x(0)),
        ((x(0) | x(1 % n)) & x(last), x(0) ^ x(last)),
        (!(x(0) & x(1 % n)) & m, (x(0) & x(1 % n)) | x(last)),
        (tt::ite(x(0), x(last), !x(last) & m, n), x(1 % n)),
    ];
    if n >= 4 {
        v.push(((x(0) & x(1)) | (x(2) & x(3)), (x(0) | x(2)) & (x(1) | x(3))));
        v.push((x(1) & !x(3) & m, par ^ x(0)));
    }
    v
}

pub fn run(ctx: &Ctx) -> Report {
    let mut rep = Report::new(
        "pools of node-sharing diagrams (f, not f, a sub-diagram of f, f and g, g, smooth(f), not f or g) built in one builder for a rule-defined family of function pairs (skipped levels, complemented roots, parity, thresholds), n in {3,4}; every sequence of <= d queries (d = 2; 3 in thorough for n = 3 under one order) over the BDD query alphabet (13 fixed kinds + condition on every literal + exists on every variable + 3 partial models) x 7 pool members, plus every ordered pair of queries on EVERY function of 3 variables (every 256th of 4 under every 4th order in thorough) under every order, 8 SDD query kinds x 5 members, the decision-DNNF alphabet (6 fixed kinds + condition on every literal) x 4 members, plus every ordered pair of those queries on the top-down diagram of EVERY function of 3 variables under every order; every answer must equal the answer on a freshly built copy in a fresh builder and every node reachable from the pool must have empty scratch after every call; a state is a distinct query sequence",
    );
    let depth = ctx.tier.pick(2, 3);
    let mut items: Vec<(u8, usize, TT, TT, Vec<usize>, VT)> = Vec::new();
    for n in [3usize, 4] {
        for (i, (f, g)) in family(n).into_iter().enumerate() {
            let orders = permutations(n);
            let o1 = orders[(i * 5 + 1) % orders.len()].clone();
            let o2 = orders[(i * 7 + 3) % orders.len()].clone();
            // (depth 3 in thorough for the first six pools of n = 3; depth 2 for the others)
            items.push((if i < 6 { 0 } else { 5 }, n, f, g, o1.clone(), VT::Leaf(0)));
            if ctx.tier == Tier::Thorough {
                // the second order at depth 2 (kind 5): depth 3 over ~200 (query, member) pairs is
                // 8 million sequences per pool and is done for one order and n = 3 only
                items.push((5, n, f, g, o2.clone(), VT::Leaf(0)));
            }
            let vts = all_vtrees(n);
            items.push((1, n, f, g, vec![], vts[(i * 11 + 2) % vts.len()].clone()));
            items.push((1, n, f, g, vec![], vts[(i * 17 + 5) % vts.len()].clone()));
            // decision-DNNF pools: every sequence rebuilds a builder and compiles two CNFs top-down,
            // so depth 3 (kind 6) is kept for the first two pools of n = 3 in thorough
            items.push((if ctx.tier == Tier::Thorough && n == 3 && i < 2 { 6 } else { 2 }, n, f, g, o2, VT::Leaf(0)));
        }
    }
    // all functions of 3 variables (4 in thorough, every 16th) under every order: pool {f} (quick) /
    // {f, not f, a sub-diagram} (thorough), every ordered pair of queries
    for o in permutations(3) {
        for start in 0..4u64 {
            items.push((3, 3, start, 4, o.clone(), VT::Leaf(0)));
        }
    }
    for o in permutations(3) {
        for start in 0..4u64 {
            items.push((4, 3, start, 4, o.clone(), VT::Leaf(0)));
        }
    }
    // every function of 3 variables: every TRIPLE of builder-level operations (condition on every
    // literal, exists on every variable, three partial models, smoothing of every width, builder
    // statistics) in a fresh builder each - state that one kind of call leaves in the builder and a
    // later call of another kind trips over needs three calls (set, disturb, read)
    for (i, o) in permutations(3).into_iter().enumerate() {
        if ctx.tier == Tier::Thorough || i % 3 == 1 {
            for start in 0..8u64 {
                items.push((8, 3, start, 8, o.clone(), VT::Leaf(0)));
            }
        }
    }
    if ctx.tier == Tier::Thorough {
        for (i, o) in permutations(4).into_iter().enumerate() {
            if i % 6 == 2 {
                for start in 0..8u64 {
                    items.push((8, 4, start * 97 + 11, 1024, o.clone(), VT::Leaf(0)));
                }
            }
        }
    }
    if ctx.tier == Tier::Thorough {
        for (i, o) in permutations(4).into_iter().enumerate() {
            for start in 0..4u64 {
                // top-down diagrams of every 1024th function of 4 variables (about 2 s of query
                // sequences per function), three orders
                if i % 8 == 3 {
                    items.push((4, 4, start * 256 + 3, 1024, o.clone(), VT::Leaf(0)));
                }
                // all ordered query pairs on 3-member pools of every 256th function, every 4th order
                if i % 4 == 1 {
                    items.push((3, 4, start * 64 + 1, 256, o.clone(), VT::Leaf(0)));
                }
            }
        }
    }
    // SDD pools on many vtree shapes (binary nodes above decision nodes and the reverse): every
    // vtree of 4 variables (every 3rd in quick) and every shape of 5 variables with the identity
    // labelling, a progression of functions each, all query pairs
    {
        let step4 = ctx.tier.pick(3, 1);
        for (i, vt) in all_vtrees(4).into_iter().enumerate().filter(|(i, _)| i % step4 == 0) {
            items.push((7, 4, 0x1ee1 + 257 * i as u64, ctx.tier.pick(16384, 4096), vec![], vt));
        }
        for (i, vt) in vtrees_over(&[0, 1, 2, 3, 4]).into_iter().enumerate() {
            items.push((7, 5, 0x6996_1ee1 + 65_537 * i as u64, ctx.tier.pick(1_431_655_765, 268_435_399), vec![], vt));
        }
    }
    let r = par_run(ctx, &items, |_, (kind, n, f, g, o, vt)| {
        let mut r = Report::default();
        r.exhaustive = true;
        let t0 = std::time::Instant::now();
        match kind {
            0 => explore_bdd(*f, *g, *n, o, if *n >= 4 { depth.min(2) } else { depth }, 0, &mut r),
            5 => explore_bdd(*f, *g, *n, o, 2, 0, &mut r),
            3 => {
                // every function of n variables, every ordered pair of queries
                let total = 1u64 << (1u64 << *n);
                let kind = if ctx.tier == Tier::Quick { 1 } else { 2 };
                let mut t = *f;
                while t < total {
                    explore_bdd(t, 0, *n, o, 2, kind, &mut r);
                    if r.n_violations > 4 {
                        break;
                    }
                    t += *g;
                }
            }
            8 => {
                let total = 1u64 << (1u64 << *n);
                let mut t = *f;
                while t < total {
                    explore_bdd_sel(t, 0, *n, o, 3, if *n == 3 { 1 } else { 2 }, &mut r, true);
                    if r.n_violations > 4 {
                        break;
                    }
                    t += *g;
                }
            }
            1 => explore_sdd(*f, *g, *n, vt, depth.min(3), &mut r),
            7 => {
                let total = 1u64 << (1u64 << *n);
                let mut t = *f % total;
                let mut k = 0u64;
                while t < total {
                    // second pool function: the bit-reversed neighbour
                    let g2 = (t.rotate_left(7) ^ 0x5a5a_5a5a_5a5a_5a5a) & (total - 1);
                    explore_sdd(t, g2, *n, vt, 2, &mut r);
                    if r.n_violations > 4 {
                        break;
                    }
                    t += *g;
                    k += 1;
                    if k > 64 {
                        break;
                    }
                }
            }
            4 => {
                // every function of n variables as a top-down diagram, every ordered pair of queries
                let total = 1u64 << (1u64 << *n);
                let mut t = *f;
                let mut k = 0u64;
                while t < total {
                    // isolated ordered pairs of queries (a fresh builder per pair) for a slice of
                    // the functions, and for every function one long history per first query:
                    // q1 followed by every query in rotated order, all in one builder
                    let every = if ctx.tier == Tier::Quick { 8 } else { 1 };
                    if k % every == 0 {
                        explore_td(t, 0, *n, o, 2, 1, &mut r);
                    }
                    long_histories_td(t, *n, o, &mut r);
                    if r.n_violations > 4 {
                        break;
                    }
                    t += *g;
                    k += 1;
                }
            }
            6 => explore_td(*f, *g, *n, o, 3, 0, &mut r),
            _ => explore_td(*f, *g, *n, o, 2, 0, &mut r),
        }
        r.add_extra(&format!("busy_ms_kind{}_n{}", kind, n), t0.elapsed().as_millis() as u64);
        r.add_extra(&format!("items_kind{}_n{}", kind, n), 1);
        r
    });
    rep.merge(r);
    if !disabled("wraparound") {
        rep.merge(wraparound_histories(ctx));
    }
    if !disabled("largediagrams") {
        let depth_before = rep.max_depth;
        let mut l = large_diagram_pairs(ctx);
        rep.add_extra("largest_diagram_nodes", l.max_depth);
        l.max_depth = depth_before;
        rep.merge(l);
    }
    rep.evaluations = rep.transitions;
    rep.distinct_nontrivial = rep.states;
    rep.max_depth = depth as u64;
    rep.bound("depth", json!(depth));
    rep.bound("pools", json!({"pairs_per_n": family(3).len(), "n": [3, 4]}));
    rep.sample(json!({"pool": {"f": "x0 & x2", "g": "x1 | x2", "order": [1, 0, 2]}, "sequence": [["marginal_map", 3], ["count_nodes", 0], ["wmc<FF64>", 1]]}));
    rep.assumptions.push("cached_semantic_hash is used with one field and one weight map per builder (the scope the statement gives); its per-node memo is by design and is not scratch".into());
    rep.assumptions.push("the harness build has the library's debug assertions on, so 'scratch not cleared on entry' assertions inside rsdd also surface as violations".into());
    rep
}

pub fn replay(ctx: &Ctx, case: &Value) -> Report {
    // the family is rule-defined and cheap: re-run the pool the case belongs to
    let mut rep = Report::default();
    let hex = |v: &Value| u64::from_str_radix(v.as_str().unwrap_or("0x0").trim_start_matches("0x"), 16).unwrap_or(0);
    let arr = |v: &Value| -> Vec<usize> { v.as_array().map(|a| a.iter().filter_map(|x| x.as_u64()).map(|x| x as usize).collect()).unwrap_or_default() };
    let (f, g, n) = (hex(&case["f"]), hex(&case["g"]), case["n"].as_u64().unwrap_or(3) as usize);
    let depth = case["sequence"].as_array().map(|a| a.len()).unwrap_or(2).max(1);
    let _ = ctx;
    match case["kind"].as_str() {
        Some("bdd_queries") => explore_bdd_sel(f, g, n, &arr(&case["order"]), depth, case["pool_kind"].as_u64().unwrap_or(0) as u8, &mut rep, case["ops_only"].as_bool().unwrap_or(false)),
        Some("sdd_queries") => explore_sdd(f, g, n, &VT::parse(case["vtree"].as_str().unwrap_or("0")).unwrap_or(VT::Leaf(0)), depth, &mut rep),
        Some("wraparound") => rep.merge(wraparound_histories(ctx)),
        Some("large_diagram") => rep.merge(large_diagram_pairs(ctx)),
        Some("topdown_long_history") => long_histories_td(f, n, &arr(&case["order"]), &mut rep),
        Some("topdown_queries") => explore_td(f, g, n, &arr(&case["order"]), depth, case["pool_kind"].as_u64().unwrap_or(0) as u8, &mut rep),
        _ => {}
    }
    rep
}

fn mk_sdd<'a>(vt: &VT) -> CompressionSddBuilder<'a> {
    rsdd::verif::set_table_capacity(2);
    let b = CompressionSddBuilder::new(vt.to_rsdd());
    rsdd::verif::set_table_capacity(0);
    b
}

fn mk_td<'a>(order: &[usize]) -> StandardDecisionNNFBuilder<'a> {
    rsdd::verif::set_table_capacity(8);
    let b = StandardDecisionNNFBuilder::new(order_of(order));
    rsdd::verif::set_table_capacity(0);
    b
}
