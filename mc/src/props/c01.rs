//! C01 – BDD operations compute the function they name (shared history engine, see bddsweep).
use crate::core::*;
use serde_json::Value;

pub fn run(ctx: &Ctx) -> Report {
    crate::props::bddsweep::run_for(ctx, "C01")
}

pub fn replay(ctx: &Ctx, case: &Value) -> Report {
    crate::props::bddsweep::replay_for(ctx, "C01", case)
}
