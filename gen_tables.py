#!/usr/bin/env python3
"""Prints the measured-bounds table of DESIGN.md §9.5/§9.7 from evidence/*.json (run after ./run_all.sh)."""
import json, glob, os, sys
ROOT = os.path.dirname(os.path.abspath(__file__))
d = sys.argv[1] if len(sys.argv) > 1 else os.path.join(ROOT, "evidence")
print("| check | tier | states | transitions | oracle comparisons | wall | caps hit |")
print("|-------|------|--------|-------------|--------------------|------|----------|")
for f in sorted(glob.glob(os.path.join(d, "C*.json"))):
    e = json.load(open(f))
    c = e["coverage"]
    caps = "; ".join(c.get("caps_hit", [])) or "none"
    print("| {} | {} | {:.3g} | {:.3g} | {:.3g} | {:.0f} s | {} |".format(
        e["property_id"], e["tier"], float(c.get("states", 0)), float(c.get("transitions", 0)),
        float(c.get("evaluations", 0)), float(e.get("wall_s", 0)), caps))
