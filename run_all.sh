#!/bin/bash
# ./run_all.sh <quick|thorough> : every check in turn, one summary line each
tier="${1:-quick}"
cd "$(dirname "${BASH_SOURCE[0]}")"
rc=0
for i in 01 02 03 04 05 06 07 08 09 10 11 12 13 14 15 16 17 18 19; do
  s=$(date +%s)
  out=$(./check C$i "$tier" 2>&1); e=$?
  echo "C$i exit=$e $(( $(date +%s) - s ))s :: $(echo "$out" | grep -E "^C$i " | cut -c1-220)"
  echo "$out" | grep -E "VIOLATION|KNOWN-FINDING|MACHINERY|CAP:" | head -5
  [ $e -ne 0 ] && rc=1
done
exit $rc
