#!/usr/bin/env python3
"""Regenerates MANIFEST.json from the table below (kept next to the checks so the two stay in sync)."""
import json, subprocess, os

ROOT = os.path.dirname(os.path.abspath(__file__))
ALL = ["C%02d" % i for i in range(1, 20)]

# id -> (technique, level text, level note, design ref)
CHECKS = {
    "C01": (
        "bounded exhaustive operation-history exploration of the real BDD builder against a truth-table reference model (saturation sweep over all 256 functions of 3 variables x all orders x cache kinds; all short histories over 2 variables)",
        "Every operation of the alphabet is issued on the real RobddBuilder over all argument combinations of the stated finite pools, in every variable order and for cache-everything and lossy caches of several capacities with tiny and default unique tables; each result and, periodically, every earlier result is compared with the truth-table definition. Exhaustive within the bounds, no sampling.",
        "Trusted: truth-table algebra and the diagram reader of the harness; n <= 3 for all-pairs sweeps over all functions (n = 2 for all-histories; n = 4, 5 over an operand pool of cubes/clauses/2-variable functions; n = 3 again in wide managers with labels up to 133), ite over pools plus every literal guard x every ordered pair with chained condition/exists on the result; address-dependent table layout is whatever the allocator gives (all layouts only in C02a/C16a).",
        "DESIGN.md §3 C01",
    ),
    "C02": (
        "explicit-state BFS over the real unique table with explicit hashes vs a set model (to depth bound, de-duplicated on the slot dump); builder-level canonicity map + shape walk over exhaustive operation sweeps",
        "Every get_or_insert / get_by_hash sequence over small hash alphabets from capacity 2 (through several growths) is executed on the real table and compared with a set model after every call; every BDD produced by the exhaustive builder sweeps is entered in a truth-table->pointer map and shape-walked; one deterministic growth scenario at the default capacity. Exhaustive within the stated bounds, no sampling.",
        "Trusted: the harness's set model and truth-table walker; hash alphabets {0,1,2,3,7,8,15,16}/{0,1,3,17}/{0,1}; builder-level runs see only the allocator's layouts (all layouts only at table level).",
        "DESIGN.md §3 C02",
    ),
    "C06": (
        "exhaustive input-space enumeration (all small CNFs x all decision orders x both node stores) on the real top-down compiler, truth-table oracle; fresh and long-lived builders",
        "Every CNF of the bounded family is compiled top-down under every permutation of its variables with both stores; false-iff-unsat, model set, one-decision-per-path and all conditionings of the result and of its negation are compared with brute force.",
        "Trusted: truth-table oracle; CNFs with <= 3 clauses over <= 3 variables (<= 2 clauses, width <= 3 over 4 in thorough), unit + 4 clauses, binary clauses over 4 variables, one width-4 clause + two binary clauses over 5 variables (all 120 orders), long clauses / long unit lists, sparse labels up to 128 (three orders); orders over exactly the CNF's variables (builder precondition).",
        "DESIGN.md §3 C06",
    ),
    "C08": (
        "exhaustive input-space enumeration: every Boolean function x every order x every smoothing depth on the real builder, path walk + brute-force weighted sum",
        "All functions of <= 3 (thorough 4) variables, with and without an unused builder variable, under every variable order and every smoothing depth: function preserved, every path tests the smoothed levels exactly once in order, counts under integer weights equal the brute-force sum.",
        "Trusted: truth tables, path walker, integer weights incl. zero components (exact in f64); managers built at full width and managers grown from m < #vars variables by new_var.",
        "DESIGN.md §3 C08",
    ),
    "C09": (
        "explicit-state model checking of the real SATSolver: per CNF, BFS to closure over all decide/pop histories (state = watch lists + state stack), brute-force entailment oracle",
        "For every CNF of the bounded family the complete set of solver states reachable by any decide/pop interleaving with at most n+1 open decisions is visited; on every transition soundness of assignments and of UNSAT, the fixpoint condition, exact undo by pop, the satisfied flag and hash/residual injectivity are checked against brute force over all models.",
        "Trusted: brute-force entailment over 2^n models; hooks verif_clone/verif_snapshot for frontier copies and the canonical key (the statement itself is observed through the public API only); CNFs <= 3 clauses over 3 variables (+ <= 2 clauses over 4 in thorough) and one width-4 clause + two binary clauses over 5 variables with <= 3 (4) open decisions.",
        "DESIGN.md §3 C09",
    ),
    "C13": (
        "exhaustive enumeration of all triples over per-type finite alphabets; finite fields against independent 256-bit reference arithmetic",
        "Semiring, ring and lattice laws are evaluated on all triples of exactly representable values for every shipped weight type; every residue for tiny primes and boundary residues for all 7 exported primes are compared with integer arithmetic modulo the prime.",
        "Trusted: the reference limb arithmetic (self-tested); alphabets listed in the evidence; floats only on exactly representable values.",
        "DESIGN.md §3 C13",
    ),
    "C14": (
        "exhaustive input-space enumeration: all small CNFs x all elimination orders; all vtrees (every shape and labelling) x all node pairs, against definitions recomputed from the input",
        "Orders produced by the library are checked to be mutually inverse permutations; dtrees against leaves/vars/cutset definitions; derived vtrees against the CNF's variable set; the vtree manager's indices, lca, prime relation, subtree lookup and variable count against the tree shape for every node pair.",
        "Trusted: the harness's own tree shape computations; CNFs <= 3 clauses over 3 variables (+ slices with 4 clauses / 4 variables in thorough), multisets of 5-7 binary clauses, stars/components/duplicates with 5-7 parts, sparse labels up to 128; vtrees <= 4 leaves (5, and 6 with two labellings, in thorough).",
        "DESIGN.md §3 C14",
    ),
    "C15": (
        "exhaustive input-space enumeration of clause lists against set-theoretic definitions + explicit-state BFS to closure over push/decide/pop histories of the real residual hasher",
        "Cnf::new/eval/is_sat_partial/condition/wmc and the PartialModel/VarSet/Literal bookkeeping are compared with their definitions on every clause list and every (partial) assignment of the family; for every clause list all hasher states reachable by push/decide/pop are visited and same-residual <=> same-hash is checked over all of them.",
        "Trusted: truth-table and set oracles; index-wise reading of 'residuals coincide'; clause lists <= 3 clauses over 3 variables (+ 2 over 4 in thorough).",
        "DESIGN.md §3 C15",
    ),
    "C03": (
        "bounded exhaustive operation-history exploration of the real SDD builder against a truth-table reference model (all functions of 3 variables x all 12 vtrees x compression on/off in long-lived builders; stride slices over 4 variables x 120 vtrees)",
        "Every operation of the alphabet is issued on the real CompressionSddBuilder over all argument combinations of the stated pools for every vtree shape and labelling with compression on and off; each result and periodically every earlier result is compared with the truth-table definition.",
        "Trusted: truth tables read through BinarySDD::{label,low,high} and SddOr::iter; all pairs over all functions only for n <= 3; n = 4: all functions in residue-class builders on 6 vtrees (all 120 in thorough) + operand pool on all 120 vtrees; n = 5: operand pool on 56 vtrees (quick, strided pairs) / 45 vtrees (thorough, all pairs); n = 3 again with labels up to 133.",
        "DESIGN.md §3 C03",
    ),
    "C04": (
        "exhaustive walk of every node reachable from every result of the SDD operation histories (compression on) against the vtree normal form recomputed from truth tables; truth-table->pointer canonicity map",
        "For every result of the C03 histories with compression on, every reachable decision node is checked: primes non-false, exclusive, exhaustive, on the left side of the node's vtree position; subs on the right side and pairwise distinct; not trimmable; one pointer per function.",
        "Trusted: truth tables and vtree sides recomputed by the harness from the vtree value.",
        "DESIGN.md §3 C04",
    ),
    "C05": (
        "exhaustive input-space enumeration (clause sequences, expression trees, plan trees) x all orders x all vtrees x all partial models on the real bottom-up compilers, direct-evaluation oracle",
        "Every CNF (as a sequence of clause types incl. empty/unit/tautological/duplicate clauses, repeated literals, >20 clauses), every expression tree up to a size bound and every dtree plan / small plan tree is compiled with the BDD builder under every order and the SDD builder under every vtree (incl. dtree-derived); models are compared with direct evaluation and compile-under-assignment with compile-then-condition for all 3^n partial models.",
        "Trusted: clause/expression evaluators of the harness; bounds <= 3 clauses over 3 variables (+ slices), clauses of up to 14 literals and lists of up to 14 unit clauses, the <= 2-clause CNFs again under sparse labels up to 133, expressions <= 2 (3) connectives.",
        "DESIGN.md §3 C05",
    ),
    "C07": (
        "exhaustive input-space enumeration: every function x every representation (BDD orders, SDD vtrees, top-down orders x stores, both polarities) x 10 semiring instances x full weight products, brute-force semiring sum in independent exact arithmetic",
        "unsmoothed_wmc and evaluate of every diagram are compared with the sum over models computed by the harness's own arithmetic for each semiring; BDDs with unnormalised weights against the depends-on recursion.",
        "Trusted: oracle arithmetic (shared reference mulmod with C13); exactly representable weight alphabets; polynomials compared coefficient-wise.",
        "DESIGN.md §3 C07",
    ),
    "C10": (
        "explicit-state exploration of all query sequences up to depth 2 (3) over pools of node-sharing diagrams; reference = the same query on a freshly built copy; inductive invariant 'all scratch empty' checked on every reachable node after every call",
        "Every sequence of queries (16 BDD kinds, 8 SDD kinds, 7 decision-DNNF kinds, each on any pool member) is executed in a builder whose pool shares nodes; every answer must equal the fresh-builder answer and no node reachable from the pool may keep scratch data.",
        "Trusted: answers compared as bit-exact strings; pools are a rule-defined family of function pairs for n in {3,4}.",
        "DESIGN.md §3 C10",
    ),
    "C11": (
        "exhaustive enumeration of functions x representations x construction histories x primes against the defining sum (independent modular arithmetic); operation histories of the semantic-hash builders against truth tables",
        "semantic_hash and cached_semantic_hash of every diagram equal the defining sum and one-minus for negations; the semantic SDD builder is swept over all functions/pairs of 3 variables on all vtrees (and/or/negate/condition/exists, eq vs function equality); CNFs are compiled with both semantic builders.",
        "Trusted: reference mulmod; the shipped seed; injectivity is demanded only over the 64-bit field.",
        "DESIGN.md §3 C11",
    ),
    "C12": (
        "exhaustive input-space enumeration: every function x order x ordered query list x weight product; oracle = exhaustive maximisation from the truth table in exact dyadic arithmetic",
        "marginal_map, bb<Real>, meu and bb<ExpectedUtility> are run on every instance; the returned value must be the true maximum and the returned assignment must assign exactly the query variables and attain it.",
        "Trusted: depends-on count recursion; dyadic weight alphabets; MEU precondition (utilities only after all decisions) built into the enumeration.",
        "DESIGN.md §3 C12",
    ),
    "C16": (
        "explicit-state BFS to closure over insert/get sequences of the real Lru with explicit colliding hashes vs a map model; lock-step differential of lossy-cache vs cache-everything BDD builders over the exhaustive histories; warm-vs-cold differential of SDD results",
        "Every reachable Lru state for every key->hash map of the family and capacities 2^0..2^2 is visited; every BDD sweep operation on lossy builders must return a structurally identical diagram; a slice of SDD operations is repeated in cold builders.",
        "Trusted: map model; verif_dump hook for the canonical key only.",
        "DESIGN.md §3 C16",
    ),
    "C17": (
        "exhaustive input-space enumeration of CNF texts (4 layouts), s-expressions and diagrams/vtrees; independent writer, reader and evaluators",
        "Every text is parsed by the real parsers and its models compared with the harness's evaluation under the documented numbering; every diagram and vtree is serialised to JSON and read back by the harness's own node-table reader.",
        "Trusted: harness writer/reader/evaluators; bounds as C05, plus clauses of up to 16 (24) literals, lists of up to 16 (24) clauses and variable numbers up to 65 536.",
        "DESIGN.md §3 C17",
    ),
    "C18": (
        "bounded exhaustive call-history exploration through the real exported C symbols in lock step with native calls and a truth-table oracle",
        "All functions of <= 3 variables are built through the C API, all pairs combined, every handle observed through every exported observer and compared with the native builder; all other exported constructors are exercised on every small CNF.",
        "Trusted: extern declarations in the harness match the exported signatures (a mismatch shows up as a crash or a wrong value); model counts additionally in managers of 4..48 (56) variables against the closed form.",
        "DESIGN.md §3 C18",
    ),
    "C19": (
        "exhaustive input-space enumeration with one subprocess of the real binaries per case; brute-force counts and the harness's JSON reader as oracle",
        "Every formula up to the size bound is run through weighted_model_count under weight products and every configured order, and through the two converters; printed counts must equal the brute-force values exactly and emitted JSON must denote the input.",
        "Trusted: exact decimal round trip of f64 printing on the weight alphabet; dev-profile binaries built from the working tree.",
        "DESIGN.md §3 C19",
    ),
}


# additions of round 13 (mid-scale, wide-manager, long-formula and long-history regimes), appended to the level notes
ROUND13 = {
    "C01": " Mid-scale regime (bddmid.rs): a rule-defined family of about 200 operand functions over 8 variables (10 in thorough) against 2^n-bit truth tables, all ordered pairs of the core operands, unary operations, aliased ite shapes, lists of 4..2n elements, run-time variables; four orders, a 130-variable manager, and managers in label order / reversed label order with table variables at levels on both sides of 2^8 and 2^16 (up to 65 600 variables). Round 14: also 11 variables, 13 variables for the unary operations only (partial models of every length 1 to 13), and the labels 5, 90, 100, 101, 999, 1000, 4999, 5000.",
    "C02": " The mid-scale and huge-manager configurations of C01 feed the same canonicity map and shape walk.",
    "C03": " Mid-scale and wide regimes (sddmid.rs): the operand families over 8 (10) variables on five vtree shapes, and eight table variables at labels on both sides of 32 / 64 (and pairs l, l + 64) inside right-linear, left-linear and balanced vtrees of 70 (130) leaves; every configuration in a worker process of its own (a worker ended by SIGABRT / SIGSEGV is that configuration's finding). Round 14: mixed vtrees (neither linear nor balanced) over 9, 11 variables and 100 leaves, a 12-variable balanced configuration with 64-element decision nodes.",
    "C04": " Normal-form walk and function -> pointer map also on the 8-variable mid-scale configurations; function -> pointer map on the 70-leaf vtrees.",
    "C05": " Long formulas (longcnf.rs): rule-defined families of 9 to 70 distinct non-unit clauses over 6 to 10 variables (clause counts around 16 / 32 / 64), BDD builder under three orders incl. compilation under partial assignments, SDD builder on two vtrees, 2^n-bit truth-table oracle. Round 14: very wide clauses (9 to 40 (60) literals plus a short clause), each diagram evaluated on the wide clause's falsifying assignment and all assignments at Hamming distance <= 2 from it; clause counts 11, 23, 37, 45, 50, 57 added.",
    "C06": " The long formulas of C05 through the top-down compiler (three orders, both stores, conditioning of the result and of its negation).",
    "C07": " Wide managers (wide.rs): eight table variables at labels that collide modulo 32 / 64 inside managers of 40 to 300 variables; operand families as BDD, SDD and decision-DNNF; real-valued and modular counts and evaluate against brute force over the table variables. Round 14: managers of 100 and 1001 variables; SDD decision nodes of up to 256 elements with distinct subs (xorshift-filled truth table over 11 / 12 variables on vtrees with root splits 8 | 4, 7 | 5, 6 | 5).",
    "C08": " Wide managers: smoothing over all levels of managers of 40 to 300 variables (label order and reversed), operand families plus ite(xa, g, xb & g) over every ordered triple of table variables; structure (every edge from level i to i + 1), function, weighted and unweighted counts.",
    "C09": " Long formulas of 48 to 75 literal occurrences over 6 variables, each explored (BFS, at most 2 open decisions) directly after a short formula on the same thread; the hash is a wrapping product there, so the hash clause is decided for the explored states.",
    "C10": " Very long histories: a query on h, k queries on an unrelated diagram, a query on f (sharing h's nodes) with another table, k in windows around 2^8 / j and 2^16 / j (j = 1, 2, 3, 4, 64, 128). Round 14: call counts around 1000 ... 100 000; large diagrams (xorshift-filled truth tables over 13 and 15 variables, about 1100 and 4150 nodes), every ordered pair of a first and a second query on a fresh builder.",
    "C11": " After the cached hashes every diagram is also hashed un-cached with a second weight table of the same field and with the shipped table of another exported field; the hash-identified SDD builder also runs the mid-scale and wide configurations of C03.",
    "C12": " Wide managers: 40, 70 and 130 variables with table variables at l and l + 32 / l + 64, operand families, every single / ordered pair / rotating triple of table variables as query list, marginal_map and bb<Real> against brute force.",
    "C13": " Large-magnitude laws: Gaussian integers and reals with components up to 2^53, for exactly the tuples on which every product and sum of the defining formulas is exactly representable (checked in 128-bit integers).",
    "C14": " Large vtrees: right-linear, left-linear, balanced and scrambled balanced vtrees of 33 to 257 leaves (17 to 300 in thorough) through the complete index / lca / prime-relation / count check. Round 14: 11, 37, 100 leaves and the mixed shape; the long-formula families and chains / ladders / stars over up to 260 variables through the order and dtree checks.",
    "C16": " C16 also runs the compressing configurations of the mid-scale / wide SDD regime: a stride of pair operations and, on the 70-leaf vtrees, every ordered pair of literals under and / or compared with a cold builder.",
    "C17": " Deep diagrams: conjunction, parity and ite-of-halves over 66, 130, 258 (34 to 300) variables as SDD on four vtree shapes and as BDD in two orders, both polarities, the JSON evaluated by a memoised reader under about 120 rule-defined assignments each.",
    "C18": " Weight tables behind the C interface as objects with histories: every sequence of at most 4 (5) set_weight calls over four labels on the f64 / complex / polynomial tables in lock step with native tables; getters and counts compared.",
    "C19": " Chains of 8 to 11 (17) distinct operands over six names (And / Iff of two-literal clauses, Or / Xor of two-literal cubes, right- and left-nested).",
}

NOT_YET = "check not built yet in this round (planned in DESIGN.md §3); not claimed until it exists"

def hook_commits():
    out = subprocess.run(["git", "-C", "/repo", "log", "--format=%H %s"], capture_output=True, text=True).stdout
    return [l.split()[0] for l in out.splitlines() if l.split(" ", 1)[1].startswith("verif hooks")]

manifest = {
    "version": 1,
    "setup_cmd": "cd /verif/mc && CARGO_NET_OFFLINE=true cargo build --release --offline",
    "hooks": {
        "guard": "cargo feature verif_hooks (default off)",
        "enable": "the harness crate /verif/mc depends on /repo by path with features [verif_hooks, ffi]; ./check rebuilds it from /repo's working tree on every call",
        "baseline_off_cmd": "cd /repo && CARGO_NET_OFFLINE=true cargo test --workspace --no-fail-fast --offline",
        "source_commits": hook_commits(),
        "add_only": True,
    },
    "engines": [
        {
            "name": "mc",
            "path": "mc/",
            "serves_properties": sorted(CHECKS),
            "kind_free_text": "hand-rolled explicit-state / history / input-space explorer in Rust driving the real rsdd code (BFS with canonical-key de-duplication where the hidden state is capturable, exhaustive enumeration of finite input spaces otherwise), reference models in the same crate",
        }
    ],
    "checks": [],
    "not_applicable": [],
    "notes": "All checks are one binary (mc/target/release/mc) started through ./check, which first rebuilds harness + rsdd from /repo's working tree. Exit 0 held / 1 VIOLATION / 2 machinery failure. Known findings: KNOWN_FINDINGS.txt.",
}
for pid in ALL:
    if pid in CHECKS:
        tech, text, note, ref = CHECKS[pid]
        manifest["checks"].append({
            "property_id": pid,
            "quick_cmd": "./check %s quick" % pid,
            "thorough_cmd": "./check %s thorough" % pid,
            "evidence_file": "/verif/evidence/%s.json" % pid,
            "replay_cmd_template": "./check %s --replay {path}" % pid,
            "engine": "mc",
            "level_claimed": {"category": "model_checking", "text": text, "design_ref": ref},
            "level_note": note + ROUND13.get(pid, ""),
            "technique": tech,
        })
    else:
        manifest["not_applicable"].append({"property_id": pid, "reason": NOT_YET})
json.dump(manifest, open(os.path.join(ROOT, "MANIFEST.json"), "w"), indent=1)
print("MANIFEST.json written:", len(manifest["checks"]), "checks,", len(manifest["not_applicable"]), "not claimed")
