#!/usr/bin/env python3
"""Regenerates MANIFEST.json from the table below (kept next to the checks so the two stay in sync)."""
import json, subprocess, os

ROOT = os.path.dirname(os.path.abspath(__file__))
ALL = ["C%02d" % i for i in range(1, 20)]

# id -> (technique, level text, level note, design ref)
CHECKS = {
    "C01": (
        "bounded exhaustive operation-history exploration of the real BDD builder against a truth-table reference model (saturation sweep over all 256 functions of 3 variables x all orders x cache kinds; all short histories over 2 variables)",
        "Every operation of the alphabet is issued on the real RobddBuilder over all argument combinations of the stated finite pools, in every variable order and for cache-everything and lossy caches of several capacities with tiny and default unique tables; each result and, periodically, every earlier result is compared with the truth-table definition. Exhaustive within the bounds, no sampling.",
        "Trusted: truth-table algebra and the diagram reader of the harness; n <= 3 for all-pairs sweeps (n = 2 for all-histories), pools for ite in quick; address-dependent table layout is whatever the allocator gives (all layouts only in C02a/C16a).",
        "DESIGN.md §3 C01",
    ),
    "C02": (
        "explicit-state BFS over the real unique table with explicit hashes vs a set model (to depth bound, de-duplicated on the slot dump); builder-level canonicity map + shape walk over exhaustive operation sweeps",
        "Every get_or_insert / get_by_hash sequence over small hash alphabets from capacity 2 (through several growths) is executed on the real table and compared with a set model after every call; every BDD produced by the exhaustive builder sweeps is entered in a truth-table->pointer map and shape-walked; one deterministic growth scenario at the default capacity. Exhaustive within the stated bounds, no sampling.",
        "Trusted: the harness's set model and truth-table walker; hash alphabets {0,1,2,3,7,8,15,16}/{0,1,3,17}/{0,1}; builder-level runs see only the allocator's layouts (all layouts only at table level).",
        "DESIGN.md §3 C02",
    ),
    "C06": (
        "exhaustive input-space enumeration (all small CNFs x all decision orders x both node stores) on the real top-down compiler, truth-table oracle; fresh and long-lived builders",
        "Every CNF of the bounded family is compiled top-down under every permutation of its variables with both stores; false-iff-unsat, model set, one-decision-per-path and all conditionings of the result and of its negation are compared with brute force.",
        "Trusted: truth-table oracle; CNFs with <= 3 clauses over <= 3 variables (<= 2 clauses, width <= 3 over 4 in thorough); orders over exactly the CNF's variables (builder precondition).",
        "DESIGN.md §3 C06",
    ),
    "C08": (
        "exhaustive input-space enumeration: every Boolean function x every order x every smoothing depth on the real builder, path walk + brute-force weighted sum",
        "All functions of <= 3 (thorough 4) variables, with and without an unused builder variable, under every variable order and every smoothing depth: function preserved, every path tests the smoothed levels exactly once in order, counts under integer weights equal the brute-force sum.",
        "Trusted: truth tables, path walker, integer weights (exact in f64).",
        "DESIGN.md §3 C08",
    ),
    "C09": (
        "explicit-state model checking of the real SATSolver: per CNF, BFS to closure over all decide/pop histories (state = watch lists + state stack), brute-force entailment oracle",
        "For every CNF of the bounded family the complete set of solver states reachable by any decide/pop interleaving with at most n+1 open decisions is visited; on every transition soundness of assignments and of UNSAT, the fixpoint condition, exact undo by pop, the satisfied flag and hash/residual injectivity are checked against brute force over all models.",
        "Trusted: brute-force entailment over 2^n models; hooks verif_clone/verif_snapshot for frontier copies and the canonical key (the statement itself is observed through the public API only); CNFs <= 3 clauses over 3 variables (+ <= 2 clauses over 4 in thorough).",
        "DESIGN.md §3 C09",
    ),
    "C13": (
        "exhaustive enumeration of all triples over per-type finite alphabets; finite fields against independent 256-bit reference arithmetic",
        "Semiring, ring and lattice laws are evaluated on all triples of exactly representable values for every shipped weight type; every residue for tiny primes and boundary residues for all 7 exported primes are compared with integer arithmetic modulo the prime.",
        "Trusted: the reference limb arithmetic (self-tested); alphabets listed in the evidence; floats only on exactly representable values.",
        "DESIGN.md §3 C13",
    ),
    "C14": (
        "exhaustive input-space enumeration: all small CNFs x all elimination orders; all vtrees (every shape and labelling) x all node pairs, against definitions recomputed from the input",
        "Orders produced by the library are checked to be mutually inverse permutations; dtrees against leaves/vars/cutset definitions; derived vtrees against the CNF's variable set; the vtree manager's indices, lca, prime relation, subtree lookup and variable count against the tree shape for every node pair.",
        "Trusted: the harness's own tree shape computations; CNFs <= 3 clauses over 3 variables (+ slices with 4 clauses / 4 variables in thorough); vtrees <= 4 leaves (5, and 6 with two labellings, in thorough).",
        "DESIGN.md §3 C14",
    ),
    "C15": (
        "exhaustive input-space enumeration of clause lists against set-theoretic definitions + explicit-state BFS to closure over push/decide/pop histories of the real residual hasher",
        "Cnf::new/eval/is_sat_partial/condition/wmc and the PartialModel/VarSet/Literal bookkeeping are compared with their definitions on every clause list and every (partial) assignment of the family; for every clause list all hasher states reachable by push/decide/pop are visited and same-residual <=> same-hash is checked over all of them.",
        "Trusted: truth-table and set oracles; index-wise reading of 'residuals coincide'; clause lists <= 3 clauses over 3 variables (+ 2 over 4 in thorough).",
        "DESIGN.md §3 C15",
    ),
}

NOT_YET = "check not built yet in this round (planned in DESIGN.md §3); not claimed until it exists"

def hook_commits():
    out = subprocess.run(["git", "-C", "/repo", "log", "--format=%H %s"], capture_output=True, text=True).stdout
    return [l.split()[0] for l in out.splitlines() if l.split(" ", 1)[1].startswith("verif hooks")]

manifest = {
    "version": 1,
    "setup_cmd": "cd /verif/mc && CARGO_NET_OFFLINE=true cargo build --release --offline",
    "hooks": {
        "guard": "cargo feature verif_hooks (default off)",
        "enable": "the harness crate /verif/mc depends on /repo by path with features [verif_hooks, ffi]; ./check rebuilds it from /repo's working tree on every call",
        "baseline_off_cmd": "cd /repo && CARGO_NET_OFFLINE=true cargo test --workspace --no-fail-fast --offline",
        "source_commits": hook_commits(),
        "add_only": True,
    },
    "engines": [
        {
            "name": "mc",
            "path": "mc/",
            "serves_properties": sorted(CHECKS),
            "kind_free_text": "hand-rolled explicit-state / history / input-space explorer in Rust driving the real rsdd code (BFS with canonical-key de-duplication where the hidden state is capturable, exhaustive enumeration of finite input spaces otherwise), reference models in the same crate",
        }
    ],
    "checks": [],
    "not_applicable": [],
    "notes": "All checks are one binary (mc/target/release/mc) started through ./check, which first rebuilds harness + rsdd from /repo's working tree. Exit 0 held / 1 VIOLATION / 2 machinery failure. Known findings: KNOWN_FINDINGS.txt.",
}
for pid in ALL:
    if pid in CHECKS:
        tech, text, note, ref = CHECKS[pid]
        manifest["checks"].append({
            "property_id": pid,
            "quick_cmd": "./check %s quick" % pid,
            "thorough_cmd": "./check %s thorough" % pid,
            "evidence_file": "/verif/evidence/%s.json" % pid,
            "replay_cmd_template": "./check %s --replay {path}" % pid,
            "engine": "mc",
            "level_claimed": {"category": "model_checking", "text": text, "design_ref": ref},
            "level_note": note,
            "technique": tech,
        })
    else:
        manifest["not_applicable"].append({"property_id": pid, "reason": NOT_YET})
json.dump(manifest, open(os.path.join(ROOT, "MANIFEST.json"), "w"), indent=1)
print("MANIFEST.json written:", len(manifest["checks"]), "checks,", len(manifest["not_applicable"]), "not claimed")
