#!/usr/bin/env python3
"""Regenerates MANIFEST.json from the table below (kept next to the checks so the two stay in sync)."""
import json, subprocess, os

ROOT = os.path.dirname(os.path.abspath(__file__))
ALL = ["C%02d" % i for i in range(1, 20)]

# id -> (technique, level text, level note, design ref)
CHECKS = {
    "C02": (
        "explicit-state BFS over the real unique table with explicit hashes vs a set model (to depth bound, de-duplicated on the slot dump); builder-level canonicity map + shape walk over exhaustive operation sweeps",
        "Every get_or_insert / get_by_hash sequence over small hash alphabets from capacity 2 (through several growths) is executed on the real table and compared with a set model after every call; every BDD produced by the exhaustive builder sweeps is entered in a truth-table->pointer map and shape-walked. Exhaustive within the stated bounds, no sampling.",
        "Trusted: the harness's set model and truth-table walker; hash alphabets {0,1,2,3,7,8,15,16}/{0,1,3,17}/{0,1}; builder-level runs see only the allocator's layouts (all layouts only at table level).",
        "DESIGN.md §3 C02",
    ),
}

NOT_YET = "check not built yet in this round (planned in DESIGN.md §3); not claimed until it exists"

def hook_commits():
    out = subprocess.run(["git", "-C", "/repo", "log", "--format=%H %s"], capture_output=True, text=True).stdout
    return [l.split()[0] for l in out.splitlines() if l.split(" ", 1)[1].startswith("verif hooks")]

manifest = {
    "version": 1,
    "setup_cmd": "cd /verif/mc && CARGO_NET_OFFLINE=true cargo build --release --offline",
    "hooks": {
        "guard": "cargo feature verif_hooks (default off)",
        "enable": "the harness crate /verif/mc depends on /repo by path with features [verif_hooks, ffi]; ./check rebuilds it from /repo's working tree on every call",
        "baseline_off_cmd": "cd /repo && CARGO_NET_OFFLINE=true cargo test --workspace --no-fail-fast --offline",
        "source_commits": hook_commits(),
        "add_only": True,
    },
    "engines": [
        {
            "name": "mc",
            "path": "mc/",
            "serves_properties": sorted(CHECKS),
            "kind_free_text": "hand-rolled explicit-state / history / input-space explorer in Rust driving the real rsdd code (BFS with canonical-key de-duplication where the hidden state is capturable, exhaustive enumeration of finite input spaces otherwise), reference models in the same crate",
        }
    ],
    "checks": [],
    "not_applicable": [],
    "notes": "All checks are one binary (mc/target/release/mc) started through ./check, which first rebuilds harness + rsdd from /repo's working tree. Exit 0 held / 1 VIOLATION / 2 machinery failure. Known findings: KNOWN_FINDINGS.txt.",
}
for pid in ALL:
    if pid in CHECKS:
        tech, text, note, ref = CHECKS[pid]
        manifest["checks"].append({
            "property_id": pid,
            "quick_cmd": "./check %s quick" % pid,
            "thorough_cmd": "./check %s thorough" % pid,
            "evidence_file": "/verif/evidence/%s.json" % pid,
            "replay_cmd_template": "./check %s --replay {path}" % pid,
            "engine": "mc",
            "level_claimed": {"category": "model_checking", "text": text, "design_ref": ref},
            "level_note": note,
            "technique": tech,
        })
    else:
        manifest["not_applicable"].append({"property_id": pid, "reason": NOT_YET})
json.dump(manifest, open(os.path.join(ROOT, "MANIFEST.json"), "w"), indent=1)
print("MANIFEST.json written:", len(manifest["checks"]), "checks,", len(manifest["not_applicable"]), "not claimed")
